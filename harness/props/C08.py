"""C08 — directory-partitioned write/read preserves every row and every partition value
(DESIGN.md section 6, C08).  Model: coq/theories/Impl/Partition.v."""
import json
import os
import shutil
import tempfile

from harness import common as C
from harness import partlib as L

TRUSTED = [
    "translators/paths2coq.py (Python ast -> Gallina; fail closed) and its prelude coq/theories/Impl/PyPaths.v (what a break-search loop, %s formatting, rsplit(c, 1)[0], len(set(l)), truth values, isinstance(o, pd.Timestamp) / isoformat / str mean), the template of the _path_to_cats loop skeleton; the regenerated text is also evaluated by the kernel "
    "against the real functions on sampled inputs on every run",
    "Coq 8.16.1 kernel + coqc (vm_compute only for the closed Example); no native_compute",
    "extraction: ExtrOcamlBasic only, no Extract Constant; ocaml/driver.ml s-expression I/O",
    "Section variables of coq/props/C08.v (external conversions, not modelled): Python float()/repr, "
    "pd.Timestamp.isoformat/str, np.datetime64(text), pd.to_datetime(text, PATH_DATE_FMT), pd.Timestamp(text), "
    "pd.Timedelta(text); decidable equality on floats (==), timestamps, timedeltas. In the extracted model they are "
    "instantiated by an oracle table computed with these very Python functions on every text that occurs",
    "pandas groupby (drops NULL keys, groups by ==, hands np.int64/np.bool_/float/Timestamp/str keys to the writer), "
    "writer.iter_dataframe (row-group split; C01), reading the payload columns of one file (C01)",
    "Python glue: generators, canonical forms of values (harness/partlib.py), metadata block -> model kind",
    "extraction and driver are cross-checked on every run: ~30 of the commands issued are re-evaluated by the Coq kernel "
    "(vm_compute) and must give the output the extracted program printed (obligations extract_agrees_*); thorough tier: coqchk -o",
    "int(text): modelled for every text - ASCII white space (Py_ISSPACE), sign, digits with single underscores; characters of other scripts through "
    "the tables udigit_zeros (68 runs of Unicode decimal digits) / uspaces of Impl/Partition.v, compared on every run with unicodedata / str.isspace "
    "of the running interpreter (obligation 'digit table'); UTF-8 decoding of well-formed text",
]

STR_POOL = ["a", "b", "1", "2", "-3", "007", "True", "False", "nan", "NaN", "now", "", "é", "日本", "x y", " lead",
            "0.7", ".7", "1e5", "2020-01-01", "1_0", "+1", "a.b", "a-b", "None", "inf", "1.0", "0x10", "t", "T",
            "2020-01-01T00:00:00", "1 days", "A" * 30, "\U0001F600", "-", "null", "0", "1.5", "TRUE", "#", "a%20b",
            "a*b", "[x]", "q?", "a:b", "tab\tx", "~", "a b ", "-inf", "1e400",
            "\u0663", "\uff11\uff12", "\u0967\u0968\u0969", "1\u0663", "\u00a07", "\u0663_\u0664",      # Unicode decimal digits / white space: int() reads them
            "B", "\u00e9t\u00e9", "e\u0301te\u0301", "x ", "x", "\u212b", "\u00c5", "ss", "\u00df", "I", "\u0131"]      # case / normalisation / whitespace pairs
ADVERSARIAL = STR_POOL + ["\u0663x", "\u00b2", "\u2167", "\u4e00", "\x1f7", "7\x1f", "\x1c", "7\x7f", "7\u0085", "\u20037\u3000", "-\u0663", "+\uff17",
                          "\u0663.\u0665", "\U0001d7ce\U0001d7cf", "\u0e51\u0e52", "\u0663\u00a0", "1\u00a02", "\ud7ff", "true", " 7 ", "7 ", "\t7", "1__0", "_1", "1_", "--1", "+-1", "1e", "e5", "1.", "-.5e-3",
                          "Infinity", "-inf", "0b1", "12abc", "2020-13-01", "20200101_120000.000000",
                          "20200101_120000.5", "2020-01-01 01:02:03.5", "2020-01-01T01:02:03.000000005",
                          "1677-01-01", "3000-01-01", "1 day", "5min", "P1D", "9223372036854775808",
                          "-9223372036854775809", "18446744073709551615", "18446744073709551616", "255", "256", "-129",
                          "dir0", "part.0.parquet", "k=v"]
KINDS = [[0, True, 64], [0, True, 8], [0, True, 32], [0, False, 8], [0, False, 64], [1], [2], [3, False], [3, True], [4, True], [4, False], [5], [7],
         [5, [0, True, 64]], [5, [0, True, 8]], [5, [1]], [5, [2]], [5, [3, False]], [5, [4, True]], [5, [7]]]    # categorical with recorded label type
_META_OF_KIND = {
    (0, True, 64): {"pandas_type": "int64", "numpy_type": "int64"},
    (0, True, 8): {"pandas_type": "int8", "numpy_type": "int8"},
    (0, True, 32): {"pandas_type": "int32", "numpy_type": "int32"},
    (0, False, 8): {"pandas_type": "uint8", "numpy_type": "uint8"},
    (0, False, 64): {"pandas_type": "uint64", "numpy_type": "uint64"},
    (1,): {"pandas_type": "bool", "numpy_type": "bool"},
    (2,): {"pandas_type": "unicode", "numpy_type": "object"},
    (3, False): {"pandas_type": "float64", "numpy_type": "float64"},
    (3, True): {"pandas_type": "float32", "numpy_type": "float32"},
    (4, True): {"pandas_type": "datetime", "numpy_type": "datetime64[ns]"},
    (4, False): {"pandas_type": "datetime", "numpy_type": "datetime64[us]"},
    (5,): {"pandas_type": "categorical", "numpy_type": "int8"},
    (7,): {"pandas_type": "datetimetz", "numpy_type": "datetime64[ns, UTC]", "metadata": {"timezone": "UTC"}},
}


def meta_of_kind(kind):
    """model kind (s-expression) -> a pandas-metadata block as fastparquet writes it"""
    if kind[0] == 5 and len(kind) > 1:
        return {"pandas_type": "categorical", "numpy_type": "int8", "metadata": {"num_categories": 3, "ordered": False, "labels": meta_of_kind(kind[1])}}
    return dict(_META_OF_KIND[tuple(kind)])


def rand_typed_value(rng):
    """(python value as groupby would hand it over, kind letter)"""
    import numpy as np
    import pandas as pd
    t = rng.choice("iiubfFtsz")
    if t == "z":
        base = rng.choice([0, 1577836800, 1577836800 + 3723, 1603587600, 1603591200, 4102444800])     # incl. the repeated hour in Berlin
        ts = pd.Timestamp(base, unit="s", tz="UTC").tz_convert(rng.choice(["UTC", "Europe/Berlin", "America/New_York", "Asia/Kolkata"]))
        return ts, "t"
    if t == "i":
        return np.int64(rng.choice([0, 1, -1, 7, -5, 42, 2**31, -2**31, 2**63 - 1, -2**63, rng.randrange(-10**6, 10**6)])), "i"
    if t == "u":
        return np.uint64(rng.choice([0, 1, 255, 2**63, 2**63 + 5, 2**64 - 1])), "i"
    if t == "b":
        return np.bool_(rng.random() < 0.5), "b"
    if t == "f":
        return np.float64(rng.choice([0.5, 1.0, -2.25, 0.1, 1e22, 1e-7, 1e16, 123456789.125, float("inf"), -float("inf"),
                                      3.0, 2.5e-300, rng.random() * 10 ** rng.randrange(-5, 20)])), "f"
    if t == "F":
        return float(np.float32(rng.choice([0.1, 0.5, 2.0, 1e10, 3.3, rng.random()]))), "f"
    if t == "t":
        unit = rng.choice(["s", "ms", "us", "ns"])
        base = rng.choice([0, 1577836800, 1577836800 + 3723, -86400 * 365 * 50, 4102444800])
        mult = {"s": 1, "ms": 10**3, "us": 10**6, "ns": 10**9}[unit]
        frac = rng.choice([0, 0, 1, 500, mult // 2]) % mult
        return pd.Timestamp(np.datetime64(base * mult + frac, unit)), "t"
    return rng.choice(STR_POOL), "s"


def run(ctx):
    import warnings
    warnings.filterwarnings("ignore", message="no explicit representation of timezones")
    C.coq_lib()
    ctx.trusted = TRUSTED
    ok, _ = ctx.coq_file(os.path.join(C.COQ, "props", "C08.v"))
    if ok and not ctx.quick():
        L.coqchk_props(ctx, "C08")
    bad = C.hygiene()
    ctx.obligation("hygiene: no Admitted/Axiom/Parameter/... in coq/", not bad, "; ".join(bad))
    # tie 1 (translator): path_string, _val_to_num, _strip_path_tail, the directory naming of partition_on_columns regenerated from
    # the working tree; the int/bool text round trip, the integer guess and "file of a key = rel_path of the model" re-proved on it
    ctx.gen_paths = L.paths_translator(ctx)
    C.use_shadow()
    pq = C.Pqref()
    try:
        _run(ctx, pq)
    finally:
        pq.close()


def _impl_call(f, *a):
    try:
        return ["ok", L.canon(f(*a))]
    except ValueError:
        return ["raises", "ValueError"]
    except Exception as e:      # noqa
        return ["raises", "Error"]


def _run(ctx, pq):
    import numpy as np
    import pandas as pd
    from fastparquet import util, api
    rng = ctx.rng
    quick = ctx.quick()
    ctx.rule = ("A: typed values (ints of every width incl. uint64 >= 2^63, bools, floats incl. widened float32/inf/1e22, "
                "timestamps of units s..ns with/without fractions, text incl. numeric-looking/True/nan/now/empty/unicode) -> path text; "
                "B: (metadata kind, text) pairs over adversarial texts -> val_from_meta; C: texts -> _val_to_num; "
                "D: ordered directory lists (hive/drill/mixed/malformed) -> _path_to_cats/paths_to_cats; "
                "E: the corpus of past failures, then frames with 1..3 partition columns of every kind (int8..uint64, bool, float32/64, "
                "datetime64[s..ns], text incl. numeric-looking, categorical, nullable Int/UInt/boolean/Float, string/str, tz-aware datetimes; "
                "NULL keys, unused categories, repeated and empty combinations, odd column names), "
                "every row_group_offsets form, hive and drill: write, walk the tree, read every file, read the dataset (forked workers). "
                "Trivial: frames with no row having all keys non-null; distinct = distinct case data")

    # ---------------------------------------------------------------- the Unicode tables of the model of int() vs this interpreter
    import sys
    import unicodedata
    zeros = [c for c in range(sys.maxunicode + 1) if unicodedata.decimal(chr(c), -1) == 0]
    runs_ok = all(all(unicodedata.decimal(chr(c + k), -1) == k for k in range(10)) for c in zeros) and \
        sum(1 for c in range(sys.maxunicode + 1) if unicodedata.decimal(chr(c), -1) >= 0) == 10 * len(zeros)
    spaces = [c for c in range(127, sys.maxunicode + 1) if chr(c).isspace()]
    mz, ms = pq.call("unicode_tables")
    ctx.obligation("digit table: udigit_zeros / uspaces of Impl/Partition.v = unicodedata %s of the running interpreter (decimal digits come in runs of ten)"
                   % unicodedata.unidata_version, runs_ok and list(mz) == zeros and list(ms) == spaces,
                   "model zeros %r... python zeros %r...; model spaces %r python spaces %r" % (list(mz)[:5], zeros[:5], list(ms), spaces))
    # the metadata block -> kind glue: harness/partlib.kind_of_meta (Python) vs Impl/PartMeta.kind_of_pmeta (the one the regenerated
    # val_from_meta is proved against), on every kind of block fastparquet writes
    metas = [meta_of_kind(k) for k in KINDS] + [{"pandas_type": pt, "numpy_type": nt} for pt, nt in (
        ("int16", "int16"), ("uint16", "uint16"), ("uint32", "uint32"), ("float16", "float16"), ("datetime", "datetime64[ms]"),
        ("datetime", "datetime64[s]"), ("unicode", "object"), ("string", "str"), ("bytes", "object"), ("mixed", "object"))]
    for m in metas:
        mo = pq.call("kind_of_pmeta", L.pmeta_sx(m))
        ctx.correspondence("kind_of_pmeta (Impl/PartMeta.v) ~ harness glue kind_of_meta", {"meta": m}, L.kind_sx_norm(mo), L.kind_of_meta(m))
    # int() itself on every decimal digit of every script, alone and mixed, and on every white space (model vs the interpreter)
    probe = [chr(z + k) for z in zeros for k in (0, 3, 9)] + [chr(z + 1) + chr(zeros[(i + 1) % len(zeros)] + 2) for i, z in enumerate(zeros)] + \
            [chr(c) + "5" + chr(c) for c in spaces] + [chr(z - 1) for z in zeros] + [chr(z + 10) for z in zeros]
    outs_p = pq.batch([("parse_int", L.enc(t)) for t in probe])
    for t, mo in zip(probe, outs_p):
        try:
            impl = int(t, base=10)
        except ValueError:
            impl = None
        ctx.correspondence("parse_int ~ int(text, base=10) on the digits and white space of every script", {"text": t}, (mo[0] if mo else None), impl)
    # ---------------------------------------------------------------- A: path_string / "%s" % val
    n_a = 250 if quick else 2500
    cmds, meta, vals_a = [], [], []
    for _ in range(n_a):
        v, k = rand_typed_value(rng)
        vals_a.append(v)
        hive = rng.random() < 0.6
        cmds.append(("path_string", hive, L.model_value(v)))
        impl = util.path_string(v) if hive else "%s" % v
        meta.append(({"corr": "path_string", "hive": hive, "value": L.canon(v), "pytype": type(v).__name__}, impl, k))
    samples = []           # (command, output) pairs re-evaluated by the Coq kernel at the end
    outs_a = pq.batch(cmds)
    L.sample_pq(samples, cmds, outs_a, rng, 4)
    for (case, impl, k), mo in zip(meta, outs_a):
        ctx.case(case)
        ctx.count("A.kind", k)
        ctx.correspondence("show ~ util.path_string / '%s' % val", case, bytes(mo).decode("utf-8", "replace"), impl)
    # the hypothesis of C08_multiset_hive that is NOT proved (floats, timestamps) and, as a cross-check, the proved
    # ones, evaluated with the real functions: val_from_meta(path_string(v), metadata of v's dtype) == v, same kind
    for v in vals_a:
        c = L.canon(v)
        m = {"i": {"pandas_type": "int64", "numpy_type": "uint64" if isinstance(v, np.uint64) else "int64"},
             "b": {"pandas_type": "bool", "numpy_type": "bool"}, "f": {"pandas_type": "float64", "numpy_type": "float64"},
             "t": ({"pandas_type": "datetime", "numpy_type": "datetime64[%s]" % (getattr(v, "unit", "ns"))}
                   if getattr(v, "tzinfo", None) is None else
                   {"pandas_type": "datetimetz", "numpy_type": "datetime64[ns, %s]" % v.tz, "metadata": {"timezone": str(v.tz)}}),
             "s": {"pandas_type": "unicode", "numpy_type": "object"}}[c[0]]
        try:
            back = L.canon(util.val_from_meta(util.path_string(v), m))
        except Exception as e:      # noqa
            back = ["raises", type(e).__name__]
        ctx.obligation_count = getattr(ctx, "obligation_count", 0) + 1
        if back != c:
            ctx.fail({"component": "val_from_meta(path_string(v))", "kind": c[0]}, {"value": c, "meta": m},
                     "text round trip of a partition value: %r -> %r -> %r" % (c, util.path_string(v), back))

    # ---------------------------------------------------------------- B: val_from_meta
    n_b = 500 if quick else 5000
    cmds, meta = [], []
    texts = []
    for i in range(n_b):
        kind = rng.choice(KINDS)
        if rng.random() < 0.5:
            v, _ = rand_typed_value(rng)
            x = util.path_string(v)
        else:
            x = rng.choice(ADVERSARIAL)
        if (kind[0] in (4, 7) or (kind[0] == 5 and len(kind) > 1 and kind[1][0] in (4, 7))) and x.strip().lower() in ("now", "today"):
            x = "2001-02-03"            # np.datetime64("now") is the wall clock: not a function of the text
        texts.append((kind, x))
    table = L.oracle_table([x for _, x in texts])
    for kind, x in texts:
        m = meta_of_kind(kind)
        cmds.append(("val_from_meta", kind, L.enc(x), [e for e in table if e[0] == L.enc(x)]))
        impl = _impl_call(util.val_from_meta, x, m)
        meta.append(({"corr": "val_from_meta", "kind": kind, "text": x}, impl))
    outs_b = pq.batch(cmds)
    L.sample_pq(samples, cmds, outs_b, rng, 5)
    for (case, impl), mo in zip(meta, outs_b):
        ctx.case(case)
        ctx.count("B.kind", str(case["kind"]))
        model = L.res_of_model(mo, L.from_model)
        ctx.correspondence("parse_with_meta ~ util.val_from_meta", case, model, impl)
        ctx.count("B.outcome", impl[0] if impl[0] == "raises" else impl[1][0])

    # ---------------------------------------------------------------- C: _val_to_num (guess)
    n_c = 300 if quick else 3000
    xs = []
    for i in range(n_c):
        if rng.random() < 0.5:
            v, _ = rand_typed_value(rng)
            xs.append(util.path_string(v) if rng.random() < 0.5 else "%s" % v)
        else:
            xs.append(rng.choice(ADVERSARIAL))
    table = {e[0]: e for e in L.oracle_table(xs)}
    cmds_c = [("val_to_num", L.enc(x), [table[L.enc(x)]]) for x in xs]
    outs = pq.batch(cmds_c)
    L.sample_pq(samples, cmds_c, outs, rng, 4)
    for x, mo in zip(xs, outs):
        case = {"corr": "val_to_num", "text": x}
        ctx.case(case)
        impl = L.canon(util._val_to_num(x))
        ctx.count("C.outcome", impl[0])
        ctx.correspondence("parse_guess ~ util._val_to_num", case, L.from_model(mo), impl)

    # ---------------------------------------------------------------- D: _path_to_cats / paths_to_cats
    n_d = 200 if quick else 2000
    d_paths = []
    for i in range(n_d):
        shape = rng.choice(["hive", "hive", "drill", "drill", "mixed", "malformed", "ragged"])
        depth = rng.choice([1, 1, 2, 3]) if shape != "ragged" else rng.choice([2, 3])
        ragged_hive = rng.random() < 0.5
        names = rng.sample(["a", "b", "c_1", "dir0", "Key"], depth)
        kinds = [rng.choice(KINDS + [None, None]) for _ in range(depth)]
        # drill levels WITHOUT text that mix kinds colliding under Python's == (1 == 1.0 == True == 1e0 == 01): C08_drill_numeric_level
        numfam = shape == "drill" and rng.random() < 0.3
        if numfam:
            kinds = [None] * depth
        pools = []
        any_time = any(kd is not None and (kd[0] in (4, 7) or (kd[0] == 5 and len(kd) > 1 and kd[1][0] in (4, 7)))
                       for kd in kinds)     # "now" is the wall clock for time kinds
        for kd in kinds:
            pool = []
            if numfam:
                pools.append(rng.sample(["1", "1.0", "True", "2", "2.5", "0", "False", "1e0", "01", "0.0", "-0", "2.0", "10", "1_0"], rng.choice([2, 3, 4])))
                continue
            for _ in range(rng.choice([1, 2, 3])):
                if kd is None or rng.random() < 0.3:
                    pool.append(rng.choice([t for t in ADVERSARIAL if L.legal_text(t, True)
                                            and not (any_time and t.lower() in ("now", "today"))]))
                else:
                    while True:
                        v, k = rand_typed_value(rng)
                        bk = kd[1] if (kd[0] == 5 and len(kd) > 1) else kd        # labels of a categorical with recorded type
                        if {0: "i", 1: "b", 2: "s", 3: "f", 4: "t", 5: "s", 7: "t"}[bk[0]] == k and \
                                (k != "t" or (getattr(v, "tzinfo", None) is not None) == (bk[0] == 7)):
                            break
                    t = util.path_string(v)
                    if any_time and t.lower() in ("now", "today"):      # the wall clock for a time kind (at any level: drill names are positional)
                        t = "z"
                    pool.append(t if L.legal_text(t, True) else "z")
            pools.append(pool)
        dirs = []
        for _ in range(rng.choice([1, 2, 4])):
            segs = []
            for nm, pool in zip(names, pools):
                t = rng.choice(pool)
                hv = shape == "hive" or (shape == "mixed" and rng.random() < 0.5) or (shape == "ragged" and ragged_hive)
                if shape == "malformed" and rng.random() < 0.3:
                    segs.append(nm + "=" + t + "=x")
                else:
                    segs.append(nm + "=" + t if hv else t)
            if shape == "malformed" and rng.random() < 0.3:
                segs = segs[:-1]
            if shape == "ragged" and rng.random() < 0.5:        # directories of different depths: scheme 'other'
                segs = segs[:rng.randrange(1, len(segs))]
            d = "/".join(segs)
            if d not in dirs:
                dirs.append(d)
        pm = {nm: dict(meta_of_kind(kd), field_name=nm) for nm, kd in zip(names, kinds) if kd is not None}
        pmx = [[L.enc(nm), kd] for nm, kd in zip(names, kinds) if kd is not None]
        alltexts = [t for d in dirs for seg in d.split("/") for t in ([seg] + seg.split("="))]
        table = L.oracle_table(alltexts)
        for hive in (True, False):
            parts = [d.split("/") for d in dirs if d]          # as api.paths_to_cats builds it
            try:
                r = api._path_to_cats(dirs, parts, "hive" if hive else "drill", partition_meta=pm)
                impl = ["ok", [[k, sorted(json.dumps(L.canon(v)) for v in vs)] for k, vs in r.items()]]
            except ValueError:
                impl = ["raises", "ValueError"]
            except Exception as e:      # noqa
                impl = ["raises", "Error"]
            cmd_d = ("path_to_cats", hive, pmx, [L.enc(d) for d in dirs], [[L.enc(x) for x in pp] for pp in parts], table)
            mo = pq.call(*cmd_d)
            if i % 40 == 0:
                L.sample_pq(samples, [cmd_d], [mo], rng, 1, limit=3000)
            model = L.res_of_model(mo, lambda c: [[bytes(k).decode(), sorted(json.dumps(L.from_model(v)) for v in vs)] for k, vs in c])
            case = {"corr": "path_to_cats", "hive": hive, "dirs": dirs, "pm": {k: v["numpy_type"] + "/" + v["pandas_type"] for k, v in pm.items()}}
            ctx.case(case)
            ctx.count("D.shape", shape)
            ctx.correspondence("path_to_cats ~ api._path_to_cats", case, model, impl)
        paths = [d + "/part.%d.parquet" % rng.randrange(3) for d in dirs]
        if rng.random() < 0.1:
            paths.append("part.9.parquet")
        d_paths.extend(paths)
        impl_dirs = list(api._strip_path_tail(paths))
        mdirs = [bytes(b).decode() for b in pq.call("strip_tail", [L.enc(p) for p in paths])]
        ctx.correspondence("strip_tail ~ api._strip_path_tail", {"paths": paths}, sorted(set(mdirs)), sorted(impl_dirs))
        try:
            sch, r = api.paths_to_cats(paths, pm)
            impl = ["ok", [sch, [[k, sorted(json.dumps(L.canon(v)) for v in vs)] for k, vs in r.items()]]]
        except ValueError:
            impl = ["raises", "ValueError"]
        except Exception as e:      # noqa
            impl = ["raises", "Error"]
        cmd_d = ("paths_to_cats", pmx, [L.enc(p) for p in paths], [L.enc(d) for d in impl_dirs], table)
        mo = pq.call(*cmd_d)
        if i % 40 == 1:
            L.sample_pq(samples, [cmd_d], [mo], rng, 1, limit=3000)
        model = L.res_of_model(mo, lambda r: [bytes(r[0]).decode(), [[bytes(k).decode(), sorted(json.dumps(L.from_model(v)) for v in vs)] for k, vs in r[1]]])
        case = {"corr": "paths_to_cats", "paths": paths, "dirs_order": impl_dirs, "pm": {k: v["numpy_type"] + "/" + v["pandas_type"] for k, v in pm.items()}}
        ctx.case(case)
        ctx.correspondence("paths_to_cats ~ api.paths_to_cats", case, model, impl)
        # C08_drill_mixed_level_is_text on the real code: a drill level holding any text no guess converts is labelled by exactly its
        # directory texts (as text), whatever else it holds and in whatever order the directories are met
        if impl[0] == "ok" and impl[1][0] == "drill":
            levels = {}
            for d in impl_dirs:
                if not d:           # a file at the root has no directory (paths_to_cats skips it)
                    continue
                for j, t in enumerate(d.split("/")):
                    levels.setdefault("dir%d" % j, set()).add(t)
            got = {k: set(vs) for k, vs in impl[1][1]}
            for k, texts in levels.items():
                if any(isinstance(util._val_to_num(t), str) for t in texts):
                    ctx.count("D.mixed_level", "text with guessable" if any(not isinstance(util._val_to_num(t), str) for t in texts) else "text only")
                    want_l = {json.dumps(["s", t]) for t in texts}
                    if got.get(k) != want_l:
                        ctx.fail({"component": "_path_to_cats", "scheme": "drill", "stage": "mixed-level-labels"}, case,
                                 "drill level %s holds text: labels %r, its directory texts %r" % (k, sorted(got.get(k, [])), sorted(want_l)))
                else:
                    # C08_drill_numeric_level on the real code: no text in the level - every label is the guess of one of its directory
                    # texts, and every directory text has a label == (Python's ==) to its guess
                    ctx.count("D.mixed_level", "no text: %d kinds" % len({type(util._val_to_num(t)).__name__ for t in texts}))
                    raw = api.paths_to_cats(paths, pm)[1].get(k, [])
                    guesses = [util._val_to_num(t) for t in texts]
                    bad_l = [lab for lab in raw if not any(type(lab) is type(g) and (lab == g or (lab != lab and g != g)) for g in guesses)]
                    bad_t = [t for t, g in zip(texts, guesses) if not any(lab == g or (lab != lab and g != g) for lab in raw)]
                    if bad_l or bad_t:
                        ctx.fail({"component": "_path_to_cats", "scheme": "drill", "stage": "numeric-level-labels"}, case,
                                 "drill level %s holds no text: labels %r; labels that are no guess of a directory text %r; directory texts without an == label %r"
                                 % (k, raw, bad_l, bad_t))

    if "strip" in (getattr(ctx, "gen_paths", None) or ()):       # the regenerated text itself, evaluated by the kernel, against the real function
        ok_paths = sorted({p for p in d_paths if L.coq_ascii_ok(p)})
        L.gen_paths_samples(ctx, [], rng.sample(ok_paths, min(40, len(ok_paths))) + ["", "part.0.parquet", "/x", "a/"])
    # ---------------------------------------------------------------- E: whole datasets
    n_e = 160 if quick else 1500
    cases = L.load_corpus("C08") + [gen_frame_case(rng, i < (16 if quick else 64), i) for i in range(n_e)]   # corpus, confirmation/regression streams, random
    # forked workers (harness.common.pmap): a native crash or a hang while writing/reading is a failing input
    results = L.run_dataset_jobs(ctx, check_dataset, cases, "e", _replayable)
    for case, res in zip(cases, results):
        ctx.case({k: case[k] for k in ("scheme", "on", "rgo", "frame")}, trivial=res.get("trivial", False))
        for k in ("scheme", "rgo_kind", "n_on", "index", "write_index"):
            ctx.count("E." + k, case["dist"].get(k, "range" if k == "index" else "None"))
        for kd in case["dist"]["kinds"]:
            ctx.count("E.partition_kind", kd)
        ctx.count("E.rows", "0" if case["n"] == 0 else ("1-5" if case["n"] <= 5 else "6+"))
    # ---------------------------------------------------------------- F: programs on one handle
    n_f = 48 if quick else 400
    hcases = [gen_handle_case(rng, i) for i in range(n_f)]
    hres = L.run_dataset_jobs(ctx, check_handle_prog, hcases, "f", _replayable)
    for case, res in zip(hcases, hres):
        ctx.case({k: case[k] for k in ("scheme", "on", "prog", "frames")}, trivial=res.get("trivial", False))
        ctx.count("F.scheme", case["scheme"])
        for o in case["dist"]["ops"]:
            ctx.count("F.op", o)
        for kd in case["dist"]["kinds"]:
            ctx.count("F.partition_kind", kd)
    # ---------------------------------------------------------------- G: twin datasets (harness/twins.py): same relative layout and partition
    # column, values as text / as int, bool, float, timestamp; hive and drill; A then B and B then A in one process, against a fresh interpreter
    TW.run(ctx, "harness.props.C08", [TW.gen_partition_case(rng, i) for i in range(10 if quick else 50)], stream="G.twins")
    # ---------------------------------------------------------------- F2: the generic handle-program runner (harness/handleprog.py, w3-reads)
    # on PARTITIONED hive datasets: derivations (slices, picks, pickle, copy, deepcopy) and failed appends that stream F does not have,
    # appended rows bringing partition values that sort between the existing ones; every observer answer of a live handle (rows, partition
    # cells, categories, dtypes) against a fresh handle of the same state.  Stream F stays: it has the partition kinds (text, float, time,
    # categorical, bool), the drill layout, row labels and the comparison with the rows written / read_model that the generic runner lacks.
    from harness import handleprog as HP
    hp_jobs = []
    for _ in range(6 if quick else 40):
        ds = HP.gen_dataset(rng, {"scheme": "hive", "part": True})
        hp_jobs.append({"ds": ds, "progs": [HP.gen_program(rng, ds) for _ in range(3 if quick else 6)], "inventory": None, "aimed": False})
    for job, r in zip(hp_jobs, C.pmap(HP.run_job, hp_jobs, init=HP._winit, nproc=6, job_timeout=300)):
        if isinstance(r, dict) and "__crashed__" in r:
            ctx.fail({"stream": "handleprog", "stage": "crash"}, {"handle_program": {"ds": job["ds"], "prog": job["progs"][0]}},
                     "running handle programs on this dataset: " + r["__crashed__"])
            continue
        for pr in r["results"]:
            if pr["error"]:
                raise RuntimeError("handle program harness error: %s" % pr["error"])
            case = {"handle_program": {"ds": r["ds"], "prog": pr["prog"]}}
            ctx.case(case, trivial=False)
            ctx.count("F2.steps", len(pr["prog"]))
            if pr["result"]["problems"]:
                ctx.fail(dict(HP.classify(r["ds"], pr["prog"], pr["result"]["problems"]), stream="handleprog"), case,
                         "; ".join("step %d (%s): %s" % (k, w, t) for w, k, t in pr["result"]["problems"][:3]))
    # ---------------------------------------------------------------- extraction vs kernel on a sample of the commands above
    fixed = [("write_model", True, [b"k", b"n"],
              [[[[[[2, b"a"]], [[0, 5]]], 0], [[[[2, b"b"]], []], 1]], [[[[[2, b"a"]], [[0, -7]]], 2], [[[[2, b"a"]], [[0, 5]]], 3]]]),
             ("write_model", False, [b"k"], [[[[[[2, b"a"]]], 0], [[[[1, 1]]], 1]]]),
             ("read_model", [[b"k", [2]], [b"n", [0, True, 64]]],
              [[b"k=a/n=5/part.0.parquet", [0]], [b"k=a/n=-7/part.1.parquet", [2]], [b"k=a/n=5/part.1.parquet", [3]]],
              [b"k=a/n=-7", b"k=a/n=5"], L.oracle_table(["k", "a", "n", "5", "-7"])),
             ("read_model", [], [[b"a/part.0.parquet", [0]], [b"2/part.0.parquet", [1]]], [b"2", b"a"], L.oracle_table(["a", "2"]))]
    for cmd in fixed:      # the dataset-level commands run inside the workers: re-evaluate fixed small instances here
        samples.append((cmd, pq.call(*cmd)))
    L.extraction_agrees(ctx, samples, "C08")


# --------------------------------------------------------------------------------------------------
def gen_column(rng, kind, n, drill):
    import numpy as np
    import pandas as pd
    card = rng.choice([1, 2, 2, 3, 4])
    nulls = rng.random() < 0.3
    if kind == "int":
        dt = rng.choice(["int64", "int64", "int8", "int32", "uint8", "uint64", "int16"])
        info = np.iinfo(dt)
        pool = [x for x in [0, 1, 7, -5, 42, 100, -128, 127, 255, 2**31 - 1, -2**31, 2**63 - 1, -2**63, 2**63 + 5, 2**64 - 1]
                if info.min <= x <= info.max]
        vals = rng.sample(pool, min(card, len(pool)))
        return pd.Series(np.array([rng.choice(vals) for _ in range(n)], dtype=dt))
    if kind == "bool":
        vals = rng.sample([True, False], min(card, 2))
        return pd.Series(np.array([rng.choice(vals) for _ in range(n)], dtype=bool))
    if kind == "float":
        dt = rng.choice(["float64", "float64", "float32"])
        pool = [0.5, 1.0, -2.25, 0.1, 1e22, 1e-7, 3.0, 123456.125, float("inf"), 0.0, 1e16, 2.5e-10,
                0.30000000000000004, 1 / 3, 9007199254740993.0, 1.7976931348623157e308, 5e-324, 1234567.890123456, -float("inf")]
        vals = rng.sample(pool, card) + ([float("nan")] if nulls else [])
        with np.errstate(over="ignore"):       # float32 columns may hold inf for the largest doubles
            return pd.Series(np.array([rng.choice(vals) for _ in range(n)], dtype=dt))
    if kind == "time":
        unit = rng.choice(["ns", "us", "ms", "s"])
        mult = {"s": 1, "ms": 10**3, "us": 10**6, "ns": 10**9}[unit]
        pool = [0, 1577836800 * mult, (1577836800 + 3723) * mult + (mult // 2 if mult > 1 else 0), -86400 * 365 * 50 * mult,
                4102444800 * mult, 1577836800 * mult + (1 if mult > 1 else 60)] + ([-30610224000 * mult, 253402300799 * mult] if unit != "ns" else [])
        vals = rng.sample(pool, card)
        a = np.array([rng.choice(vals) for _ in range(n)], dtype="int64").astype("datetime64[%s]" % unit)
        if nulls and n:
            a[np.array([rng.random() < 0.25 for _ in range(n)], dtype=bool)] = np.datetime64("NaT")
        return pd.Series(a)
    if kind in ("str", "strnum"):
        pool = [t for t in STR_POOL if L.legal_text(t, drill)]
        vals = rng.sample(pool, min(card, len(pool))) + ([None] if nulls else [])
        return pd.Series(np.array([rng.choice(vals) for _ in range(n)] + [None], dtype=object)[:-1])
    if kind == "pct":       # text that a reader must not "decode": percent sequences, '+', spaces, unicode
        pool = ["a%2Fb", "A%42", "AB", "%", "100%", "a+b", "a b", "%41", "A", "%zz", "caf%C3%A9", "café", "x%25", "x%", "%2F", "%E2%82%AC", "€"]
        vals = rng.sample(pool, min(max(card, 2), len(pool))) + ([None] if nulls else [])
        if rng.random() < 0.5:
            vals += rng.choice([["A%42", "AB"], ["%41", "A"], ["caf%C3%A9", "café"], ["x%25", "x%"]])     # pairs a decoder collapses
        return pd.Series(np.array([rng.choice(vals) for _ in range(n)] + [None], dtype=object)[:-1])
    if kind == "catnumtxt":  # categorical whose TEXT labels look like numbers (codes int8, or int16 with many categories)
        cats = rng.sample(["1", "2", "7", "-3", "10"], rng.choice([3, 4])) if rng.random() < 0.7 else [str(x) for x in range(200)]
        used = rng.sample(cats, min(len(cats), rng.choice([2, 3])))
        codes = [cats.index(rng.choice(used)) for _ in range(n)]
        return pd.Series(pd.Categorical.from_codes(codes, categories=cats))
    if kind == "intshare":   # small-integer column whose value texts coincide with the labels above
        dt = rng.choice(["int8", "int8", "int16"])
        vals = rng.sample([1, 2, 7, -3, 10, 0, 100], rng.choice([2, 3]))
        return pd.Series(np.array([rng.choice(vals) for _ in range(n)], dtype=dt))
    if kind == "cat":
        cats = rng.sample([t for t in ["a", "b", "é", "x y", "A" * 30, "c.d", "zz", "#"]], rng.choice([2, 3, 4]))
        used = rng.sample(cats, rng.choice([1, 2, len(cats)]))
        codes = [cats.index(rng.choice(used)) if not (nulls and rng.random() < 0.2) else -1 for _ in range(n)]
        return pd.Series(pd.Categorical.from_codes(codes, categories=cats))
    if kind == "intx":
        dt = rng.choice(["Int64", "Int8", "UInt8", "Int32", "UInt64"])
        pool = {"Int64": [0, 1, -5, 2**63 - 1, -2**63], "Int8": [0, -128, 127, 5], "UInt8": [0, 255, 7],
                "Int32": [0, -2**31, 2**31 - 1, 42], "UInt64": [0, 1, 2**63 + 5, 2**64 - 1]}[dt]
        vals = rng.sample(pool, min(card, len(pool))) + ([None] if nulls else [])
        return pd.Series(pd.array([rng.choice(vals) for _ in range(n)], dtype=dt))
    if kind == "boolx":
        vals = rng.sample([True, False], min(card, 2)) + ([None] if nulls else [])
        return pd.Series(pd.array([rng.choice(vals) for _ in range(n)], dtype="boolean"))
    if kind == "floatx":
        dt = rng.choice(["Float64", "Float32"])
        vals = rng.sample([0.5, 1.0, -2.25, 3.0, 1e10, 0.1], card) + ([None] if nulls else [])
        return pd.Series(pd.array([rng.choice(vals) for _ in range(n)], dtype=dt))
    if kind == "strx":
        pool = [t for t in STR_POOL if L.legal_text(t, drill)]
        vals = rng.sample(pool, min(card, len(pool))) + ([None] if nulls else [])
        return pd.Series(pd.array([rng.choice(vals) for _ in range(n)], dtype=rng.choice(["string", "str"])))
    if kind == "timetz":
        pool = rng.sample([0, 1577836800, 1577836800 + 3723, 1603587600, 1603591200, 946684799, 4102444800], card)   # incl. Berlin's repeated hour
        unit = rng.choice(["ns", "us", "ms", "s"])
        a = np.array([rng.choice(pool) for _ in range(n)], dtype="int64").astype("datetime64[s]").astype("datetime64[%s]" % unit)
        if nulls and n:
            a[np.array([rng.random() < 0.25 for _ in range(n)], dtype=bool)] = np.datetime64("NaT")
        return pd.Series(a).dt.tz_localize("UTC").dt.tz_convert(rng.choice(["UTC", "Europe/Berlin", "America/New_York", "Asia/Kolkata"]))
    if kind == "onekey":      # one distinct value, NULLs around it, a tail of NULLs only
        sub = rng.choice(["str", "float", "time", "intx", "cat", "boolx"])
        one = {"str": "a", "float": 0.5, "time": np.datetime64("2020-01-01T00:00:00", "ns"), "intx": 7, "cat": "zz", "boolx": True}[sub]
        mask = [(rng.random() < 0.5 and r < max(1, n - 3)) for r in range(n)]
        if n and not any(mask):
            mask[0] = True
        vals = [one if m else None for m in mask]
        if sub == "str":
            return pd.Series(np.array(vals + [None], dtype=object)[:-1])
        if sub == "float":
            return pd.Series(np.array([float("nan") if v is None else v for v in vals], dtype="float64"))
        if sub == "time":
            a = np.array([one] * n, dtype="datetime64[ns]")
            if n:
                a[np.array([not m for m in mask], dtype=bool)] = np.datetime64("NaT")
            return pd.Series(a)
        if sub == "cat":
            return pd.Series(pd.Categorical.from_codes([1 if m else -1 for m in mask], categories=["a", "zz", "q"]))
        return pd.Series(pd.array(vals, dtype="Int64" if sub == "intx" else "boolean"))
    if kind == "allnull":
        return pd.Series(np.array([None if (r // 2) % 2 == 0 else "z" for r in range(n)], dtype=object))
    if kind == "catnum":       # categorical whose labels are numbers, booleans or timestamps (label type recorded since fix)
        lt = rng.choice(["int", "int", "float", "bool", "ts", "i8"])
        cats = {"int": rng.sample([1, 2, 3, 10, -4, 2**40], 3), "float": rng.sample([0.5, 2.0, -1.25, 1e10], 3), "bool": [True, False],
                "ts": [pd.Timestamp("2020-01-01"), pd.Timestamp("2020-01-02 03:04:05.123456"), pd.Timestamp("1999-12-31 23:59:59")],
                "i8": list(np.array(rng.sample([1, -3, 7, 100], 3), dtype="int8"))}[lt]
        used = rng.choice([2, len(cats)])          # unused categories, NULL keys
        codes = [-1 if (nulls and rng.random() < 0.2) else rng.randrange(used) for _ in range(n)]
        return pd.Series(pd.Categorical.from_codes(codes, categories=cats))
    raise ValueError(kind)


RELATED_NAMES = [("fiscal_year", "year"), ("ab", "b"), ("k", "kk"), ("x.k", "k"), ("A_b", "b"), ("my col", "col"), ("k", "K"), ("part", "part2"),
                 ("a", "a.b"), ("ü", "xü"), ("n", "in"), ("dir0", "adir0"), ("y", "y y")]
INDEX_KINDS = ["dup", "concat", "nonmono", "str", "multi", "same", "float", "time"]


def gen_index(rng, n, force=False):
    """row labels of a generated frame as data: {'kind', 'values' (rows; lists for a MultiIndex), 'names'}"""
    kind = rng.choice(INDEX_KINDS) if (force or rng.random() < 0.45) else "range"
    if kind == "range" or n == 0:
        return {"kind": "range"}
    if kind == "dup":                   # few labels, many repeats (df.sample(replace=True), a non-unique key as index)
        vals = [rng.randrange(max(1, n // 2)) for _ in range(n)]
    elif kind == "concat":              # pd.concat([a, b]) without ignore_index
        h = rng.randrange(1, n) if n > 1 else 1
        vals = list(range(h)) + list(range(n - h))
    elif kind == "nonmono":             # unique but shuffled, not starting at 0
        vals = [x + rng.choice([0, 5]) for x in rng.sample(range(n), n)]
    elif kind == "str":
        pool = ["a", "b", "c", "", "é", "0"]
        vals = [rng.choice(pool) for _ in range(n)]
    elif kind == "multi":               # repeated tuples
        vals = [[rng.choice(["x", "y"]), rng.randrange(2)] for _ in range(n)]
    elif kind == "same":
        vals = [7] * n
    elif kind == "float":
        vals = [rng.choice([0.5, 1.0, 0.5, -2.0]) for _ in range(n)]
    else:                               # time: seconds since the epoch, repeated
        vals = [rng.choice([0, 86400, 86400, 1577836800]) for _ in range(n)]
    nlev = 2 if kind == "multi" else 1
    # (a MultiIndex with an unnamed level cannot be written at all, partitioned or not: outside this property)
    names = [rng.choice([None, None, "idx", "L0"])] if nlev == 1 else rng.choice([["L0", "L1"], ["idx", "L1"]])
    return {"kind": kind, "values": vals, "names": names}


def build_index(spec, n):
    import pandas as pd
    if not spec or spec.get("kind", "range") == "range":
        return pd.RangeIndex(n)
    vals, names = spec["values"], spec.get("names") or [None]
    if spec["kind"] == "multi":
        return pd.MultiIndex.from_tuples([tuple(v) for v in vals], names=names)
    if spec["kind"] == "time":
        return pd.Index(pd.to_datetime(vals, unit="s"), name=names[0])
    return pd.Index(vals, name=names[0])


def index_labels(index):
    """canonical row labels of an index, one list per row"""
    out = []
    for lab in index.tolist():
        lab = lab if isinstance(lab, tuple) else (lab,)
        out.append([L.canon(x) for x in lab])
    return out


def gen_frame_case(rng, confirm, i):
    import numpy as np
    import pandas as pd
    scheme = rng.choice(["hive", "hive", "drill"])
    n = rng.choice([0, 1, 2, 3, 5, 8, 13, 21, 34]) if i % 9 else rng.choice([0, 1])
    n_on = rng.choice([1, 1, 2, 2, 3])
    kinds = [rng.choice(["int", "int", "bool", "float", "time", "str", "strnum" if scheme == "hive" else "str", "cat",
                         "intx", "boolx", "floatx", "strx", "timetz", "pct", "catnumtxt", "intshare",
                         # categoricals whose labels are numbers / booleans / timestamps: main stream since the label type is recorded (fix 34e2c68)
                         "catnum"]) for _ in range(n_on)]
    which = i % 8 if confirm else -1
    if confirm:
        if which == 0:
            scheme, kinds[0] = "hive", "catnum"
        elif which == 1:
            scheme, kinds = "drill", ["strnum"] + kinds[1:]
        elif which == 4:        # regression stream of fix for tz-aware partition columns
            scheme, kinds[0] = "hive", "timetz"
        elif which == 5:        # a text-labelled categorical with numeric-looking labels next to a small-int column sharing the texts
            scheme, n_on, kinds = "hive", 2, rng.choice([["catnumtxt", "intshare"], ["intshare", "catnumtxt"]])
        elif which == 6:        # percent sequences and friends in text keys
            kinds[0] = "pct"
        elif which == 7:        # ONE distinct key + NULL keys (C08_single_key_with_nulls), chunks of NULL keys only (C08_all_null_chunk_writes_nothing)
            kinds[0] = "onekey"
        elif which == 2:
            scheme, n_on, kinds = "drill", 2, [rng.choice(["str", "int"]), rng.choice(["bool", "time", "int"])]
        else:       # regression stream of fix d63c479: categorical key next to a key column that is all NULL in a chunk
            n_on, kinds = 2, ["cat", "allnull"]
        n = max(n, 6)
    # a partition column that is itself called dirN collided, in the drill layout, with the positional
    # name of another level (fixed; which == 2 is its regression stream)
    names = rng.sample(["k", "part", "A_b", "dir0", "year", "x1", "my col", "ü", "a.b", "K"], n_on)
    # partition column NAMES related to each other: one the tail / head / middle of another, differing in case only, one holding the other
    # after a separator - in both orders (a reader that looks a level up by searching the path text for "<name>=" finds the wrong level)
    if n_on >= 2 and which == -1 and (i % 3 == 1 or rng.random() < 0.2):
        pair = list(rng.choice(RELATED_NAMES))
        if rng.random() < 0.5:
            pair.reverse()
        names = pair + [nm for nm in names if nm not in pair][:n_on - 2]
        if n_on == 3 and rng.random() < 0.5:
            names = [names[2], names[0], names[1]]
    if which == 2:
        names = [rng.choice(["k", "year"]), "dir0"]
    cols = {}
    for nm, kd in zip(names, kinds):
        cols[nm] = gen_column(rng, kd, n, scheme == "drill")
    cols["id"] = pd.Series(np.arange(n, dtype="int64"))
    cols["p"] = pd.Series(np.array([rng.choice([0.5, float("nan"), -1.0, 1e300]) for _ in range(n)], dtype="float64"))
    cols["q"] = pd.Series(np.array([rng.choice(["u", "v", "ü", ""]) for _ in range(n)] + [None], dtype=object)[:-1])
    order = list(cols)
    rng.shuffle(order)
    df = pd.DataFrame({c: cols[c] for c in order})
    rk = rng.choice(["none", "int", "int", "list"])
    if which in (3, 7):
        rk = "int"
    if rk == "none" or n == 0:
        rgo, rk = None, "none"
    elif rk == "int":
        rgo = 2 if which == 3 else rng.choice([1, 2, 3, 5, n, n + 1, max(1, n // 2)])
    else:
        cuts = sorted(set(rng.sample(range(1, n), min(n - 1, rng.choice([1, 2, 3]))))) if n > 1 else []
        rgo = [0] + cuts
    # the frame's ROW LABELS: the writer groups and splits by position, never by label, so duplicate / non-monotonic /
    # text / tuple labels, stored (write_index True/None) or not (False), must not matter for where a row goes
    index = gen_index(rng, n, force=(i % 5 == 3)) if which in (-1, 6) else {"kind": "range"}
    write_index = rng.choice([None, None, True, False, False]) if index["kind"] != "range" else rng.choice([None, None, None, True, False])
    return {"scheme": scheme, "on": names, "rgo": rgo, "n": n, "frame": L.frame_to_data(df), "confirm": confirm,
            "index": index, "write_index": write_index,
            "dist": {"scheme": scheme, "rgo_kind": rk, "n_on": n_on, "kinds": kinds, "index": index["kind"],
                     "write_index": str(write_index)}}


def check_dataset(case, root, pq, ctx=None, verbose=False):
    """Write the frame of `case` partitioned, then (1) the property oracle on the real code,
    (2) the correspondence with write_model / read_model.  Returns {'problems': [...], ...}."""
    import numpy as np
    import pandas as pd
    from fastparquet import write, ParquetFile, writer, api
    df = L.frame_from_data(case["frame"])
    on, scheme, rgo = case["on"], case["scheme"], case["rgo"]
    hive = scheme == "hive"
    n = len(df)
    problems, cls_extra = [], {}
    ispec, write_index = case.get("index") or {"kind": "range"}, case.get("write_index")
    if ispec.get("kind", "range") != "range":
        df.index = build_index(ispec, n)
    index_stored = bool(write_index) or (write_index is None and ispec.get("kind", "range") != "range")
    labels_in = index_labels(df.index)

    def say(*a):
        if verbose:
            print(*a)

    # expected keys per row (None = NULL key somewhere)
    keyvals = []
    for r in range(n):
        kv = []
        for c in on:
            v = df[c].iloc[r]
            kv.append(None if L.is_null(v) else v)
        keyvals.append(kv)
    is_cat = {c: isinstance(df[c].dtype, pd.CategoricalDtype) for c in on}
    alive = [r for r in range(n) if all(v is not None for v in keyvals[r])]
    kinds = {c: L.kind_of_dtype(df[c].dtype) for c in on}
    label_kind = {c: ("s" if not is_cat[c] else L.canon(df[c].cat.categories[0])[0]) for c in on}
    tz_aware = any(isinstance(df[c].dtype, pd.DatetimeTZDtype) for c in on)
    cls = {"scheme": scheme, "tz_aware": tz_aware, "index": ispec.get("kind", "range"), "write_index": str(write_index), "partition_kinds": sorted({("cat:" + label_kind[c]) if is_cat[c] else kinds[c][1] for c in on})}
    texts = {}
    for r in alive:
        texts[r] = [L.key_text(v, hive) for v in keyvals[r]]
    alts = {r: [L.key_texts(v, hive) for v in keyvals[r]] for r in alive}
    if scheme == "drill":
        guess_kinds = set()
        for j, c in enumerate(on):
            ks = {L.from_model(pq.call("val_to_num", L.enc(texts[r][j]), [L.oracle_entry(texts[r][j])]))[0] for r in alive}
            if "s" in ks and len(ks) > 1:
                guess_kinds.add("mixed-text-and-guessable")
        cls["drill_levels"] = sorted(guess_kinds)
        cls["dirN_name_collision"] = any(c == "dir%d" % i2 for j, c in enumerate(on) for i2 in range(len(on)) if i2 != j)

    try:
        write(root, df, file_scheme=scheme, partition_on=on, row_group_offsets=rgo, write_index=write_index)
    except Exception as e:      # noqa
        # the statement is about reads of what was written; a refused write is reported as such
        problems.append("write raised %s: %s" % (type(e).__name__, e))
        if ctx is not None:
            ctx.fail(dict(cls, stage="write"), _replayable(case), problems[-1])
        return {"problems": problems}

    # ---- (1a) the tree: every file's rows carry the key of its directory, every live row exactly once
    files = L.tree_files(root)
    seen = {}
    file_ids = {}
    for f in files:
        try:
            ids = [int(x) for x in ParquetFile(os.path.join(root, f)).to_pandas(columns=["id"])["id"]]
        except Exception as e:      # noqa
            problems.append("file %s unreadable: %s: %s" % (f, type(e).__name__, e))
            continue
        file_ids[f] = ids
        d = f.rsplit("/", 1)[0] if "/" in f else ""
        for rid in ids:
            seen.setdefault(rid, []).append(f)
            if rid not in texts:
                problems.append("row %d has a NULL key but is stored in %s" % (rid, f))
                continue
            segs = d.split("/") if d else []
            ok = len(segs) == len(on)
            for j, c in enumerate(on):
                if not ok:
                    break
                t = segs[j][len(c) + 1:] if hive and segs[j].startswith(c + "=") else (segs[j] if not hive else None)
                if t is None or t not in alts[rid][j]:
                    ok = False
                else:
                    texts[rid][j] = t           # the spelling the writer chose
            if not ok:
                want = "/".join((c + "=" + t) if hive else t for c, t in zip(on, texts[rid]))
                problems.append("row %d (key %r) stored in directory %r, expected %r" % (rid, texts[rid], d, want))
    for rid in alive:
        if len(seen.get(rid, [])) != 1:
            problems.append("row %d stored %d times (%r)" % (rid, len(seen.get(rid, [])), seen.get(rid)))
    say("tree:", files)

    # ---- correspondence: write_model (canonical form {path: sorted ids})
    chunks = [[int(x) for x in ch["id"]] for ch in writer.iter_dataframe(df, rgo)] if n else [[]]
    mchunks = [[[[[] if keyvals[r][j] is None else [L.model_value(keyvals[r][j], is_cat[c])] for j, c in enumerate(on)], r] for r in ch] for ch in chunks]
    mo = pq.call("write_model", hive, [L.enc(c) for c in on], mchunks)
    model_files = {bytes(p).decode("utf-8", "replace"): sorted(ids) for p, ids in mo}

    def canon_path(p):
        # float levels: pandas hands float32 keys over widened or not depending on dtype and number of keys;
        # both spellings name the same key, so the float texts are compared as the column's float values
        segs = p.split("/")
        for j, c in enumerate(on):
            if j < len(segs) - 1 and kinds[c][0][0] == 3:
                pre, t = (segs[j][:len(c) + 1], segs[j][len(c) + 1:]) if hive else ("", segs[j])
                try:
                    segs[j] = pre + L.canon_float(np.float32(t) if kinds[c][0][1] else float(t))
                except Exception:       # noqa
                    pass
        return "/".join(segs)
    if ctx is not None:
        ctx.correspondence("write_model ~ tree written by write(partition_on=...)", _replayable(case),
                           sorted((canon_path(f), i) for f, i in model_files.items()),
                           sorted((canon_path(f), sorted(i)) for f, i in file_ids.items()))

    # ---- (1b) read back
    got = None
    try:
        pf = ParquetFile(root)
        out = pf.to_pandas()
        got = out
    except Exception as e:      # noqa
        problems.append("reading the dataset raised %s: %s" % (type(e).__name__, e))
        cls_extra["stage"] = "read"
    if got is not None:
        ids = [int(x) for x in out["id"]] if "id" in out.columns else []
        if sorted(ids) != sorted(alive):
            problems.append("row ids read back %r, expected the rows with non-null keys %r" % (sorted(ids)[:20], sorted(alive)[:20]))
        elif pf.count() != len(alive) or int(pf.fmd.num_rows) != len(alive):
            problems.append("count() %r / num_rows %r, rows with non-null keys %d" % (pf.count(), pf.fmd.num_rows, len(alive)))
        pcols = on if hive else ["dir%d" % j for j in range(len(on))]
        # ParquetFile.cats (observe_at): per partition column the set of key values present
        if hive and alive and not problems:
            for j, c in enumerate(on):
                wantc = sorted({json.dumps(L.canon(keyvals[r][j])) for r in alive})
                try:
                    gotc = sorted({json.dumps(L.canon(v)) for v in pf.cats.get(c, [])})
                except Exception as e:      # noqa
                    gotc = ["raises %s" % type(e).__name__]
                if gotc != wantc:
                    problems.append("ParquetFile.cats[%r] = %s, keys written %s" % (c, gotc[:6], wantc[:6]))
                    cls_extra["mismatch"] = "value"
        by_id = {}
        labels_out = None
        if index_stored:
            try:
                labels_out = index_labels(out.index)
            except Exception as e:      # noqa
                problems.append("row labels of the frame read back: %s: %s" % (type(e).__name__, e))
        for pos, rid in enumerate(ids):
            row = {}
            if labels_out is not None and 0 <= rid < n and labels_out[pos] != labels_in[rid]:
                problems.append("row %d: stored row label %r read back as %r" % (rid, labels_in[rid], labels_out[pos]))
                cls_extra["mismatch"] = "row-label"
                labels_out = None
            for c in ("p", "q"):
                v = out[c].iloc[pos]
                w = df[c].iloc[rid]
                if not ((L.is_null(v) and L.is_null(w)) or v == w):
                    problems.append("row %d payload %s: %r != %r" % (rid, c, v, w))
            if alive:
                for j, c in enumerate(pcols):
                    if c not in out.columns:
                        problems.append("partition column %r missing (columns %r)" % (c, list(out.columns)))
                        break
                    row[c] = L.canon(out[c].iloc[pos])
            by_id[rid] = row
        # partial handles derive the partition columns again from a subset of the paths: a slice of the row groups and the
        # row-group iterator must show, for every row, the same partition cells as the full read
        if not problems and len(pf.row_groups) > 1:
            def cells_of(frame, what):
                for pos in range(len(frame)):
                    rid = int(frame["id"].iloc[pos])
                    got_cells = {c: L.canon(frame[c].iloc[pos]) for c in pcols if c in frame.columns}
                    if not hive and rid in texts and set(got_cells) == set(by_id.get(rid, {})):
                        # drill levels are untyped: a partial handle guesses from the values IT sees (text / the guessed value /
                        # numerically equal are all "the key text"), so only the drill rule itself is demanded of each cell
                        okc = True
                        for j2, c2 in enumerate(pcols):
                            g2, t2 = got_cells[c2], texts[rid][j2]
                            gm2 = L.from_model(pq.call("val_to_num", L.enc(t2), [L.oracle_entry(t2)]))
                            okc = okc and (g2 == ["s", t2] or g2 == gm2 or g2 == by_id[rid][c2] or
                                           (g2[0] in "bif" and gm2[0] in "bif" and _num_eq(g2, gm2)))
                        if okc:
                            continue
                    if got_cells != by_id.get(rid):
                        problems.append("%s: row %d has partition cells %r, the full read %r" % (what, rid, got_cells, by_id.get(rid)))
                        cls_extra["mismatch"] = "value"
                        return
            try:
                cells_of(pf[1:].to_pandas(), "ParquetFile(dir)[1:].to_pandas()")
                seen_rg = 0
                for frame in pf.iter_row_groups():
                    seen_rg += len(frame)
                    cells_of(frame, "iter_row_groups()")
                if seen_rg != len(ids):
                    problems.append("iter_row_groups() yields %d rows, the full read %d" % (seen_rg, len(ids)))
            except Exception as e:      # noqa
                problems.append("partial read of the dataset raised %s: %s" % (type(e).__name__, str(e)[:150]))
                cls_extra["stage"] = "partial-read"
        # the property: original names, values and value kinds (hive); positional columns carrying the key text (drill)
        for rid in ids:
            if rid not in texts or problems:
                break
            for j, c in enumerate(on):
                orig = keyvals[rid][j]
                want = L.canon(orig)
                g = by_id[rid].get(pcols[j])
                if g is None:
                    continue
                if hive:
                    if g == want and tz_aware and isinstance(df[c].dtype, pd.DatetimeTZDtype):
                        gtz = getattr(out[c].iloc[ids.index(rid)], "tz", None)
                        if str(gtz) != str(df[c].dtype.tz):
                            problems.append("row %d column %s: time zone read back %s, written %s" % (rid, c, gtz, df[c].dtype.tz))
                            cls_extra["mismatch"] = "value"
                    if g != want:
                        # the known finding is exactly: the label comes back as its own text (any other text is a wrong value)
                        k = "cat-label-kind" if is_cat[c] and want[0] != "s" and g == ["s", texts[rid][j]] else "value"
                        problems.append("row %d column %s: read %r, written %r" % (rid, c, g, want))
                        if cls_extra.get("mismatch") != "value":
                            cls_extra["mismatch"] = k
                else:
                    gm = L.from_model(pq.call("val_to_num", L.enc(texts[rid][j]), [L.oracle_entry(texts[rid][j])]))
                    ok = g == want or g == ["s", texts[rid][j]] or g == gm or \
                        (g[0] in "bif" and gm[0] in "bif" and _num_eq(g, gm))
                    if not ok:
                        problems.append("row %d level %d: read %r, key text %r (written %r)" % (rid, j, g, texts[rid][j], want))
                        cls_extra["mismatch"] = "value"
        # ---- correspondence: read_model on (row-group paths, ids of each file)
        if ctx is not None:
            paths = [rg.columns[0].file_path for rg in pf.row_groups]
            pm = [[L.enc(k), L.kind_of_meta(v)] for k, v in pf.partition_meta.items()]
            for k, v in pf.partition_meta.items():
                ctx.correspondence("kind_of_pmeta (Impl/PartMeta.v) ~ harness glue kind_of_meta",
                                   {"meta": {kk: vv for kk, vv in v.items() if kk in ("pandas_type", "numpy_type", "metadata")}},
                                   L.kind_sx_norm(pq.call("kind_of_pmeta", L.pmeta_sx(v))), L.kind_of_meta(v))
                # the hypothesis pm_wf of gen_val_from_meta_is_model on the blocks the writer really produced
                lab = (v.get("metadata") or {}).get("labels") if v.get("pandas_type") == "categorical" else None
                simple = lambda b: b.get("pandas_type") != "categorical" and not (b.get("pandas_type") == "datetimetz" and b.get("numpy_type") == "datetime64[ns]")
                wf = (v.get("numpy_type") != "datetime64[ns]" and (lab is None or simple(lab))) if v.get("pandas_type") == "categorical" else simple(v)
                ctx.correspondence("pm_wf (hypothesis of gen_val_from_meta_is_model) holds of the partition_columns blocks written", {"meta": str(v)[:300]}, True, bool(wf))
            dirs = list(api._strip_path_tail(paths)) if paths else []
            table = L.oracle_table([t for p in paths for seg in p.split("/") for t in seg.split("=")])
            mfiles = [[L.enc(p), file_ids.get(p, [])] for p in paths]
            mo = pq.call("read_model", pm, mfiles, [L.enc(d) for d in dirs], table)
            if mo:
                model = [bytes(mo[0][0]).decode(), sorted([rid, sorted([bytes(k).decode(), L.from_model(v)] for k, v in cells)] for cells, rid in mo[0][1])]
            else:
                model = "raises"
            impl = [pf.file_scheme, sorted([rid, sorted([c, v] for c, v in by_id[rid].items())] for rid in ids)]
            if not hive and model != "raises":
                model = [model[0], [[rid, [[c, L.num_norm(v)] for c, v in cells]] for rid, cells in model[1]]]
                impl = [impl[0], [[rid, [[c, L.num_norm(v)] for c, v in cells]] for rid, cells in impl[1]]]
            ctx.correspondence("read_model ~ ParquetFile(dir).to_pandas() partition columns", _replayable(case), model, impl)
        # ---- the same directory WITHOUT its summary files: opened through the file listing (the machinery of C14), the
        #      rows and (hive) the partition cells must be the same
        if not problems and alive:
            for junk in ("_metadata", "_common_metadata"):
                try:
                    os.unlink(os.path.join(root, junk))
                except OSError:
                    pass
            try:
                pf2 = ParquetFile(root)
                out2 = pf2.to_pandas()
                ids2 = [int(x) for x in out2["id"]]
                if sorted(ids2) != sorted(alive):
                    problems.append("without _metadata: row ids %r, expected %r" % (sorted(ids2)[:20], sorted(alive)[:20]))
                elif hive:
                    for pos, rid in enumerate(ids2):
                        cells2 = {c: L.canon(out2[c].iloc[pos]) for c in pcols if c in out2.columns}
                        if cells2 != by_id[rid]:
                            problems.append("without _metadata: row %d has partition cells %r, with it %r" % (rid, cells2, by_id[rid]))
                            break
            except Exception as e:      # noqa
                problems.append("opening the directory without _metadata raised %s: %s" % (type(e).__name__, str(e)[:150]))
            if problems:
                cls_extra["stage"] = "no-summary"
    elif ctx is not None:
        try:
            pf = ParquetFile(root)
            paths = [rg.columns[0].file_path for rg in pf.row_groups]
            pm = [[L.enc(k), L.kind_of_meta(v)] for k, v in pf.partition_meta.items()]
            dirs = list(api._strip_path_tail(paths)) if paths else []
            table = L.oracle_table([t for p in paths for seg in p.split("/") for t in seg.split("=")])
            mo = pq.call("read_model", pm, [[L.enc(p), file_ids.get(p, [])] for p in paths], [L.enc(d) for d in dirs], table)
            ctx.correspondence("read_model ~ ParquetFile(dir).to_pandas() partition columns", _replayable(case),
                               "raises" if not mo else "ok", "raises")
        except Exception:       # noqa
            pass
    if problems and ctx is not None:
        ctx.fail(dict(cls, **cls_extra), _replayable(case), "; ".join(problems[:6]))
    for p in problems[:10]:
        say("PROBLEM:", p)
    return {"problems": problems, "trivial": not alive, "cls": dict(cls, **cls_extra)}



# -------------------------------------------------------------------------------------------------- stream F
# read - edit-through-the-handle - read sequences on ONE ParquetFile handle of a partitioned dataset.  Everything a handle
# shows of the partition columns (to_pandas, cats, iter_row_groups, slices, count) is a function of its current row groups:
# after every edit made through the handle it must be what a freshly opened handle shows, and what the rows written say.
H_POOLS = {
    "int": [8, 1, 2, 3, 4, 5, 6, -7, 100, 0],
    "str": ["b", "a", "01", "c", "d", "1", "e", "f", "g", "h", "é", "x y"],
    "bool": [True, False],
    "float": [0.5, 1.0, -2.25, 0.1, 3.0, 1e22, 2.5e-10],
    "time": [1577836800, 0, 1577836800 + 3723, 86400, 4102444800, 946684799],
    "cat": ["b", "a", "zz", "c", "é", "d", "x y", "q"],
    "catint": [8, 1, 2, 30, -4, 5, 6, 100],          # categorical with INTEGER labels (label type recorded in the metadata)
}


def _h_column(kind, vals):
    import numpy as np
    import pandas as pd
    if kind == "int":
        return pd.Series(np.array(vals, dtype="int64"))
    if kind == "bool":
        return pd.Series(np.array(vals, dtype=bool))
    if kind == "float":
        return pd.Series(np.array([float("nan") if v is None else v for v in vals], dtype="float64"))
    if kind == "time":
        a = np.array([0 if v is None else v for v in vals], dtype="int64").astype("datetime64[s]").astype("datetime64[ns]")
        if len(vals):
            a[np.array([v is None for v in vals], dtype=bool)] = np.datetime64("NaT")
        return pd.Series(a)
    if kind in ("cat", "catint"):
        cats = H_POOLS[kind]
        return pd.Series(pd.Categorical.from_codes([-1 if v is None else cats.index(v) for v in vals], categories=cats))
    return pd.Series(np.array(list(vals) + [None], dtype=object)[:-1])


def gen_handle_case(rng, i):
    import numpy as np
    import pandas as pd
    scheme = rng.choice(["hive", "hive", "drill"])
    n_on = rng.choice([1, 1, 2])
    kinds = [rng.choice(["int", "int", "str", "str", "bool", "float", "time", "cat", "catint"]) for _ in range(n_on)]
    # a drill dataset knows its levels only as dir0, dir1, ...: frames appended to it must call them so
    names = rng.sample(["k", "part", "year", "K", "a.b"], n_on) if scheme == "hive" else ["dir%d" % j for j in range(n_on)]
    if scheme == "hive" and n_on == 2 and rng.random() < 0.4:       # related names (see RELATED_NAMES), both orders
        names = list(rng.choice(RELATED_NAMES))
        if rng.random() < 0.5:
            names.reverse()
    pools = []
    for kd in kinds:
        pool = list(H_POOLS[kd])
        if rng.random() < 0.6 and kd not in ("cat", "catint"):
            rng.shuffle(pool)
        pools.append(pool)
    n_batches = rng.choice([2, 2, 3, 4])
    many = i % 4 == 2 or rng.random() < 0.1       # size boundary: >= 11 part files before the first append
    frames, idx_specs = [], []
    for b in range(n_batches):
        n = rng.choice([2, 3, 5, 8, 12]) if b else rng.choice([3, 5, 8])
        if many and b == 0:
            n = rng.choice([24, 26, 31])        # with row groups of 2 rows: part ids 0..11+ (two-digit ids: 9 < 10 only as numbers)
        cols = {}
        for nm, kd, pool in zip(names, kinds, pools):
            # later batches bring partition values not seen before (and repeat old ones)
            seen_upto = min(len(pool), 2 + (2 + (i % 3)) * b)
            nullable = kd not in ("int", "bool") and rng.random() < 0.25     # (categoricals: code -1)
            vals = [None if (nullable and rng.random() < 0.2) else rng.choice(pool[:seen_upto]) for _ in range(n)]
            if b and seen_upto > 2 and n >= 2:
                vals[0] = pool[seen_upto - 1]           # at least one new value
            cols[nm] = _h_column(kd, vals)
        cols["id"] = pd.Series(np.arange(100 * b, 100 * b + n, dtype="int64"))
        cols["p"] = pd.Series(np.array([rng.choice([0.5, float("nan"), -1.0]) for _ in range(n)], dtype="float64"))
        cols["q"] = pd.Series(np.array([rng.choice(["u", "v", "ü", ""]) for _ in range(n)] + [None], dtype=object)[:-1])
        order = list(cols)
        if b == 0:
            rng.shuffle(order)
            first_order = order
        frames.append(L.frame_to_data(pd.DataFrame({c: cols[c] for c in first_order})))
        idx_specs.append(gen_index(rng, n))
    obs = ["read", "read", "cats", "iter", "slice", "count", "columns"]
    prog = [[rng.choice(["read", "read", "cats", "iter"])]] if rng.random() < 0.85 else []
    for b in range(1, n_batches):
        if rng.random() < 0.3:
            prog.append(["remove", rng.choice(["dir", "dir", "rg", "last"]), rng.randrange(1000)])
            prog.append([rng.choice(obs)])
        n = len(frames[b]["columns"][0][1].get("values", frames[b]["columns"][0][1].get("codes", [])))
        prog.append(["append", b, rng.choice([None, None, 1, 2, 4, [0, max(1, n // 2)]]), rng.choice(["handle", "handle", "write"])])
        for _ in range(rng.choice([1, 2, 2])):
            prog.append([rng.choice(obs)])
    if rng.random() < 0.5:
        prog.append(["remove", rng.choice(["dir", "rg", "first"]), rng.randrange(1000)])
        prog.append(["read"])
        prog.append([rng.choice(obs)])
    return {"scheme": scheme, "on": names, "kinds": kinds, "frames": frames, "indexes": idx_specs, "prog": prog,
            "rgo": 2 if many else rng.choice([None, 2, 3]),
            # the directory loses its summary files before the handle is opened: the handle comes from the file listing (footers merged),
            # and the first edit through it writes the summary
            "nometa": rng.random() < 0.25,
            "dist": {"scheme": scheme, "n_on": n_on, "kinds": kinds, "ops": [op[0] if op[0] != "append" else "append:" + op[3] for op in prog]}}


def _drill_cell_ok(pq, g, t, want=None):
    gm = L.from_model(pq.call("val_to_num", L.enc(t), [L.oracle_entry(t)]))
    return g == want or g == ["s", t] or g == gm or (g[0] in "bif" and gm[0] in "bif" and _num_eq(g, gm))


def check_handle_prog(case, root, pq, ctx=None, verbose=False):
    """Run the program of `case` on ONE handle; after every step compare what the handle shows with the rows written so far
    (minus the removed ones), with a freshly opened handle, and with read_model on the handle's row-group paths."""
    import pandas as pd
    from fastparquet import write, ParquetFile, api
    on, scheme = case["on"], case["scheme"]
    hive = scheme == "hive"
    frames = [L.frame_from_data(f) for f in case["frames"]]
    for f, spec in zip(frames, case.get("indexes") or []):
        if spec and spec.get("kind", "range") != "range":
            f.index = build_index(spec, len(f))
    pcols = on if hive else ["dir%d" % j for j in range(len(on))]
    is_cat = {c: isinstance(frames[0][c].dtype, pd.CategoricalDtype) for c in on}
    cls = {"stream": "handle", "scheme": scheme, "partition_kinds": sorted(set(case.get("kinds", [])))}
    problems = []
    live = {}               # id -> [key values] of the rows that must be in the dataset now
    payload = {}

    def say(*a):
        if verbose:
            print(*a)

    def admit(f):
        for r in range(len(f)):
            kv = [None if L.is_null(f[c].iloc[r]) else f[c].iloc[r] for c in on]
            if all(v is not None for v in kv):
                rid = int(f["id"].iloc[r])
                live[rid] = kv
                payload[rid] = (f["p"].iloc[r], f["q"].iloc[r])

    def cells_by_id(frame, what):
        out = {}
        if "id" not in frame.columns:
            problems.append("%s: no id column (columns %r)" % (what, list(frame.columns)))
            return out
        for pos in range(len(frame)):
            rid = int(frame["id"].iloc[pos])
            if rid in out:
                problems.append("%s: row %d returned twice" % (what, rid))
            out[rid] = {c: L.canon(frame[c].iloc[pos]) for c in pcols if c in frame.columns}
            if "p" in frame.columns and rid in payload:
                v, w = frame["p"].iloc[pos], payload[rid][0]
                if not ((L.is_null(v) and L.is_null(w)) or v == w):
                    problems.append("%s: row %d payload p %r, written %r" % (what, rid, v, w))
        return out

    def check_cells(cells, what, want_ids=None, cols=None):
        """cells: {id: {partition column: canonical cell}} as some read returned them"""
        want_ids = sorted(live) if want_ids is None else want_ids
        if sorted(cells) != want_ids:
            problems.append("%s: row ids %r, rows written and not removed %r" % (what, sorted(cells)[:24], want_ids[:24]))
            return
        for rid in want_ids:
            for j, c in enumerate(pcols):
                if cols is not None and c not in cols:
                    continue
                g = cells[rid].get(c)
                if g is None:
                    problems.append("%s: partition column %r missing" % (what, c))
                    return
                want = L.canon(live[rid][j])
                if hive:
                    ok = g == want
                else:
                    ok = any(_drill_cell_ok(pq, g, t, want) for t in L.key_texts(live[rid][j], False))
                if not ok:
                    problems.append("%s: row %d column %s read %r, written %r" % (what, rid, c, g, want))
                    return

    def rg_path(rg):
        return rg.columns[0].file_path

    def file_ids(path):
        return [int(x) for x in ParquetFile(os.path.join(root, path)).to_pandas(columns=["id"])["id"]]

    step, last_edit = -1, "write"
    try:
        write(root, frames[0], file_scheme=scheme, partition_on=on, row_group_offsets=case.get("rgo"), write_index=False)
        admit(frames[0])
        if case.get("nometa"):
            for junk in ("_metadata", "_common_metadata"):
                os.unlink(os.path.join(root, junk))
            last_edit = "write+summary-removed"
        pf = ParquetFile(root)
        for step, op in enumerate(case["prog"]):
            what = "step %d %s (after %s)" % (step, op[0], last_edit)
            say(what, op)
            if op[0] == "append":
                f = frames[op[1]]
                if op[3] == "handle":
                    pf.write_row_groups(f, row_group_offsets=op[2])
                else:       # write(append=True) uses a private handle: the one under test must be told (documented: re-open)
                    write(root, f, file_scheme=scheme, partition_on=on, row_group_offsets=op[2], append=True, write_index=False)
                    pf = ParquetFile(root)
                admit(f)
                last_edit = "append:" + op[3]
            elif op[0] == "remove":
                rgs = list(pf.row_groups)
                if not rgs:
                    continue
                if op[1] == "dir":      # every row group of one partition directory: its label disappears
                    dirs = sorted({rg_path(rg).rsplit("/", 1)[0] for rg in rgs})
                    d = dirs[op[2] % len(dirs)]
                    sel = [rg for rg in rgs if rg_path(rg).rsplit("/", 1)[0] == d]
                elif op[1] == "rg":
                    sel = [rgs[op[2] % len(rgs)]]
                elif op[1] == "first":
                    sel = [rgs[0]]
                else:
                    sel = [rgs[-1]]
                if len(sel) == len(rgs):
                    sel = sel[:-1]      # an emptied dataset is C09's business
                if not sel:
                    continue
                gone = [rid for rg in sel for rid in file_ids(rg_path(rg))]
                pf.remove_row_groups(sel)
                for rid in gone:
                    live.pop(rid, None)
                last_edit = "remove:" + op[1]
            else:
                fresh = ParquetFile(root)
                if op[0] in ("read", "columns"):
                    kw = {} if op[0] == "read" else {"columns": [pcols[0], "id"]}
                    cols = None if op[0] == "read" else [pcols[0]]
                    same = cells_by_id(pf.to_pandas(**kw), what + ": handle.to_pandas()")
                    check_cells(same, what + ": handle.to_pandas(%s)" % (kw or ""), cols=cols)
                    fr = cells_by_id(fresh.to_pandas(**kw), what + ": fresh ParquetFile(dir).to_pandas()")
                    check_cells(fr, what + ": fresh ParquetFile(dir).to_pandas(%s)" % (kw or ""), cols=cols)
                    if not problems and same != fr:
                        bad = [r for r in same if same[r] != fr.get(r)][:3]
                        problems.append("%s: the handle shows %r, a fresh handle %r" % (what, {r: same[r] for r in bad}, {r: fr.get(r) for r in bad}))
                    if ctx is not None and op[0] == "read" and not problems:
                        paths = [rg_path(rg) for rg in pf.row_groups]
                        fids = {p: file_ids(p) for p in set(paths)}
                        pm = [[L.enc(k), L.kind_of_meta(v)] for k, v in pf.partition_meta.items()]
                        dirs = list(api._strip_path_tail(paths)) if paths else []
                        table = L.oracle_table([t for p in paths for seg in p.split("/") for t in seg.split("=")])
                        mo = pq.call("read_model", pm, [[L.enc(p), fids[p]] for p in paths], [L.enc(d) for d in dirs], table)
                        model = "raises" if not mo else [bytes(mo[0][0]).decode(), sorted(
                            [rid, sorted([bytes(k).decode(), L.from_model(v)] for k, v in cells)] for cells, rid in mo[0][1])]
                        impl = [pf.file_scheme, sorted([rid, sorted([c, v] for c, v in same[rid].items())] for rid in same)]
                        if not hive and model != "raises":
                            model = [model[0], [[rid, [[c, L.num_norm(v)] for c, v in cells]] for rid, cells in model[1]]]
                            impl = [impl[0], [[rid, [[c, L.num_norm(v)] for c, v in cells]] for rid, cells in impl[1]]]
                        ctx.correspondence("read_model ~ handle.to_pandas() after edits through the handle", _replayable(case), model, impl)
                elif op[0] == "cats":
                    for j, c in enumerate(pcols):
                        hc = sorted({json.dumps(L.canon(v)) for v in pf.cats.get(c, [])})
                        fc = sorted({json.dumps(L.canon(v)) for v in fresh.cats.get(c, [])})
                        if hc != fc:
                            problems.append("%s: handle.cats[%r] = %s, fresh handle %s" % (what, c, hc[:8], fc[:8]))
                        wantc = sorted({json.dumps(L.canon(kv[j])) for kv in live.values()})
                        if hive and live and fc != wantc:
                            problems.append("%s: ParquetFile.cats[%r] = %s, keys written %s" % (what, c, fc[:8], wantc[:8]))
                    if list(pf.cats) != list(fresh.cats):
                        problems.append("%s: handle.cats has columns %r, fresh handle %r" % (what, list(pf.cats), list(fresh.cats)))
                elif op[0] == "iter":
                    parts = list(pf.iter_row_groups())
                    cells = cells_by_id(pd.concat(parts) if parts else pf.to_pandas(), what + ": iter_row_groups()")
                    if hive:
                        check_cells(cells, what + ": handle.iter_row_groups()")
                    elif sorted(cells) != sorted(live):
                        problems.append("%s: iter_row_groups() row ids %r, expected %r" % (what, sorted(cells)[:24], sorted(live)[:24]))
                elif op[0] == "slice":
                    if len(pf.row_groups) > 1:
                        sub = pf[1:]
                        want_ids = sorted(rid for rg in sub.row_groups for rid in file_ids(rg_path(rg)))
                        cells = cells_by_id(sub.to_pandas(), what + ": handle[1:].to_pandas()")
                        if hive:
                            check_cells(cells, what + ": handle[1:].to_pandas()", want_ids=want_ids)
                        elif sorted(cells) != want_ids:
                            problems.append("%s: handle[1:] row ids %r, expected %r" % (what, sorted(cells)[:24], want_ids[:24]))
                elif op[0] == "count":
                    if pf.count() != len(live) or int(pf.fmd.num_rows) != len(live) or fresh.count() != len(live):
                        problems.append("%s: count() %r / num_rows %r / fresh count() %r, rows %d" % (
                            what, pf.count(), pf.fmd.num_rows, fresh.count(), len(live)))
            if problems:
                break
    except Exception as e:      # noqa
        import traceback
        problems.append("step %d %r (after %s) raised %s: %s" % (step, case["prog"][step] if 0 <= step < len(case["prog"]) else "write", last_edit,
                                                             type(e).__name__, str(e)[:200]))
        say(traceback.format_exc())
        cls["stage"] = "raises"
    if problems and ctx is not None:
        opk = case["prog"][step][0] if 0 <= step < len(case["prog"]) else "write"
        ctx.fail(dict(cls, op=opk, after=last_edit.split(":")[0]), _replayable(case), "; ".join(problems[:4]))
    for p in problems[:10]:
        say("PROBLEM:", p)
    return {"problems": problems, "trivial": not live, "cls": cls}


# -------------------------------------------------------------------------------------------------- twins (harness/twins.py)
def _tw8_read(root, case, which):
    from fastparquet import ParquetFile
    return L.twin_partition_answer(ParquetFile(root), case)


def _tw8_partial(root, case, which):
    from fastparquet import ParquetFile
    pf = ParquetFile(root)
    col = case["col"] if case.get("scheme", "hive") == "hive" else "dir0"
    out = {"iter": sorted([int(i), L.canon(v)] for fr in pf.iter_row_groups() for i, v in zip(fr["id"], fr[col]))}
    if len(pf.row_groups) > 1:
        sub = pf[1:].to_pandas()
        out["slice"] = sorted([int(i), L.canon(v)] for i, v in zip(sub["id"], sub[col]))
    return out


def _tw8_functions(root, case, which):
    """the pure functions of the reader on the dataset's own paths / metadata / key texts"""
    from fastparquet import ParquetFile, api, util
    pf = ParquetFile(root)
    paths = [rg.columns[0].file_path for rg in pf.row_groups]
    sch, cats = api.paths_to_cats(paths, pf.partition_meta)
    metas = list(pf.partition_meta.values())
    return {"paths_to_cats": [sch, [[k, sorted(json.dumps(L.canon(v)) for v in vs)] for k, vs in cats.items()]],
            "val_to_num": [L.canon(util.val_to_num(t, meta=metas[0] if metas else None)) for t in sorted(set(case["texts"]))],
            "guess": [L.canon(util.val_to_num(t)) for t in sorted(set(case["texts"]))]}


from harness import twins as TW       # noqa: E402
twin_build = TW.partition_twins
TWIN_OPS = {"read": _tw8_read, "partial": _tw8_partial, "functions": _tw8_functions, "read-again": _tw8_read}


def _num(c):
    return {"b": int, "i": int, "f": float}[c[0]](c[1])


def _num_eq(a, b):
    """numerically equal EXACTLY (Python compares int with float without rounding): 2**63 - 1 is not 9.223372036854775808e18"""
    return _num(a) == _num(b)


def _replayable(case):
    if "prog" in case:
        return {k: case[k] for k in ("scheme", "on", "kinds", "frames", "indexes", "prog", "rgo", "nometa") if k in case}
    return {k: case[k] for k in ("scheme", "on", "rgo", "n", "frame", "index", "write_index") if k in case}


def replay(rep):
    C.use_shadow()
    if rep.get("kind") == "no-failing-input-found":
        first = (rep.get("no_longer_checks") or [{}])[0]
        print(json.dumps(rep, indent=1, default=repr)[:5000])
        case = first.get("detail", {}).get("case") if isinstance(first.get("detail"), dict) else None
        if not (isinstance(case, dict) and ("frame" in case or "prog" in case or "handle_program" in case or "twins" in case)):
            return 1
    else:
        case = rep["case"]
    if "twins" in case:
        return TW.replay(case)
    if "handle_program" in case:
        from harness import handleprog as HP
        return HP.replay_case(case["handle_program"])
    if "prog" in case:
        return _replay_handle(case)
    if "frame" not in case:
        print(json.dumps(rep, indent=1, default=repr)[:5000])
        return 1
    pq = C.Pqref()
    tmp = tempfile.mkdtemp(prefix="verif-C08-replay-", dir="/tmp")
    try:
        print("frame:")
        print(L.frame_from_data(case["frame"]).to_string(max_rows=40))
        if case.get("index") and case["index"].get("kind", "range") != "range":
            print("row labels (%s, names %r): %r" % (case["index"]["kind"], case["index"].get("names"), case["index"]["values"]))
        print("write(file_scheme=%r, partition_on=%r, row_group_offsets=%r, write_index=%r)" % (case["scheme"], case["on"], case["rgo"], case.get("write_index")))
        # in a forked worker: a native crash of the real code is an observation of the replay, not its end
        out = C.pmap(lambda c: check_dataset(c, os.path.join(tmp, "ds"), L.worker_pq(), None, verbose=True)["problems"],
                     [case], nproc=1, job_timeout=300)[0]
        if isinstance(out, dict) and "__crashed__" in out:
            print("PROPERTY FAILS: the real code did not survive this input:", out["__crashed__"], out.get("tb", ""))
            return 1
        print("PROPERTY FAILS" if out else "property holds on this input")
        return 1 if out else 0
    finally:
        pq.close()
        shutil.rmtree(tmp, ignore_errors=True)


def _replay_handle(case):
    tmp = tempfile.mkdtemp(prefix="verif-C08-replay-", dir="/tmp")
    try:
        for b, f in enumerate(case["frames"]):
            print("frame %d%s:" % (b, "" if not (case.get("indexes") or [None] * 9)[b] else "  (row labels: %s)" % case["indexes"][b].get("kind")))
            print(L.frame_from_data(f).to_string(max_rows=30))
        print("write(dir, frame 0, file_scheme=%r, partition_on=%r, row_group_offsets=%r, write_index=False); pf = ParquetFile(dir); program on pf: %r"
              % (case["scheme"], case["on"], case.get("rgo"), case["prog"]))
        out = C.pmap(lambda c: check_handle_prog(c, os.path.join(tmp, "ds"), L.worker_pq(), None, verbose=True)["problems"],
                     [case], nproc=1, job_timeout=300)[0]
        if isinstance(out, dict) and "__crashed__" in out:
            print("PROPERTY FAILS: the real code did not survive this program:", out["__crashed__"], out.get("tb", ""))
            return 1
        print("PROPERTY FAILS" if out else "property holds on this program")
        return 1 if out else 0
    finally:
        shutil.rmtree(tmp, ignore_errors=True)
