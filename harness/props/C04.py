"""C04 — column statistics are exact (DESIGN.md section 6, C04).

Obligations: coq/props/C04.v.  Tie: on generated frames written by the real writer, the chunk AS STORED is
decoded (harness/statslib.py) and
  A. the footer's raw Statistics are inside the proved-sound relation check_stats (extracted),
  B. they equal what the writer model stats_of / cat_stats_of computes from the stored pages (modulo the
     ordering's own equivalence, -0.0 = +0.0); which columns a stats setting selects (model `select`) is compared
     for information only - it is a documented choice, not part of the property,
  C. api.statistics(chunk) equals the model's dec_stat of the raw bytes,
  D. sorted_partitioned_columns lists exactly the columns the model sorted_col accepts.
Oracle (the property's own text, plain Python on the stored values): null_count = number of null cells;
min/max = smallest/largest stored non-null ordered value under the type's Parquet ordering; none when no
such value; ParquetFile.statistics shows the same logical values; a column reported sorted is strictly
increasing across row groups."""
import json
import os

from harness import common as C
from harness import xcheck as X
from harness import statslib as S

TRUSTED = [
    "Coq 8.16.1 kernel + coqc (vm_compute only for the closed Example and the refutation witness); no native_compute",
    "extraction: ExtrOcamlBasic only, no Extract Constant; ocaml/driver.ml s-expression I/O (20 sampled pqref conversations per run are "
    "re-evaluated by the kernel: extract_agrees_k, harness/xcheck.py)",
    "Python compares str by code points (then C04_utf8_order gives the byte order of the stored UTF-8 text; checked on the text pool)",
    "pandas Series.max()/min() (skipna) and Index.max()/min() return a largest/smallest non-null non-NaN element under the "
    "dtype's order, and that order agrees with the Parquet ordering of the physical value the cell is stored as (glue; "
    "exercised on every generated column by the oracle, not modelled)",
    "the map DataFrame cell -> physical value (writer.convert / encode_plain) is not modelled here (C01/C02); statistics are "
    "compared with the chunk as stored",
    "harness/statslib.py: page decoder (struct/numpy; thrift page headers and decompression through fastparquet/cramjam), "
    "Parquet ordering table, logical views of physical values",
    "INT96 is ordered chronologically (day, nanoseconds); the format documents leave its order undefined",
]

STR_POOL = sorted(["", "A", "Z", "a", "ab", "abc", "b", "z", "~", "\u00e9", "\u00ff", "\u0100", "\u4e2d", "\ud7ff", "\ue000",
                   "\uffff", "\U00010000", "\U0001F600", "a\U0001F600", "\U0010FFFF", "a\uffff", "a\U00010000"],
                  key=lambda s: s.encode("utf-8"))
BYTES_POOL = sorted([b"", b"\x00", b"\x00\x01", b"a", b"ab", b"\x7f", b"\x80", b"\xff", b"\xff\xff", b"\xfe\xff", b"b"])
INT_RANGE = {"int8": (-2**7, 2**7 - 1), "int16": (-2**15, 2**15 - 1), "int32": (-2**31, 2**31 - 1), "int64": (-2**63, 2**63 - 1),
             "uint8": (0, 2**8 - 1), "uint16": (0, 2**16 - 1), "uint32": (0, 2**32 - 1), "uint64": (0, 2**64 - 1)}
NAMES = ["a", "b", "c", "d", "e", "f", "g", "é"]


def int_pool(rng, lo, hi, extra=12):
    c = {lo, lo + 1, hi, hi - 1, 0, 1, 2, 100}
    for b in (7, 8, 15, 16, 31, 32, 63):
        for d in (-1, 0, 1):
            for s in (1, -1):
                c.add(s * (2**b) + d)
    c = {x for x in c if lo <= x <= hi}
    for _ in range(extra):
        c.add(rng.randint(lo, hi))
        c.add(rng.randint(max(lo, -1000), min(hi, 1000)))
    return sorted(c)


def float_pool(rng, dt):
    import numpy as np
    base = [float("-inf"), -3.0e38, -65504.0, -1.5, -1.0, -1e-30, -0.0, 0.0, 1e-30, 0.5, 1.0, 1.5, 2.0, 65504.0, 3.0e38, float("inf")]
    if dt in ("float64", "Float64", "ofloat"):
        base += [-1.7e308, 1.7e308, 5e-324, -5e-324, 0.1, 1 / 3]
    base += [rng.uniform(-100, 100) for _ in range(6)]
    npdt = {"float16": "float16", "float32": "float32", "Float32": "float32"}.get(dt, "float64")
    with np.errstate(over="ignore"):
        arr = np.array(base, dtype="float64").astype(npdt).astype("float64")
    vals = sorted(set(float(x) for x in arr))        # -0.0 == 0.0 collapse in the set: add the pair back, adjacent
    out = []
    for x in vals:
        if x == 0.0:
            out += [-0.0, 0.0]
        else:
            out.append(x)
    return out


def ranks(rng, n, R, pattern):
    if pattern == "const":
        r = rng.randrange(R)
        return [r] * n
    if pattern == "sorted":
        # ascending with ties, so that row-group boundaries often fall inside a run of equal values
        k = rng.choice([1, 2, 3, 8])
        base = sorted(rng.randrange(R) for _ in range((n + k - 1) // k))
        return sorted((base * k)[:n])
    if pattern == "strict":
        if R >= n:
            return sorted(rng.sample(range(R), n))
        return sorted(rng.randrange(R) for _ in range(n))
    if pattern == "late":
        # extremes only at the very end / in the middle: not in the first page
        mid = [min(R - 1, rng.randrange(max(1, R // 3), max(2, 2 * R // 3))) for _ in range(n)]
        if n >= 2:
            mid[-1] = R - 1
            mid[rng.randrange(n // 2, n)] = 0
        return mid
    return [rng.randrange(R) for _ in range(n)]


def sprinkle(rng, vals, mode, null=None):
    n = len(vals)
    if mode == "none" or n == 0:
        return vals
    if mode == "all":
        return [null] * n
    p = {"few": 0.1, "many": 0.6}[mode]
    out = [null if rng.random() < p else v for v in vals]
    if mode == "few" and n > 3:
        out[rng.randrange(0, n - 1)] = null      # at least one null that is not in the last page
    return out


LONG_LATTICE = [63, 64, 65, 255, 256, 257, 511, 512, 513, 4095, 4096, 4097, 65535, 65536, 65537]
LONG_KINDS = ("lstr", "lostr", "lbytes")


def long_pool(rng, kind, maxlen):
    """values around the length lattice that share a long common prefix and differ at the very end (so that a
    statistic cut to a prefix is no stored value, and a cut max is below the stored max), a strict prefix of them,
    and sometimes short values; sorted by the stored bytes"""
    lens = [x for x in LONG_LATTICE if x <= maxlen]
    pick = sorted(set(rng.sample(lens, min(len(lens), rng.choice([1, 2, 3]))) + ([rng.choice(lens[-3:])] if rng.random() < 0.5 else [])))
    if kind == "lbytes":
        unit = rng.choice(["ab", "\xff", "\x00", "\xfe\xff", "path/"])
        tails = ["", "\x00", "0", "\xff"]
    else:
        unit = rng.choice(["ab", "https://example.org/a/", "x", "a\u00e9", "\u4e2db", "\U0001F600"])
        if max(pick) > 4097:
            # the footer is serialised into a fixed 500 kB buffer (C10's open finding): 2 row groups x (min, max) of the
            # longest values must stay below it, so those are one byte per character
            unit = rng.choice(["ab", "https://example.org/a/", "x"])
        tails = ["", "0", "z", "\u00e9"]
    items = []
    for L in pick:
        for t in rng.sample(tails, rng.choice([2, 3, 4])):
            items.append([unit, L, t])
    if rng.random() < 0.5:
        items += [[unit, 0, ""], [unit, 1, ""], ["~", 1, ""], [unit, 3, "a"]]
    enc = lambda it: S.expand_long(it, kind == "lbytes") if kind == "lbytes" else S.expand_long(it).encode("utf-8")
    seen, out = set(), []
    for it in sorted(items, key=enc):
        e = enc(it)
        if e not in seen:
            seen.add(e)
            out.append(it)
    return out


KINDS = ["int8", "int16", "int32", "int64", "uint8", "uint16", "uint32", "uint64", "bool", "float32", "float64", "float16",
         "Int8", "Int16", "Int32", "Int64", "UInt8", "UInt16", "UInt32", "UInt64", "boolean", "Float32", "Float64",
         "dt_ns", "dt_us", "dt_ms", "dt_s", "dt_tz", "dt_96", "td_ns", "td_us", "td_ms", "td_s",
         "str", "ostr", "obytes", "oint", "obool", "ofloat", "odec", "fixed",
         "cat_str", "cat_int", "cat_float", "cat_dt", "cat_str", "cat_int"]


def gen_col(rng, name, kind, n, pattern, nullmode, maxlen=513):
    """-> column spec (JSON-able).  spec['nulls'] says whether the column needs an OPTIONAL schema element."""
    spec = {"name": name, "kind": kind, "pattern": pattern, "nullmode": nullmode}
    if kind in LONG_KINDS:
        pool = long_pool(rng, kind, maxlen)
        v = sprinkle(rng, [pool[r] for r in ranks(rng, n, len(pool), pattern)], nullmode)
        spec.update(k=kind, v=v, nulls=nullmode != "none", pdk="O", maxlen=max(it[1] for it in pool))
        if kind != "lstr":
            spec["unorderable"] = nullmode != "none"       # pandas raises TypeError on max() of str/bytes objects with None
        return spec
    if kind in INT_RANGE:
        pool = int_pool(rng, *INT_RANGE[kind])
        spec.update(k="np", dtype=kind, v=[pool[r] for r in ranks(rng, n, len(pool), pattern)], nulls=False, pdk=kind[0])
    elif kind == "bool":
        spec.update(k="np", dtype="bool", v=[bool(r) for r in ranks(rng, n, 2, pattern)], nulls=False, pdk="b")
    elif kind in ("float32", "float64", "float16"):
        pool = float_pool(rng, kind)
        v = sprinkle(rng, [pool[r] for r in ranks(rng, n, len(pool), pattern)], nullmode, float("nan"))
        spec.update(k="np", dtype=kind, v=[S.fl(x) for x in v], nulls=False, pdk="f", nan=nullmode != "none")
    elif kind in ("Int8", "Int16", "Int32", "Int64", "UInt8", "UInt16", "UInt32", "UInt64"):
        pool = int_pool(rng, *INT_RANGE[kind.lower()])
        v = sprinkle(rng, [pool[r] for r in ranks(rng, n, len(pool), pattern)], nullmode)
        spec.update(k="ext", dtype=kind, v=v, nulls=nullmode != "none", pdk=kind[0].lower())
    elif kind == "boolean":
        v = sprinkle(rng, [bool(r) for r in ranks(rng, n, 2, pattern)], nullmode)
        spec.update(k="ext", dtype="boolean", v=v, nulls=nullmode != "none", pdk="b")
    elif kind in ("Float32", "Float64"):
        pool = float_pool(rng, kind)
        v = sprinkle(rng, [pool[r] for r in ranks(rng, n, len(pool), pattern)], nullmode)
        spec.update(k="ext", dtype=kind, v=[None if x is None else S.fl(x) for x in v], nulls=nullmode != "none", pdk="f")
    elif kind.startswith("dt_") or kind.startswith("td_"):
        unit = kind[3:]
        tz = None
        if unit == "tz":
            unit, tz = rng.choice(["ns", "us", "ms"]), rng.choice(["UTC", "Europe/Berlin", "America/New_York", "Asia/Kolkata"])
        if unit == "96":
            unit = "ns"
            spec["int96"] = True
        lim = {"ns": 2**62, "us": 2**52, "ms": 2**42, "s": 2**32}[unit]
        pool = sorted({-lim, -86400 * 365, -1, 0, 1, 86399, 86400, 1600000000, lim} | {rng.randint(-lim, lim) for _ in range(10)}
                      | {rng.randint(0, 2 * 10**9) for _ in range(6)})
        if spec.get("int96"):
            pool = [x for x in pool if abs(x) < 2**61]
        v = sprinkle(rng, [pool[r] for r in ranks(rng, n, len(pool), pattern)], nullmode)
        spec.update(k=kind[:2], unit=unit, tz=tz, v=v, nulls=nullmode != "none", pdk="M" if kind[0] == "d" else "m")
    elif kind in ("str", "ostr", "fixed"):
        v = sprinkle(rng, [STR_POOL[r] for r in ranks(rng, n, len(STR_POOL), pattern)], nullmode)
        spec.update(k="str" if kind == "str" else "ostr", v=v, nulls=nullmode != "none", pdk="O")
        if kind == "fixed":
            spec["fixed_text"] = rng.choice([1, 2, 4, 8])
            spec["v"] = [None if x is None else "".join(c for c in x if ord(c) < 128) for x in v]
        if kind != "str":
            spec["unorderable"] = nullmode != "none"       # pandas raises TypeError on max() of str objects with None
    elif kind == "obytes":
        v = sprinkle(rng, [BYTES_POOL[r].hex() for r in ranks(rng, n, len(BYTES_POOL), pattern)], nullmode)
        spec.update(k="obytes", v=v, nulls=nullmode != "none", pdk="O", unorderable=nullmode != "none")
    elif kind == "oint":
        pool = int_pool(rng, -2**63, 2**63 - 1)
        v = sprinkle(rng, [pool[r] for r in ranks(rng, n, len(pool), pattern)], nullmode)
        spec.update(k="oint", v=v, nulls=nullmode != "none", pdk="O", unorderable=None)
    elif kind == "obool":
        v = sprinkle(rng, [bool(r) for r in ranks(rng, n, 2, pattern)], nullmode)
        spec.update(k="obool", v=v, nulls=nullmode != "none", pdk="O", unorderable=None)
    elif kind == "ofloat":
        pool = float_pool(rng, "ofloat")
        v = sprinkle(rng, [pool[r] for r in ranks(rng, n, len(pool), pattern)], nullmode)
        spec.update(k="ofloat", v=[None if x is None else S.fl(x) for x in v], nulls=nullmode != "none", pdk="O", unorderable=None)
    elif kind == "odec":
        pool = ["-1000000.5", "-2", "-0.25", "0", "0.5", "1.5", "3", "12345678.125"]
        v = sprinkle(rng, [pool[r] for r in ranks(rng, n, len(pool), pattern)], nullmode)
        spec.update(k="odec", v=v, nulls=nullmode != "none", pdk="O", unorderable=None)
    elif kind.startswith("cat_"):
        lk = kind[4:]
        if lk == "str":
            pool, mk = STR_POOL, (lambda vals: {"k": "str", "v": vals})
        elif lk == "int":
            dt = rng.choice(["int8", "int16", "int32", "int64", "uint8", "uint32", "uint64"])
            pool, mk = int_pool(rng, *INT_RANGE[dt], extra=4), (lambda vals, dt=dt: {"k": "np", "dtype": dt, "v": vals})
        elif lk == "float":
            pool = [x for x in float_pool(rng, "float64") if not (x == 0.0 and str(x) == "-0.0")]
            mk = lambda vals: {"k": "np", "dtype": "float64", "v": [S.fl(x) for x in vals]}
        else:
            unit = rng.choice(["ns", "us", "ms"])
            pool = sorted({-86400 * 365, -1, 0, 1, 86400, 1600000000} | {rng.randint(-2**40, 2**40) for _ in range(8)})
            mk = lambda vals, unit=unit: {"k": "dt", "unit": unit, "v": vals}
        ncat = rng.randint(1, min(len(pool), 12))
        labels = rng.sample(pool, ncat)                      # category order is NOT value order
        used = labels[:max(1, ncat - rng.choice([0, 0, 1, 3]))] if ncat > 1 else labels
        uidx = sorted(range(len(used)), key=lambda i: pool.index(used[i]))     # used labels by value order
        rk = ranks(rng, n, len(uidx), pattern)
        codes = sprinkle(rng, [uidx[r] for r in rk], nullmode, -1)
        spec.update(k="cat", cats=mk(labels), v=codes, nulls=nullmode != "none", pdk="O", ordered=rng.random() < 0.45)
    else:
        raise ValueError(kind)
    return spec


def gen_case(rng, quick):
    n = rng.choice([1, 2, 3, 7, 8, 9, 16, 17, 40, 64, 65, 130, 300] if quick else [1, 2, 3, 7, 8, 9, 16, 17, 40, 64, 65, 130, 300, 700, 1500])
    ncols = rng.randint(2, 6)
    names = rng.sample(NAMES, ncols)
    file_pattern = rng.choice(["mixed", "mixed", "sorted"])
    cols = []
    # generator dimension `long values`: in a quarter of the files one or two columns hold long text / binary values on the
    # length lattice LONG_LATTICE (the longest ones only in small files: the footer repeats min and max per row group)
    nlong = rng.choice([0, 0, 0, 0, 0, 0, 1, 1, 2])
    maxlen = 65537 if n <= 17 else (4097 if n <= 130 else 513)
    for i, nm in enumerate(names):
        kind = rng.choice(KINDS) if i >= nlong else rng.choice(LONG_KINDS)
        pattern = rng.choice(["random", "random", "sorted", "strict", "late", "const"]) if file_pattern == "mixed" else rng.choice(["sorted", "strict"])
        nullmode = rng.choice(["none", "none", "few", "few", "many", "all"])
        if kind in LONG_KINDS and nullmode != "none" and kind != "lstr" and rng.random() < 0.7:
            nullmode = "none"          # object text with None gets no min/max from pandas: keep most long columns orderable
        cols.append(gen_col(rng, nm, kind, n, pattern, nullmode, maxlen=maxlen if i == 0 else min(maxlen, 4097)))
    longest = max([c.get("maxlen", 0) for c in cols])
    # row groups
    nrg = rng.choice([1, 1, 2, 3, 5]) if n > 1 else 1
    if longest > 4097:
        nrg = min(nrg, 2)
    rgo = sorted({0} | {rng.randrange(1, n) for _ in range(nrg - 1)}) if n > 1 else [0]
    opts = {"rgo": rgo, "v2": rng.random() < 0.5}
    stringy = any(c["k"] in ("str", "ostr", "obytes", "odec") for c in cols)
    if longest:
        mb = 4 * longest + 8           # a page must hold at least one row (the writer refuses smaller pages)
        opts["page"] = rng.choice([None, None] + [p for p in (2000, 20000, 70000, 300000, 2000000) if p >= 2 * mb][:2])
    else:
        opts["page"] = rng.choice([None, 40, 100, 400, 2000] if stringy else [None, 16, 40, 100, 400, 2000])
    if opts["page"] is None:
        del opts["page"]
    st = rng.choice(["true", "true", "true", "false", "auto", "list", "list"])
    if longest and st in ("false", "auto") and rng.random() < 0.8:
        st = "true"                    # 'auto' leaves text columns without min/max
    opts["stats"] = {"true": True, "false": False, "auto": "auto"}.get(st) if st != "list" else rng.sample(names, rng.randint(0, ncols))
    if longest and st == "list" and rng.random() < 0.8:
        opts["stats"] = sorted(set(opts["stats"]) | {c["name"] for c in cols if c["k"] in LONG_KINDS})
    need = [c["name"] for c in cols if c["nulls"]]
    hn = rng.choice(["true", "true", "infer", "list"])
    if hn == "infer" and any(c["nulls"] and c["k"] in ("ext", "dt", "td", "str", "lstr", "cat") for c in cols):
        hn = "list"
    opts["has_nulls"] = True if hn == "true" else ("infer" if hn == "infer" else sorted(set(need) | set(rng.sample(names, rng.randint(0, ncols)))))
    comp = rng.choice([None, None, None, "SNAPPY", "GZIP", "ZSTD", "LZ4"])
    if comp:
        opts["compression"] = comp
    oe, ft = {}, {}
    for c in cols:
        if c["k"] in ("ostr", "lostr"):
            oe[c["name"]] = "utf8"
        elif c["k"] in ("obytes", "lbytes"):
            oe[c["name"]] = "bytes"
        elif c["k"] in ("oint", "obool", "ofloat", "odec"):
            oe[c["name"]] = {"oint": "int", "obool": "bool", "ofloat": "float", "odec": "decimal"}[c["k"]]
        if c.get("fixed_text"):
            ft[c["name"]] = c["fixed_text"]
    if oe:
        opts["object_encoding"] = oe
    if ft:
        opts["fixed_text"] = ft
    if any(c.get("int96") for c in cols):
        opts["times"] = "int96"
    if rng.random() < 0.1 and n > 1:
        opts["file_scheme"] = "hive"
    elif rng.random() < 0.15 and n > 1:
        # generator dimension `multi`: two files with the columns in opposite order, opened together
        opts["multi"] = rng.randrange(1, n)
    return {"cols": cols, "opts": opts, "n": n}


# ---------------------------------------------------------------------------------------------

def phys_of_user(ptype, x):
    """api.statistics(chunk) value (numpy scalar / bytes) -> physical value as the model prints it"""
    import numpy as np
    if x is None:
        return None
    if ptype == 0:
        return int(bool(x))
    if ptype in (1, 2, 4, 5):
        return int.from_bytes(np.asarray(x).tobytes(), "little")
    if ptype == 3:
        return int.from_bytes(bytes(x).ljust(12, b"\x00"), "little")
    return bytes(x)


def examine(case, path, pq=None, ctx=None):
    """Decode every chunk of the written dataset, run the oracle (and, with pq/ctx, the ties).
    Returns the list of property failures [(cls, detail)]."""
    import fastparquet
    from fastparquet import ParquetFile, api
    import copy
    fails = []
    # the user-facing views are taken as a SHORT CALL SEQUENCE ON ONE HANDLE: statistics, sorted_partitioned_columns without and
    # with a filter that prunes some row groups (chosen on a separate handle), in both orders, and both again afterwards; every
    # result is compared with the values recomputed from the stored chunks, the unfiltered results before/after with each other
    pf = S.open_case(case, path)
    nrg0 = len(pf.row_groups)
    early = pf[1:] if nrg0 > 1 else pf[0:1]          # derived BEFORE any cache of the parent is filled, read at the end
    filt, fidx = _pick_filter(path, case)
    order = (case["n"] + len(case["cols"])) % 2
    stat_views, sorted_views = [], []

    def call_sorted(label, f=None, sub=None):
        try:
            r = api.sorted_partitioned_columns(pf, filters=f) if f else api.sorted_partitioned_columns(pf)
            err = None
        except Exception as e:       # noqa
            r, err = {}, "%s: %s" % (type(e).__name__, e)
        sorted_views.append({"label": label, "res": copy.deepcopy(r), "err": err, "idx": sub, "filter": f})
    if order == 1 and filt:
        call_sorted("sorted_partitioned_columns(filters) as the first call", filt, fidx)
    stat_views.append(("statistics", copy.deepcopy(pf.statistics)))
    call_sorted("sorted_partitioned_columns()")
    if filt:
        call_sorted("sorted_partitioned_columns(filters)", filt, fidx)
        stat_views.append(("statistics after sorted_partitioned_columns(filters)", copy.deepcopy(pf.statistics)))
        call_sorted("sorted_partitioned_columns() after sorted_partitioned_columns(filters)")
    if ctx is not None:
        ctx.count("call sequence", ("filtered call first" if order == 1 else "unfiltered call first") if filt else "no pruning filter available")
    # generator dimension `derived handles`: the same views through handles DERIVED from pf after its caches were filled
    # (slices, picks, reversed, slice of a slice, pickled, copied), each compared with the stored chunks of exactly the
    # row groups that handle selects; and a parent whose child was asked first
    import pickle
    derived = []
    allr = list(range(nrg0))
    dplan = [("pf[1:]", lambda h: h[1:], allr[1:]), ("pf[:-1]", lambda h: h[:-1], allr[:-1]), ("pf[::2]", lambda h: h[::2], allr[::2]),
             ("pf[::-1]", lambda h: h[::-1], allr[::-1]), ("pf[%d]" % (nrg0 // 2), lambda h: h[nrg0 // 2], [allr[nrg0 // 2]]),
             ("pf[1:][1:]", lambda h: h[1:][1:], allr[1:][1:]), ("pickle.loads(pickle.dumps(pf))", lambda h: pickle.loads(pickle.dumps(h)), allr),
             ("copy.copy(pf)", copy.copy, allr), ("copy.deepcopy(pf)", copy.deepcopy, allr),
             ("pickle.loads(pickle.dumps(pf[1:]))", lambda h: pickle.loads(pickle.dumps(h[1:])), allr[1:])]
    pick_ = [dplan[(case["n"] + k) % len(dplan)] for k in (0, 3, 7)] if nrg0 > 1 else [dplan[4], dplan[6 + case["n"] % 3]]
    dviews = []
    for lbl, mk, sel in pick_:
        if not sel:
            continue
        lbl = lbl + " (derived after pf.statistics / sorted_partitioned_columns(pf) were evaluated)"
        try:
            h = mk(pf)
            dviews.append((lbl + ".statistics", copy.deepcopy(h.statistics), sel))
            try:
                r, err = api.sorted_partitioned_columns(h), None
            except Exception as e:       # noqa
                r, err = {}, "%s: %s" % (type(e).__name__, e)
            sorted_views.append({"label": "sorted_partitioned_columns(%s)" % lbl, "res": copy.deepcopy(r), "err": err, "idx": sel, "filter": None, "derived": True})
            dviews.append((lbl + ".statistics again", copy.deepcopy(h.statistics), sel))
        except Exception as e:       # noqa
            derived.append(({"kind": "any", "categorical": False, "v2": bool(case["opts"].get("v2")), "multipage": False, "ptype": "any",
                             "component": "statistics", "what": "derived-handle-raises"},
                            {"col": None, "rg": None, "detail": "%s raises %s: %s" % (lbl, type(e).__name__, e)}))
    try:
        esel = allr[1:] if nrg0 > 1 else allr
        dviews.append(("pf[1:] taken before pf.statistics was evaluated, read after: .statistics", copy.deepcopy(early.statistics), esel))
        p2 = S.open_case(case, path)
        child = p2[1:] if nrg0 > 1 else p2[0:1]
        dviews.append(("child = p2[1:] of a fresh handle p2: child.statistics", copy.deepcopy(child.statistics), esel))
        dviews.append(("p2.statistics after child.statistics", copy.deepcopy(p2.statistics), allr))
    except Exception as e:       # noqa
        derived.append(({"kind": "any", "categorical": False, "v2": bool(case["opts"].get("v2")), "multipage": False, "ptype": "any",
                         "component": "statistics", "what": "derived-handle-raises"},
                        {"col": None, "rg": None, "detail": "statistics of a sliced handle raises %s: %s" % (type(e).__name__, e)}))
    if ctx is not None:
        for lbl, _, _ in pick_:
            ctx.count("derived handles", lbl)
    ust = stat_views[0][1]
    sorted_err = next((v["err"] for v in sorted_views if v["err"]), None)
    specs = {c["name"]: c for c in case["cols"]}
    o = case["opts"]
    files = {}
    percol = {}
    nrg = len(pf.row_groups)
    for gi, rg in enumerate(pf.row_groups):
        for col in rg.columns:
            cmd = col.meta_data
            name = ".".join(cmd.path_in_schema)
            spec = specs[name]
            se = pf.schema.schema_element(cmd.path_in_schema)
            fn = os.path.join(path, S_bytes(col.file_path).decode()) if col.file_path else path
            if fn not in files:
                files[fn] = open(fn, "rb").read()
            optional = se.repetition_type == 1
            dec = S.decode_chunk(files[fn], cmd, optional, se.type_length)
            pages = dec["pages"]
            stored = [c for p in pages for c in p]
            ordsx, key, is_ord = S.ordering(cmd.type, se.converted_type)
            ordv = [v for v in stored if v is not None and is_ord(v)]
            exp_nulls = sum(1 for v in stored if v is None)
            s = cmd.statistics
            raw_min = None if s is None else (s.min if s.min is not None else s.min_value)
            raw_max = None if s is None else (s.max if s.max is not None else s.max_value)
            raw_nulls = None if s is None else s.null_count
            cls0 = {"kind": spec["kind"], "categorical": spec["k"] == "cat", "v2": bool(o.get("v2")),
                    "multipage": len(pages) > 1, "ptype": S.PTYPE_NAME[cmd.type]}
            info = {"rg": gi, "col": name, "rows": len(stored), "pages": [len(p) for p in pages]}
            if len(stored) != cmd.num_values or len(stored) != rg.num_rows:
                raise RuntimeError("decoder: %d cells for %d values (%s)" % (len(stored), cmd.num_values, info))
            # ---------------- the property on this chunk ----------------
            if raw_nulls is not None and raw_nulls != exp_nulls:
                fails.append(({**cls0, "component": "write_column", "what": "null_count"},
                              {**info, "detail": "null_count %r, stored chunk has %d null cells" % (raw_nulls, exp_nulls)}))
            exp = {}
            for what, raw, pick in (("min", raw_min, min), ("max", raw_max, max)):
                e_phys = pick(ordv, key=key) if ordv else None
                exp[what] = e_phys
                if raw is None:
                    continue
                got = S.raw_to_phys(cmd.type, S_bytes(raw))
                if not ordv:
                    fails.append(({**cls0, "component": "write_column", "what": what + "-without-ordered-value"},
                                  {**info, "detail": "%s=%r written but the stored chunk has no non-null ordered value" % (what, raw)}))
                elif got is None or not is_ord(got) or key(got) != key(e_phys):
                    fails.append(({**cls0, "component": "write_column", "what": what},
                                  {**info, "detail": "%s raw=%s decodes to %r, stored chunk's %s is %r (%d ordered values, %d pages)" % (
                                      what, S_bytes(raw).hex(), got, what, e_phys, len(ordv), len(pages))}))
            # user view: every snapshot of pf.statistics taken during the call sequence
            want_l = {}
            for what, raw in (("min", raw_min), ("max", raw_max)):
                want_l[what] = None if (raw is None or exp[what] is None) else S.logical(cmd.type, se, exp[what])
            for vlabel, ust in stat_views:
                for what, raw in (("min", raw_min), ("max", raw_max)):
                    ul = ust[what].get(name)
                    if ul is None or (len(ul) == 1 and ul[0] is None and nrg != 1):
                        continue                 # api.statistics collapses a column to [None] when any row group lacks the value
                    if len(ul) != nrg:
                        if gi == 0:
                            fails.append(({**cls0, "component": "statistics", "what": "user-shape"},
                                          {**info, "detail": "%s: %s[%r] has %d entries for %d row groups" % (vlabel, what, name, len(ul), nrg)}))
                        continue
                    u = S.user_canon(ul[gi])
                    want = want_l[what]
                    if raw is not None and exp[what] is not None and not S.same_logical(u, want):
                        fails.append(({**cls0, "component": "statistics", "what": "user-" + what},
                                      {**info, "detail": "%s: %s = %r (%r), stored chunk's %s is %r" % (vlabel, what, ul[gi], u, what, want)}))
                    if raw is None and u is not None:
                        fails.append(({**cls0, "component": "statistics", "what": "user-" + what + "-invented"},
                                      {**info, "detail": "%s: %s = %r but the chunk carries none" % (vlabel, what, ul[gi])}))
                un = ust["null_count"].get(name)
                if un is not None and raw_nulls is not None:
                    if len(un) != nrg:
                        if gi == 0 and not (len(un) == 1 and un[0] is None):
                            fails.append(({**cls0, "component": "statistics", "what": "user-shape"},
                                          {**info, "detail": "%s: null_count[%r] has %d entries for %d row groups" % (vlabel, name, len(un), nrg)}))
                    elif un[gi] != exp_nulls:
                        fails.append(({**cls0, "component": "statistics", "what": "user-null_count"},
                                      {**info, "detail": "%s: null_count = %r, stored chunk has %d" % (vlabel, un[gi], exp_nulls)}))
            percol.setdefault(name, []).append({"ord": ordsx, "key": key, "ordv": ordv, "raw_min": raw_min, "raw_max": raw_max,
                                                "ptype": cmd.type, "cls": cls0, "want": want_l, "exp_nulls": exp_nulls, "raw_nulls": raw_nulls,
                                                # api.statistics collapses the WHOLE min/max list of such a column to [None] when one row group lacks it
                                                "collapsing": se.converted_type is not None or se.logicalType is not None or cmd.type == 3})
            # ---------------- ties ----------------
            if pq is None:
                continue
            tname = S.PTYPE_NAME[cmd.type]
            cells = lambda l: [[] if c is None else [c] for c in l]
            mdec = {}
            for what, raw in (("min", raw_min), ("max", raw_max)):
                mdec[what] = None if raw is None else pq.call("dec_stat", tname, S_bytes(raw))
            ccase = {**info, "kind": spec["kind"], "opts": o, "raw_min": None if raw_min is None else S_bytes(raw_min).hex(),
                     "raw_max": None if raw_max is None else S_bytes(raw_max).hex(), "null_count": raw_nulls}
            # C: decoding
            try:
                cu = api.statistics(col)
            except Exception as e:   # noqa
                cu = {"error": repr(e)}
            for what in ("min", "max"):
                if mdec[what] is not None:
                    mv, iv = mdec[what][0] if mdec[what] else None, phys_of_user(cmd.type, cu.get(what))
                    if cmd.type == 7:      # numpy 'S' scalars do not show trailing NUL bytes
                        mv, iv = (None if mv is None else mv.rstrip(b"\x00")), (None if iv is None else iv.rstrip(b"\x00"))
                    ctx.correspondence("dec_stat ~ api.statistics(chunk) decoding of the raw bytes", {**ccase, "what": what}, mv, iv)
            # A: relation
            if raw_nulls is not None and all(m is None or m for m in mdec.values()):
                stx = [[] if mdec["min"] is None else [mdec["min"][0]], [] if mdec["max"] is None else [mdec["max"][0]], raw_nulls]
                r = pq.call("check_stats", ordsx, cells(stored), stx)
                ctx.correspondence("footer Statistics of write_column inside check_stats (sound: C04_check_sound)", ccase, 1, r)
            # B: writer model.  WHICH columns a stats setting selects is a documented choice of make_row_group, not part of
            # the property ("whenever a chunk carries statistics ..."): the model `select` is compared for information only
            # (evidence: select.*), the obligation runs stats_of with the selection the writer actually made.
            setting = o["stats"]
            ssx = ["bool", bool(setting)] if isinstance(setting, bool) else (["auto"] if setting == "auto" else ["names"] + [x.encode() for x in setting])
            sel_model = pq.call("select", ssx, name.encode(), spec["pdk"])
            has_mm = raw_min is not None or raw_max is not None
            unord = spec.get("unorderable", False)
            if sel_model and not has_mm and ordv:
                # selected, orderable stored values, yet no min/max: pandas could not order the column (object dtypes) or the
                # writer selects differently from the model
                ctx.count("select.model-selects-writer-wrote-none", spec["kind"] if unord is not False else "ORDERABLE:" + spec["kind"])
            elif not sel_model and has_mm:
                ctx.count("select.writer-selects-model-does-not", spec["kind"])
            else:
                ctx.count("select.agree", int(sel_model))
            sel = int(has_mm)
            if dec["codes"] is not None:
                m = pq.call("cat_stats_of", ordsx, sel, optional, dec["dict"], [cells(p) for p in dec["codes"]])
            else:
                m = pq.call("stats_of", ordsx, sel, optional, [cells(p) for p in pages])
            canon = lambda v: None if v is None else (key(v) if not isinstance(key(v), float) else ("f", key(v) + 0.0))
            mo = [canon(m[0][0]) if m[0] else None, canon(m[1][0]) if m[1] else None, m[2]]
            io_ = [None if not mdec["min"] else canon(mdec["min"][0]), None if not mdec["max"] else canon(mdec["max"][0]), raw_nulls]
            ctx.correspondence("stats_of/cat_stats_of ~ footer Statistics of write_column", {**ccase, "sel": sel}, mo, io_)
            ctx.count("chunk.ordering", ordsx[0] + (str(ordsx[1]) if len(ordsx) > 1 else ""))
            ctx.count("chunk.pages", min(len(pages), 5))
            ctx.count("chunk.stats", "minmax" if raw_min is not None else "null_count only")
    # ---------------- statistics through derived handles: entry j must describe the j-th SELECTED row group ----------------
    fails.extend(derived)
    for vlabel, dst, sel in dviews:
        for name, lst in percol.items():
            clsd = {**lst[0]["cls"], "component": "statistics"}
            for what in ("min", "max"):
                ul = dst[what].get(name)
                if ul is None or (len(ul) == 1 and ul[0] is None and len(sel) != 1):
                    continue
                if len(ul) != len(sel):
                    fails.append(({**clsd, "what": "user-shape"},
                                  {"col": name, "rg": None, "detail": "%s: %s[%r] has %d entries for a handle of %d row group(s) %s" % (vlabel, what, name, len(ul), len(sel), sel)}))
                    continue
                for j, i in enumerate(sel):
                    g = lst[i]
                    u, want = S.user_canon(ul[j]), g["want"][what]
                    if g["raw_" + what] is not None and want is not None and not S.same_logical(u, want):
                        fails.append(({**clsd, "what": "user-" + what},
                                      {"col": name, "rg": i, "detail": "%s: %s[%d] = %r, the handle's row group %d is row group %d of the file whose stored chunk has %s %r"
                                                                       % (vlabel, what, j, ul[j], j, i, what, want)}))
                        break
                    if g["raw_" + what] is None and u is not None:
                        fails.append(({**clsd, "what": "user-" + what + "-invented"},
                                      {"col": name, "rg": i, "detail": "%s: %s[%d] = %r but that chunk carries none" % (vlabel, what, j, ul[j])}))
                        break
            un = dst["null_count"].get(name)
            if un is not None and not (len(un) == 1 and un[0] is None and len(sel) != 1):
                if len(un) != len(sel):
                    fails.append(({**clsd, "what": "user-shape"},
                                  {"col": name, "rg": None, "detail": "%s: null_count[%r] has %d entries for a handle of %d row group(s)" % (vlabel, name, len(un), len(sel))}))
                else:
                    for j, i in enumerate(sel):
                        if lst[i]["raw_nulls"] is not None and un[j] != lst[i]["exp_nulls"]:
                            fails.append(({**clsd, "what": "user-null_count"},
                                          {"col": name, "rg": i, "detail": "%s: null_count[%d] = %r, the stored chunk of row group %d has %d" % (vlabel, j, un[j], i, lst[i]["exp_nulls"])}))
                            break
    # ---------------- sorted_partitioned_columns: every call of the sequence ----------------
    for v in sorted_views:
        sub = list(range(nrg)) if v["idx"] is None else list(v["idx"])
        if v["err"]:
            fails.append(({"kind": "any", "categorical": False, "v2": bool(o.get("v2")), "multipage": False, "ptype": "any",
                           "component": "sorted_partitioned_columns", "what": "raises"},
                          {"col": None, "rg": None, "detail": "%s with filters=%r (row groups kept: %s) raises %s" % (v["label"], v["filter"], v["idx"], v["err"])}))
            continue
        for name, lst in percol.items():
            listed = name in v["res"]
            if listed:
                hi = None
                bad = None
                for i in sub:
                    g = lst[i]
                    if not g["ordv"]:
                        continue
                    ks = [g["key"](x) for x in g["ordv"]]
                    if hi is not None and not hi < min(ks):
                        bad = i
                        break
                    hi = max(ks) if hi is None else max(hi, max(ks))
                if bad is not None:
                    fails.append(({**lst[0]["cls"], "component": "sorted_partitioned_columns", "what": "not-strictly-increasing"},
                                  {"col": name, "rg": bad, "detail": "%s: column reported sorted, but row group %d holds a value <= a value of an earlier "
                                                                     "selected row group (selected: %s)" % (v["label"], bad, sub)}))
                for what in ("min", "max"):
                    got = v["res"][name].get(what)
                    exp_l = [lst[i]["want"][what] for i in sub]
                    if got is None or len(got) != len(sub) or not all(S.same_logical(S.user_canon(x), w) for x, w in zip(got, exp_l)):
                        fails.append(({**lst[0]["cls"], "component": "sorted_partitioned_columns", "what": "bounds"},
                                      {"col": name, "rg": None, "detail": "%s: %s of %r = %r, the stored chunks of row groups %s have %r" % (
                                          v["label"], what, name, got, sub, exp_l)}))
            if pq is not None:
                tname = S.PTYPE_NAME[lst[0]["ptype"]]
                mins, maxs, okdec = [], [], True
                seen_by_statistics = [lst[i] for i in sub] if v.get("derived") else lst      # a derived handle knows only its own row groups
                collapsed = {"min": lst[0]["collapsing"] and any(g["raw_min"] is None for g in seen_by_statistics),
                             "max": lst[0]["collapsing"] and any(g["raw_max"] is None for g in seen_by_statistics)}
                for i in sub:
                    g = lst[i]
                    for raw, acc, w in ((g["raw_min"], mins, "min"), (g["raw_max"], maxs, "max")):
                        if raw is None or collapsed[w]:
                            acc.append([])
                        else:
                            d = pq.call("dec_stat", tname, S_bytes(raw))
                            okdec = okdec and bool(d)
                            acc.append([d[0]] if d else [])
                if okdec and v["err"] is None:
                    r = pq.call("sorted_col", lst[0]["ord"], mins, maxs)
                    ctx.correspondence("sorted_col ~ api.sorted_partitioned_columns", {"col": name, "kind": specs[name]["kind"], "opts": o, "call": v["label"],
                                                                                        "selected": sub, "nrg": len(lst), "n": case["n"]}, r, int(listed))
                    ctx.count("sorted.listed", int(listed))
    unf = [v for v in sorted_views if v["idx"] is None]
    if len(unf) == 2:
        ca = {k: {w: [S.user_canon(x) for x in d[w]] for w in ("min", "max")} for k, d in unf[0]["res"].items()}
        cb = {k: {w: [S.user_canon(x) for x in d[w]] for w in ("min", "max")} for k, d in unf[1]["res"].items()}
        if ca != cb:
            fails.append(({"kind": "any", "categorical": False, "v2": bool(o.get("v2")), "multipage": False, "ptype": "any",
                           "component": "sorted_partitioned_columns", "what": "changed-by-an-earlier-call"},
                          {"col": None, "rg": None, "detail": "sorted_partitioned_columns(pf) before a filtered call lists %s, after it %s" % (sorted(ca), sorted(cb))}))
    if len(stat_views) == 2:
        canon = lambda st: {w: {k: [S.user_canon(x) if w != "null_count" else x for x in lst_] for k, lst_ in st[w].items()} for w in ("min", "max", "null_count")}
        if canon(stat_views[0][1]) != canon(stat_views[1][1]):
            fails.append(({"kind": "any", "categorical": False, "v2": bool(o.get("v2")), "multipage": False, "ptype": "any",
                           "component": "statistics", "what": "changed-by-an-earlier-call"},
                          {"col": None, "rg": None, "detail": "ParquetFile.statistics differs before/after sorted_partitioned_columns(pf, filters=%r)" % (filt,)}))
    return fails


def S_bytes(x):
    return x.encode("utf-8") if isinstance(x, str) else bytes(x)


def _pick_filter(path, case=None):
    """-> (filters, indices of the row groups fastparquet's own row-group filter keeps) for a numeric column such that
    some but not all row groups are kept; decided on a SEPARATE handle so that the handle under test is untouched"""
    import numpy as np
    from fastparquet import ParquetFile, api
    try:
        aux = S.open_case(case, path) if case is not None else ParquetFile(path)
        nrg = len(aux.row_groups)
        if nrg < 2:
            return None, None
        st = aux.statistics
        for c in aux.columns:
            mx, mn = st["max"].get(c), st["min"].get(c)
            if not mx or not mn or len(mx) != nrg or len(mn) != nrg or any(x is None for x in list(mx) + list(mn)):
                continue
            if isinstance(mx[0], (bool, np.bool_)) or not isinstance(mx[0], (int, float, np.integer, np.floating)):
                continue
            for op, val in ((">", mx[0]), ("<", mn[-1]), (">=", mx[-1]), ("<=", mn[0]), ("==", mn[nrg // 2])):
                if val != val:
                    continue
                f = [(c, op, val.item() if hasattr(val, "item") else val)]
                try:
                    idx = api.filter_row_groups(aux, f, as_idx=True)
                except Exception:       # noqa
                    continue
                if 0 < len(idx) < nrg:
                    return f, [int(i) for i in idx]
    except Exception:       # noqa
        pass
    return None, None


def run(ctx):
    C.coq_lib()
    ctx.trusted = TRUSTED
    ctx.coq_file(os.path.join(C.COQ, "props", "C04.v"))
    bad = C.hygiene()
    ctx.obligation("hygiene: no Admitted/Axiom/Parameter/... in coq/", not bad, "; ".join(bad))
    C.use_shadow()
    rng = ctx.rng
    ctx.rule = ("files: 2-6 columns of random kinds (every numpy/nullable int width incl. unsigned >= 2^63, bool, float16/32/64 with "
                "NaN/+-inf/-0.0, datetime ns/us/ms/s naive, tz-aware and INT96, timedelta, str with code points beyond the BMP, object "
                "str/bytes/int/bool/float/decimal, fixed_text, categoricals of str/int/float/datetime with category order != value "
                "order and unused categories), value patterns random/sorted-with-ties/strict/extremes-late/constant, null patterns "
                "none/few/many/all, 1-5 row groups, v1/v2 pages, MAX_PAGE_SIZE 16..default, stats True/False/'auto'/list, has_nulls "
                "True/'infer'/list, compression; one case = one written file; trivial = single row; distinct = distinct (columns, options)")
    # UTF-8: the spec encoder of the model is Python's, code-point order is Python's str order, and (instance of
    # C04_utf8_order) the byte order of the encodings is that order - on the text pool of the generators
    pq0 = C.Pqref()
    pool = STR_POOL + ["\u07ff", "\u0800", "\ud7ff\U00010000", "\U0010ffff\x00", "a\u00e9", "a\u0100"]
    for a in pool:
        ctx.correspondence("utf8_encode ~ str.encode('utf-8')", {"text": a}, pq0.call("utf8_encode", [ord(ch) for ch in a]), a.encode("utf-8"))
    for a in pool:
        for b in pool:
            r = pq0.call("cp_leb", [ord(ch) for ch in a], [ord(ch) for ch in b])
            ctx.correspondence("code-point order ~ Python str order", {"a": a, "b": b}, r, int(a <= b))
            ctx.correspondence("byte order of the UTF-8 encodings = code-point order (C04_utf8_order)", {"a": a, "b": b}, r, int(a.encode("utf-8") <= b.encode("utf-8")))
    pq0.close()
    nfiles = 400 if ctx.quick() else 5000
    corpus = sorted(os.listdir(os.path.join(C.VERIF, "corpus", "C04"))) if os.path.isdir(os.path.join(C.VERIF, "corpus", "C04")) else []
    cases = [json.load(open(os.path.join(C.VERIF, "corpus", "C04", f))) for f in corpus if f.endswith(".json")]
    ctx.extra["corpus_cases"] = len(cases)
    while len(cases) < nfiles + ctx.extra["corpus_cases"]:
        cases.append(gen_case(rng, ctx.quick()))
    # the real code runs in forked workers (a native crash or a hang is a reported failure of that case, not a dead check);
    # each worker talks to its own pqref and records what it would tell the Ctx; the parent replays the records in order
    batch = 20
    jobs = [{"cases": cases[i:i + batch], "base": i, "seed": rng.randrange(1 << 60)} for i in range(0, len(cases), batch)]
    quick, scratch = ctx.quick(), ctx.scratch

    def work(job):
        import random
        import shutil
        rc = X.RecCtx(quick, scratch)
        pq = _W["pq"]
        if pq is None or pq.p.poll() is not None:
            pq = _W["pq"] = X.RecPqref(random.Random(job["seed"]), keep=3)
        pq.rng, pq.sample, pq.seen = random.Random(job["seed"]), [], 0
        for k, case in enumerate(job["cases"]):
            path = os.path.join(scratch, "f%d_%d.parq" % (os.getpid(), job["base"] + k))
            try:
                S.write_case(case, path)
            except Exception as e:       # noqa  (not C04's concern: the write itself is C01/C18)
                rc.count("write_error", type(e).__name__)
                rc.count("write_error.detail", ("%s: %s" % (type(e).__name__, e))[:80])
                continue
            try:
                fails = examine(case, path, pq, rc)
            finally:
                if os.path.isdir(path):
                    shutil.rmtree(path, ignore_errors=True)
                elif os.path.exists(path):
                    os.unlink(path)
            rc.case({"cols": case["cols"], "opts": case["opts"]}, case["n"] <= 1)
            for c in case["cols"]:
                rc.count("column.kind", c["kind"])
                rc.count("column.nulls", c["nullmode"])
                rc.count("column.pattern", c["pattern"])
            rc.count("opts.stats", case["opts"]["stats"] if not isinstance(case["opts"]["stats"], list) else "list")
            rc.count("opts.pages", "v2" if case["opts"].get("v2") else "v1")
            rc.count("opts.rowgroups", len(case["opts"]["rgo"]))
            rc.count("opts.layout", "two files, opposite chunk order" if case["opts"].get("multi") else case["opts"].get("file_scheme", "one file"))
            rc.count("files_examined", "n")
            for cls, det in fails:
                rc.fail(cls, {"cols": case["cols"], "opts": case["opts"], "n": case["n"], "focus": det}, det["detail"])
        return {"ops": rc.ops, "samples": list(pq.sample)}

    samples = X.run_jobs(
        ctx, work, jobs, init=_winit,
        split=lambda job: [{"cases": [c], "base": job["base"] + k, "seed": job["seed"] + k} for k, c in enumerate(job["cases"])],
        crash_cls=lambda job, r: {"component": "native-crash", "what": "crash" if "died" in r["__crashed__"] else ("hang" if "timeout" in r["__crashed__"].lower() else "harness-exception"),
                                  "kind": job["cases"][0]["cols"][0]["kind"] if len(job["cases"]) == 1 else "batch"},
        describe=lambda job: ({"cols": job["cases"][0]["cols"], "opts": job["cases"][0]["opts"], "n": job["cases"][0]["n"]} if len(job["cases"]) == 1
                              else {"batch": job["cases"]}),
        nproc=4, job_timeout=300)
    X.kernel_crosscheck_samples(ctx, samples)
    done = int(ctx.dist.get("files_examined", {}).get("n", 0))
    werr = sum(ctx.dist.get("write_error", {}).values())
    ctx.extra["files_examined"] = done
    ctx.extra["write_errors"] = werr
    ctx.extra["select_drift"] = sum(v for k, v in ctx.dist.get("select.writer-selects-model-does-not", {}).items()) + \
        sum(v for k, v in ctx.dist.get("select.model-selects-writer-wrote-none", {}).items() if k.startswith("ORDERABLE:"))
    if werr > nfiles // 5:
        ctx.obligation("generator health: fewer than 20% of the generated files fail to write", False, "%d of %d" % (werr, nfiles))


_W = {"pq": None}


def _winit():
    _W["pq"] = None


def replay(rep):
    """Re-write the recorded frame(s) with the recorded options through the real writer and re-run the oracle - in a forked
    worker, so that an input the real code does not survive is reported instead of killing the replay."""
    import shutil
    import tempfile
    if rep.get("kind") == "no-failing-input-found":
        print(json.dumps(rep, indent=1)[:6000])
        return 1
    C.use_shadow()
    cases = rep["case"]["batch"] if "batch" in rep["case"] else [rep["case"]]
    tmp = tempfile.mkdtemp(prefix="verif-C04-replay-", dir="/tmp")

    def job(case):
        path = os.path.join(tmp, "f%d.parq" % os.getpid())
        S.write_case(case, path)
        return [(cls, det) for cls, det in examine(case, path)]
    try:
        bad = 0
        res = C.pmap(job, cases, nproc=1, job_timeout=300)
        for case, fails in zip(cases, res):
            print("frame: %d rows, columns %s, options %s" % (case["n"], [(c["name"], c["kind"]) for c in case["cols"]], case["opts"]))
            if isinstance(fails, dict) and "__crashed__" in fails:
                print("PROPERTY FAILS [native-crash]: the real code does not survive this input: %s" % fails["__crashed__"])
                bad += 1
                continue
            for cls, det in fails:
                print("PROPERTY FAILS [%s/%s] row group %s column %s: %s" % (cls["component"], cls["what"], det.get("rg"), det.get("col"), det["detail"]))
            if not fails:
                print("property holds on this input now")
            bad += len(fails)
        return 1 if bad else 0
    finally:
        shutil.rmtree(tmp, ignore_errors=True)
