"""C03 - valid flat Parquet files from any writer decode to exactly what they encode.

Files are produced by the extracted specification-level encoder (coq/theories/Format/Enc.v, proved to
round-trip with the specification-level decoder) from generated layout descriptions; fastparquet reads
them through the shadow package; the result is compared with the table the layout denotes."""
import json
import multiprocessing as mp
import os
import shutil
import tempfile
import warnings

from harness import common as C
from harness import fmtgen as G

TRUSTED = [
    "Coq 8.16.1 kernel + coqc; vm_compute only in the closed Examples; no native_compute",
    "extraction: ExtrOcamlBasic only, no Extract Constant; ocaml/driver.ml s-expression I/O",
    "Section hypothesis of Format/*: decompress codec (compress codec b) = b - cramjam, called directly from harness/fmtlib.py "
    "(two-phase protocol; the round trip of every payload is asserted when the file is built)",
    "Thrift/IdlPinned.v (the IDL table)",
    "Python glue (harness/props/C03.py fp_cells): how a pandas cell fastparquet returns maps back to the physical bit pattern "
    "(signed/unsigned reading by converted type, datetime64/timedelta64 unit -> stored unit, INT96 = ns of day + Julian day, "
    "UTF-8, JSON compared after parsing, NULL = missing cell; a float NaN read for an optional column counts as NULL)",
    "layout generator harness/fmtgen.py (what is enumerated is stated in the rule)",
]

M32, M64 = (1 << 32) - 1, (1 << 64) - 1
NS_DAY = 86400 * 10**9
_PQ = None
_SCRATCH = "/tmp"      # per-job directories live under the run's scratch root (removed by ctx.finish)


def _init():
    warnings.filterwarnings("ignore")
    C.use_shadow()


def _pq():
    global _PQ
    if _PQ is None:
        _PQ = C.Pqref()
    return _PQ


DTYPES = {
    "bool": ["bool", "boolean"], "int32": ["int32", "Int32"], "int32c": ["int32", "Int32"], "int8": ["int8", "Int8"],
    "int16": ["int16", "Int16"], "uint8": ["uint8", "UInt8"], "uint16": ["uint16", "UInt16"], "uint32": ["uint32", "UInt32"],
    "int64": ["int64", "Int64"], "int64c": ["int64", "Int64"], "uint64": ["uint64", "UInt64"],
    "date": ["datetime64[ns]"], "ts_ms": ["datetime64[ms]"], "ts_us": ["datetime64[us]"],
    "ts_ns": ["datetime64[ns, UTC]", "datetime64[ns]"], "int96": ["datetime64[ns]"],
    "time_ms": ["timedelta64[ms]"], "time_us": ["timedelta64[us]"], "float": ["float32"], "double": ["float64"],
    "bytes": ["object"], "flba": ["object"], "utf8": ["object", "str", "string"], "json": ["object"],
    "decimal": ["float64"],
}


def decimal_expected(e, leaf):
    """physical cell of a DECIMAL column -> the float the reader must return: unscaled signed integer * 10**-scale
    (big-endian two's complement for byte arrays, two's complement of the physical width for INT32/INT64)"""
    if isinstance(e, dict):
        e = bytes.fromhex(e["b"])
    if isinstance(e, (bytes, bytearray)):
        u = int.from_bytes(e, "big", signed=True)
    else:
        bits = 32 if leaf["type"] == 1 else 64
        u = e - (1 << bits) if e >> (bits - 1) else e
    return u * 10 ** -leaf["scale"]


def fp_cells(s, leaf):
    """pandas Series returned by fastparquet -> physical cells (None | int | bytes | ('nan',) | ('json', text) | ('?', ...))"""
    import numpy as np
    import pandas as pd
    tag, t = leaf["tag"], leaf["type"]
    dt = s.dtype
    out = []
    if tag == "decimal":
        return [None if (v is None or v != v) else ("dec", float(v)) for v in s.tolist()]
    if isinstance(dt, pd.CategoricalDtype):
        cats = list(s.cat.categories)
        s = pd.Series([None if c < 0 else cats[c] for c in s.cat.codes], dtype=object)
        dt = s.dtype
    if isinstance(dt, pd.DatetimeTZDtype):
        s = s.dt.tz_convert("UTC").dt.tz_localize(None)
        dt = s.dtype
    kind = getattr(dt, "kind", "O")
    if kind in "mM":
        arr = s.values
        unit = np.datetime_data(arr.dtype)[0]
        mul = {"s": 10**9, "ms": 10**6, "us": 10**3, "ns": 1}.get(unit)
        iv = arr.view("int64")
        nat = -(1 << 63)
        for v in iv:
            v = int(v)
            if v == nat:
                out.append(None)
                continue
            ns = v * mul
            if tag == "date":
                out.append((ns // NS_DAY) & M32 if ns % NS_DAY == 0 else ("?", "date not whole days", ns))
            elif tag == "int96":
                out.append((ns % NS_DAY) | (((ns // NS_DAY + 2440588) & M32) << 64))
            else:
                div = {"ts_ms": 10**6, "ts_us": 10**3, "ts_ns": 1, "time_ms": 10**6, "time_us": 10**3}.get(tag)
                if div is None or ns % div:
                    out.append(("?", "time value not representable", ns))
                else:
                    out.append((ns // div) & (M32 if t == 1 else M64))
        return out
    if kind == "f" and t in (4, 5):
        arr = s.values
        bits = arr.view("uint32" if arr.dtype.itemsize == 4 else "uint64")
        for v, b in zip(arr, bits):
            out.append(("nan", int(b)) if np.isnan(v) else int(b))
        return out
    isna = s.isna().values
    for miss, v in zip(isna, s.tolist()):
        if miss and not (tag == "json" and v is None and False):
            out.append(None)
        elif t == 0:
            out.append(int(bool(v)) if isinstance(v, (bool, np.bool_, int, np.integer)) else ("?", repr(v)))
        elif t in (1, 2):
            if isinstance(v, float) and v == int(v):
                v = int(v)
            out.append(int(v) & (M32 if t == 1 else M64) if isinstance(v, (int, np.integer)) else ("?", repr(v)))
        elif tag == "json":
            out.append(("json", json.dumps(v, sort_keys=True)))
        elif isinstance(v, str):
            out.append(v.encode("utf-8"))
        elif isinstance(v, (bytes, bytearray, np.bytes_)):
            out.append(bytes(v))
        else:
            out.append(("?", repr(v)[:40]))
    return out


def cell_ok(e, g, leaf):
    """e: expected physical cell (None | int | {"b": hex}); g: from fp_cells"""
    if leaf["tag"] == "decimal":
        if e is None or g is None:
            return e is None and g is None
        return isinstance(g, tuple) and g[0] == "dec" and g[1] == decimal_expected(e, leaf)
    if isinstance(e, dict):
        e = bytes.fromhex(e["b"])
    if isinstance(g, tuple) and g[0] == "nan":
        if e is None:
            return True                                   # NULL of a float column comes back as NaN
        if isinstance(e, int):
            if leaf["type"] == 4:
                return (e & 0x7f800000) == 0x7f800000 and (e & 0x007fffff) != 0
            return (e & 0x7ff0000000000000) == 0x7ff0000000000000 and (e & 0x000fffffffffffff) != 0
        return False
    if isinstance(g, tuple) and g[0] == "json":
        if e is None:
            return g[1] == "null" and False
        try:
            return json.dumps(json.loads(e.decode("utf-8")), sort_keys=True) == g[1]
        except Exception:    # noqa
            return False
    if leaf["tag"] == "json" and g is None and e is not None:
        return e == b"null"                               # the JSON value null is read as a missing cell
    return e == g


def max_bp_width(lf):
    """largest width of a dictionary-index store that contains a bit-packed run"""
    w = -1
    for rg in lf["rgs"]:
        for c in rg:
            for it in c["items"]:
                if "store" in it and it["store"][0] == "dictidx" and any(r[0] == "b" for r in it["store"][3]):
                    w = max(w, it["store"][2])
    return w


def delta_widths(lf):
    """(largest miniblock width the minimal-width encoder uses, any v2 delta page on INT64?)"""
    mw, v2_64 = -1, False
    for rg in lf["rgs"]:
        for l, c in zip(lf["leaves"], rg):
            bits = 32 if l["type"] == 1 else 64
            for it in c["items"]:
                if "store" in it and it["store"][0] == "delta":
                    _, bs, mpb, zs = it["store"]
                    if it["v2"] and bits == 64:
                        v2_64 = True
                    half = 1 << (bits - 1)
                    ds = [((b - a + half) % (1 << bits)) - half for a, b in zip(zs[:-1], zs[1:])]
                    vpm = bs // mpb
                    for i in range(0, len(ds), bs):
                        blk = ds[i:i + bs]
                        md = min(blk)
                        for j in range(0, len(blk), vpm):
                            mw = max(mw, max(((d - md) % (1 << bits)).bit_length() for d in blk[j:j + vpm]))
    return mw, v2_64


def features(lf):
    f = {"max_bp_width": max_bp_width(lf)}
    f["max_delta_width"], f["v2_delta_int64"] = delta_widths(lf)
    f["v2_delta_with_nulls"] = f["v1_rle_bool"] = f["v2_rle_bool"] = f["raw"] = False
    for rg in lf["rgs"]:
        for l, c in zip(lf["leaves"], rg):
            for it in c["items"]:
                if "store" not in it:
                    continue
                k = it["store"][0]
                if k == "delta" and it["v2"] and l["optional"] and any(r[0] == "b" and 0 in r[1] or r[0] == "r" and r[2] == 0 for r in it["def"]):
                    f["v2_delta_with_nulls"] = True
                if k == "rlebool":
                    f["v2_rle_bool" if it["v2"] else "v1_rle_bool"] = True
                if k == "raw":
                    f["raw"] = True
    return f


def _np_values(values, t):
    """numpy result of core.read_data_page -> list of ints / bytes comparable with the model's output"""
    import numpy as np
    if values is None:
        return None
    if hasattr(values, "dtype") and values.dtype.kind in "iu":
        w = values.dtype.itemsize * 8
        return [int(v) & ((1 << w) - 1) for v in values.tolist()]
    if hasattr(values, "dtype") and values.dtype.kind == "b":
        return [int(v) for v in values.tolist()]
    if hasattr(values, "dtype") and values.dtype.kind == "f":
        return [int(v) for v in values.view("uint%d" % (values.dtype.itemsize * 8)).tolist()]
    if hasattr(values, "dtype") and values.dtype.kind == "S":
        return [int.from_bytes(bytes(v).ljust(values.dtype.itemsize, b"\0"), "little") if t == 3 else bytes(v).ljust(values.dtype.itemsize, b"\0")
                for v in values.tolist()]
    out = []
    for v in list(values):
        out.append(v.encode("utf-8") if isinstance(v, str) else bytes(v))
    return out


def model_vs_reader(pq, data, lf):
    """correspondence of Impl/RPages.v rd_data_page with core.read_data_page on every v1 data page of the file:
    -> list of (case, model, impl) that disagree, number of pages compared"""
    import numpy as np
    from fastparquet import core, schema
    from fastparquet.cencoding import NumpyIO
    from harness import pqfile, fmtlib
    fmd, _ = pqfile.read_footer(data)
    helper = schema.SchemaHelper(fmd.schema)
    bad, n = [], 0
    for rg in fmd.row_groups:
        for col, l in zip(rg.columns, lf["leaves"]):
            cmd = col.meta_data
            pages, _, _ = pqfile.chunk_pages(data, cmd)
            for pg in pages:
                if pg["type"] != 0:
                    continue
                payload = pg["payload"]
                raw = payload if not cmd.codec else fmtlib.CODECS[cmd.codec][1](payload, pg["uncompressed_page_size"])
                m = pq.call("fmt_rd_data_page", 0, l["type"], l["tlen"], 1 if l["optional"] else 0, pg["num_values"], pg["encoding"], raw)
                if m[0] == b"ok":
                    model = ["ok", (list(m[1][0]) if m[1] else None), [c for c in m[3]]]
                else:
                    model = [m[0].decode()]
                try:
                    if len(payload) == 0:
                        raise ValueError("empty payload")
                    defi, rep, val = core.read_data_page(NumpyIO(np.frombuffer(payload, "uint8")), helper, pg["ph"], cmd, False, selfmade=False)
                    impl = ["ok", (None if defi is None else [int(x) for x in defi]), _np_values(val, l["type"])]
                except NotImplementedError:
                    impl = ["uns"]
                except Exception as e:     # noqa
                    impl = ["bad"]
                n += 1
                if model != impl and not (model[0] == "bad" and impl[0] == "bad"):
                    if len(payload) == 0:
                        continue
                    bad.append(({"leaf": l["tag"], "optional": l["optional"], "enc": pg["encoding"], "n": pg["num_values"], "raw": raw.hex()[:400]},
                                repr(model)[:300], repr(impl)[:300]))
    return bad, n


def chunk_model_cells(pq, data, lf, tbl):
    """Impl/RChunk.rd_chunk on every column chunk of the file -> {name: [cells over the row groups]} or (None, why)"""
    from harness import pqfile
    fmd, _ = pqfile.read_footer(data)
    out = {l["name"]: [] for l in lf["leaves"]}
    for rg in fmd.row_groups:
        for col, l in zip(rg.columns, lf["leaves"]):
            m = col.meta_data
            start = m.data_page_offset if m.dictionary_page_offset is None else min(m.data_page_offset, m.dictionary_page_offset)
            chunk = data[start:start + m.total_compressed_size]
            inplace = 1 if l["type"] in (1, 2, 3, 4, 5) else 0
            r = pq.call("fmt_rd_chunk", inplace, l["type"], l["tlen"], 1 if l["optional"] else 0, m.codec or 0, m.num_values, chunk,
                        [list(p) for p in tbl])
            if r[0] != b"ok":
                return None, "%s %s" % (r[0].decode(), r[1].decode() if len(r) > 1 else "")
            out[l["name"]].extend([None if c == [] else c for c in r[1]])
    return out, None


def run_case(lf, table, scratch, cats=False, kv=False, light=False, pf_kwargs=None):
    """encode with the spec encoder, read with fastparquet -> dict(outcome, problems, ...)"""
    from harness import fmtlib
    pq = _pq()
    res = {"problems": [], "spec": "ok"}
    data, tbl = fmtlib.encode_file(pq, lf)
    if lf.get("spec_stats"):
        data = fmtlib.add_spec_stats(pq, data, lf["spec_stats"])       # Statistics.min_value / max_value / null_count as the format prescribes
    # the specification-level decoder reads the file back to the table (instance of the proved round trip)
    fm = fmtlib.Fmt(pq)
    d = fm.decode(data, True, tbl)
    if d[0] == "ok":
        got = fmtlib.columns_of(d[1], d[2])
        exp = {k: [bytes.fromhex(c["b"]) if isinstance(c, dict) else c for c in v] for k, v in table.items()}
        if got != exp:
            res["spec"] = "spec decoder disagrees with the generator's table"
    elif not features(lf)["raw"]:
        res["spec"] = "spec decoder: %s %s" % (d[0], d[1])
    if light:
        res["valid"] = "skipped (big pages)"
    else:
        v = fm.validate(data, True, tbl)
        res["valid"] = v[0] + ((": " + v[1]) if len(v) > 1 else "")
    res["model_bad"], res["model_pages"] = [], 0
    if light:
        res["chunk_model"] = None
    elif not features(lf)["raw"]:
        try:
            res["model_bad"], res["model_pages"] = model_vs_reader(pq, data, lf)
        except Exception as e:    # noqa
            import traceback
            res["model_bad"] = [({"harness": "model_vs_reader"}, "exception", traceback.format_exc()[-600:])]
    res["chunk_model"] = None
    if not light and not features(lf)["raw"]:
        try:
            res["chunk_model"] = chunk_model_cells(pq, data, lf, tbl)
        except Exception as e:    # noqa
            res["chunk_model"] = (None, "harness: %s" % e)
    fn = os.path.join(scratch, "c03.parquet")
    with open(fn, "wb") as f:
        f.write(data)
    import fastparquet
    try:
        if cats:
            df = fastparquet.ParquetFile(fn, **(pf_kwargs or {})).to_pandas(categories=[l["name"] for l in lf["leaves"]])
        else:
            df = fastparquet.ParquetFile(fn, **(pf_kwargs or {})).to_pandas()
    except Exception as e:   # noqa
        import traceback
        res["outcome"] = "raised"
        res["err"] = "%s: %s" % (type(e).__name__, str(e)[:200])
        res["tb"] = traceback.format_exc()[-1200:]
        return res
    res["outcome"] = "ok"
    n = len(next(iter(table.values()))) if table else 0
    if len(df) != n:
        res["problems"].append(("rows", "%d rows encoded, %d read" % (n, len(df))))
    for l in lf["leaves"]:
        if l["name"] not in df.columns:
            res["problems"].append(("schema", "column %s missing" % l["name"]))
            continue
        s = df[l["name"]]
        if kv and l["tag"] in TS_TAGS + ("date",) and (getattr(s.dtype, "kind", "O") == "M" or hasattr(s.dtype, "tz")):
            pass      # with application metadata the unit / zone of a datetime column may be the recorded one: kind and width are what the schema implies
        elif not cats and str(s.dtype) not in DTYPES[l["tag"]] and not (l["optional"] and str(s.dtype) == "float64" and l["type"] in (1, 2)):
            res["problems"].append(("dtype", "column %s (%s): dtype %s, schema implies %s" % (l["name"], l["tag"], s.dtype, "/".join(DTYPES[l["tag"]]))))
        got = fp_cells(s, l)
        exp = table[l["name"]]
        res.setdefault("fp_cells", {})[l["name"]] = got
        if len(got) != len(exp):
            continue
        bad = [(i, e, g) for i, (e, g) in enumerate(zip(exp, got)) if not cell_ok(e, g, l)]
        # numpy 'S' arrays drop trailing NUL bytes: a FIXED_LEN_BYTE_ARRAY value ending in 0x00 comes back shorter (known finding)
        nul = l["type"] == 7 and l["tag"] == "flba" and bad and all(
            isinstance(e, dict) and isinstance(g, bytes) and bytes.fromhex(e["b"]).rstrip(b"\0") == g for _, e, g in bad)
        # DATE is converted through datetime64[ns]: a day outside 1677-09-22 .. 2262-04-11 wraps around silently (known finding)
        def _sd(x):
            return x - (1 << 32) if isinstance(x, int) and x >> 31 else x
        far = l["tag"] == "date" and bad and all(isinstance(e, int) and abs(_sd(e)) > 106751 for _, e, g in bad)
        for i, e, g in bad[:2]:
            res["problems"].append(("flba-trailing-nul" if nul else "date-beyond-ns-range" if far else "decode",
                                    "column %s (%s) row %d: file encodes %r, fastparquet returns %r" % (l["name"], l["tag"], i, e, g)))
    if kv:
        res["alloc_obs"] = alloc_observations(lf, table, df)
    if res["problems"]:
        res["outcome"] = "differs"
    # model of the chunk reader against what the real reader returned (cell by cell, physical bit patterns)
    cm = res.get("chunk_model")
    res["chunk_corr"] = None
    if cm is not None and not cats:
        cells, why = cm
        if cells is None:
            res["chunk_corr"] = ("model: " + why, "reader: ok")
        else:
            for l in lf["leaves"]:
                got = res.get("fp_cells", {}).get(l["name"])
                mc = cells[l["name"]]
                if got is None or len(got) != len(mc) or not all(cell_ok(e, g, l) for e, g in zip(mc, got)):
                    res["chunk_corr"] = ("column %s: %r" % (l["name"], mc[:8]), "%r" % (None if got is None else got[:8]))
                    break
            else:
                res["chunk_corr"] = "agree"
    res.pop("fp_cells", None)
    res.pop("chunk_model", None)
    return res


def alloc_observations(lf, table, df):
    """for the timestamp columns of a file with a 'pandas' entry: (recorded unit | None, stored tag, stored count, unit of the column
    the real reader returned, count in that unit) for up to 3 non-NULL cells per column - the input of the Impl/RAlloc.v tie"""
    import re
    import numpy as np
    import pandas as pd
    rec = {}
    for k, v in lf.get("kv") or []:
        if k == "pandas":
            for c in json.loads(v).get("columns", []):
                m = re.match(r"datetime64\[(\w+)", c.get("numpy_type") or "")
                rec[c.get("name")] = m.group(1) if m else None
    out = []
    for l in lf["leaves"]:
        if l["tag"] not in ("ts_ms", "ts_us", "ts_ns") or l["name"] not in df.columns:
            continue
        s = df[l["name"]]
        if isinstance(s.dtype, pd.DatetimeTZDtype):
            s = s.dt.tz_convert("UTC").dt.tz_localize(None)
        if getattr(s.dtype, "kind", "O") != "M":
            continue
        arr = s.values
        unit = np.datetime_data(arr.dtype)[0]
        iv = arr.view("int64")
        cells = table[l["name"]]
        if len(cells) != len(iv):
            continue
        k = 0
        for e, g in zip(cells, iv):
            if e is None:
                continue
            sv = e - (1 << 64) if e >> 63 else e
            if sv == -(1 << 63):
                continue
            out.append([rec.get(l["name"]), l["tag"], sv, unit, int(g)])
            k += 1
            if k >= 3:
                break
    return out


def alloc_tie(ctx, obs):
    """Impl/RAlloc.read_ts (unit from the entry, numpy cast on assignment) evaluated in coqc = unit and count of the column the
    real reader returned"""
    U = {"s": "WS", "ms": "WMs", "us": "WUs", "ns": "WNs"}
    T = {"ts_ms": "TMs", "ts_us": "TUs", "ts_ns": "TNs"}
    seen, todo = set(), []
    for o in obs:
        key = (o[0], o[1], o[2])
        if key in seen or o[0] not in (None, "s", "ms", "us", "ns"):
            continue
        seen.add(key)
        todo.append(o)
    todo = todo[:120]
    if not todo:
        return
    req = "From Coq Require Import ZArith.\nFrom Pq Require Import Impl.RConvert Impl.WConvert Impl.RAlloc.\nOpen Scope Z_scope."
    exprs = ["read_ts %s %s (%d)" % ("None" if o[0] is None else "(Some %s)" % U[o[0]], T[o[1]], o[2]) for o in todo]
    outs = C.vm_eval(req, exprs, "(wunit * Z)%type", os.path.join(ctx.scratch, "alloc"), tag="alloc")
    for o, r in zip(todo, outs):
        try:
            p = C.parse_coq(r)
            mu = p[0][0] if isinstance(p[0], tuple) else p[0]
            model = [{"WS": "s", "WMs": "ms", "WUs": "us", "WNs": "ns"}[mu], int(p[1])]
        except Exception as e:    # noqa
            model = ["unparsed", str(r)[:80]]
        ctx.correspondence("Impl/RAlloc.read_ts (unit recorded by the 'pandas' entry, numpy cast on assignment) = unit and count of the "
                           "timestamp column the real reader returns", {"recorded": o[0], "stored": o[1], "value": o[2]}, model, [o[3], o[4]])


VIEW_MODULES = ["compression", "core", "encoding", "converted_types"]


def translate_views(ctx):
    """translators/views2coq.py: inventory of module-level / thread-local buffers of the reader modules and of the functions they escape
    through, regenerated from the working tree; genproofs/GenViewsProofs.v: the inventory is empty, hence no page is decoded over the
    dictionary read_col holds (Impl/RAlias.v)"""
    import subprocess
    srcs = [os.path.join(C.REPO, "fastparquet", m + ".py") for m in VIEW_MODULES]
    p = subprocess.run([C.PY, os.path.join(C.VERIF, "translators", "views2coq.py")] + srcs, stdout=subprocess.PIPE, stderr=subprocess.PIPE)
    if p.returncode != 0:
        ctx.notes.append("translator_fallback: views2coq refused the source (%s); the dynamic aliasing check remains" % p.stderr.decode()[-300:].strip())
        ctx.extra["translator_views2coq"] = "fallback"
        return
    txt = p.stdout.decode()
    gen = os.path.join(ctx.gen_dir, "GenViews.v")
    if not os.path.exists(gen) or open(gen).read() != txt:
        open(gen, "w").write(txt)
    ok, out = C.coqc(gen, extra_q=[(ctx.gen_dir, "PqGen")])
    ctx.obligation("GenViews.v (inventory of long-lived buffers of the reader modules, regenerated) compiles", ok, out)
    if ok:
        gp = os.path.join(ctx.gen_dir, "GenViewsProofs.v")
        shutil.copy(os.path.join(C.COQ, "genproofs", "GenViewsProofs.v"), gp)
        ctx.coq_file(gp, extra_q=[(ctx.gen_dir, "PqGen")])
    ctx.extra["translator_views2coq"] = "translated"
    import re
    ctx.extra["reader_module_buffers"] = re.findall(r'Definition module_buffers[^\[]*\[(.*?)\]\.', txt, re.S)[:1]


def aliasing_oracle(ctx):
    """results held across calls: what decompress_data / read_plain / read_dictionary_page returned for one page must not change when
    the next page is decoded (every codec, sizes around 64 KiB and larger, same thread)"""
    import numpy as np
    C.use_shadow()
    from fastparquet import compression, encoding
    from fastparquet.compression import compress_data, decompress_data
    rng = ctx.rng
    for algo in ["SNAPPY", "GZIP", "LZ4", "ZSTD", "BROTLI", "LZ4_RAW", "UNCOMPRESSED"]:
        for size in (1000, 65535, 65536, 65537, 200000):
            a = np.frombuffer(bytes(rng.randrange(256) for _ in range(256)) * (size // 256 + 1), "uint8")[:size].copy()
            b = np.frombuffer(bytes(rng.randrange(256) for _ in range(256)) * (size // 256 + 1), "uint8")[:size].copy()
            case = {"aliasing": "decompress_data twice", "codec": algo, "size": size}
            try:
                ca, cb = compress_data(a.tobytes(), algo), compress_data(b.tobytes(), algo)
                first = decompress_data(np.frombuffer(ca, "uint8"), size, algo)
                held = encoding.read_plain(first, 2, size // 8)              # INT64 view of the page, as a dictionary would be
                snapshot = np.array(held, copy=True)
                second = decompress_data(np.frombuffer(cb, "uint8"), size, algo)
                ok = bool((np.asarray(held) == snapshot).all()) and bytes(np.asarray(second).tobytes()) == b.tobytes()
            except Exception as e:      # noqa: a codec that is not available is not an aliasing problem
                ctx.count("aliasing_codec_unavailable", "%s: %s" % (algo, type(e).__name__))
                continue
            ctx.case(case)
            if not ok:
                ctx.fail({"component": "buffer lifetime", "codec": algo, "big": size >= 65536}, case,
                         "the values read from a %d-byte %s page changed when the next page was decompressed" % (size, algo))


def leaf_tag(l):
    """tag of harness/fmtgen.COLTYPES for a decoded leaf (physical, converted, logical), or None"""
    for (t, c, lg, tag) in G.COLTYPES:
        if t == l["type"] and c == l["conv"] and (lg is None) == (l["logical"] is None or l["logical"][0] != 8):
            return tag
    if l["type"] == 2 and l["logical"] and l["logical"][0] == 8:
        return {1: "ts_ms", 2: "ts_us", 3: "ts_ns"}.get(l["logical"][1])
    return None


def _job_testdata(exp):
    """a third-party file of $REPO/test-data: spec validator/decoder vs the real reader (flat columns)"""
    import hashlib
    from harness import fmtlib
    import fastparquet
    path = os.path.join(C.REPO, "test-data", exp["file"])
    data = open(path, "rb").read()
    res = {"problems": [], "spec": "ok", "valid": "?", "features": {"max_bp_width": -1, "max_delta_width": -1, "v2_delta_int64": False,
           "v2_delta_with_nulls": False, "v1_rle_bool": False, "v2_rle_bool": False, "raw": False}, "model_bad": [], "model_pages": 0}
    r = {"verdict": "?"}
    try:
        r = fmtlib.Fmt(_pq()).check(data)
        res["valid"] = r["verdict"] + ((": " + str(r["why"])) if r.get("why") else "")
    except Exception as e:    # noqa
        res["valid"] = "harness: %s" % e
    try:
        pf = fastparquet.ParquetFile(path)
        if exp.get("pre") == "dtypes":
            pf._dtypes(exp["kwargs"].get("categories"))
        df = pf.to_pandas(**exp.get("kwargs", {}))
    except Exception as e:   # noqa
        import traceback
        res["outcome"] = "raised"
        res["err"] = "%s: %s" % (type(e).__name__, str(e)[:200])
        res["tb"] = traceback.format_exc()[-800:]
        return res
    res["outcome"] = "ok"
    res["digest"] = hashlib.sha256(df.to_json(default_handler=repr).encode()).hexdigest()[:16]
    if r.get("verdict") == "bad":
        # third-party bookkeeping quirks (legacy writers) do not prevent decoding: compare what the lenient spec decoder reads
        d = fmtlib.Fmt(_pq()).decode(data, False)
        if d[0] == "ok":
            r = {"verdict": "decoded", "leaves": d[1], "rgs": d[2]}
            res["valid"] += " | lenient decode ok"
    if r.get("verdict") in ("ok", "decoded"):
        cols = fmtlib.columns_of(r["leaves"], r["rgs"])
        for l in r["leaves"]:
            tag = leaf_tag(l)
            if tag is None or l["name"] not in df.columns:
                continue
            lt = dict(l, tag=tag, optional=bool(l["maxdef"]))
            got = fp_cells(df[l["name"]], lt)
            exp_cells = cols[l["name"]]
            if len(got) != len(exp_cells):
                res["problems"].append(("rows", "column %s: %d cells in the file, %d read" % (l["name"], len(exp_cells), len(got))))
                continue
            bad = [(i, e, g) for i, (e, g) in enumerate(zip(exp_cells, got)) if not cell_ok(e, g, lt)]
            for i, e, g in bad[:2]:
                res["problems"].append(("decode", "column %s (%s) row %d: file encodes %r, fastparquet returns %r" % (l["name"], tag, i, e, g)))
    if res["problems"]:
        res["outcome"] = "differs"
    return res


def _job(job):
    lf, table, expect = job
    if expect.get("file"):
        try:
            return _job_testdata(expect)
        except Exception:   # noqa
            import traceback
            return {"outcome": "harness-error", "err": traceback.format_exc()[-1500:], "problems": []}
    tmp = tempfile.mkdtemp(prefix="verif-C03w-", dir=_SCRATCH)
    try:
        try:
            res = run_case(lf, table, tmp, cats=bool(expect.get("categories")), kv=bool(expect.get("kv")), light=bool(expect.get("light")), pf_kwargs=expect.get("pf_kwargs"))
        except Exception:   # noqa
            import traceback
            return {"outcome": "harness-error", "err": traceback.format_exc()[-1500:], "problems": []}
        res["features"] = features(lf)
        return res
    finally:
        shutil.rmtree(tmp, ignore_errors=True)


def _chunk_child(sub, start, outpath):
    with open(outpath, "a") as f:
        for i in range(start, len(sub)):
            r = _job(sub[i])
            r.pop("tb", None) if r.get("outcome") == "ok" else None
            f.write(json.dumps([i, r], default=repr) + "\n")
            f.flush()
    if _PQ is not None:
        _PQ.close()
    os._exit(0)


def run_robust(jobs, scratch, nproc=8, stall=120):
    """run _job on every job in forked children; a child that dies (segfault in native code) or stalls is an
    observation for the job it was working on, and the rest of its chunk continues in a fresh child"""
    import time
    from concurrent.futures import ThreadPoolExecutor
    ctxmp = mp.get_context("fork")
    chunks = [list(range(k, len(jobs), nproc)) for k in range(nproc)]

    def runner(ci):
        idxs = chunks[ci]
        sub = [jobs[i] for i in idxs]
        out = os.path.join(scratch, "c03_out_%d.jsonl" % ci)
        open(out, "w").close()
        results, start = {}, 0
        while start < len(sub):
            p = ctxmp.Process(target=_chunk_child, args=(sub, start, out))
            p.start()
            last, lastsize, killed = time.time(), -1, False
            while p.is_alive():
                p.join(0.5)
                sz = os.path.getsize(out)
                if sz != lastsize:
                    lastsize, last = sz, time.time()
                elif time.time() - last > stall:
                    p.kill()
                    p.join()
                    killed = True
                    break
            done = start - 1
            for line in open(out):
                try:
                    i, r = json.loads(line)
                except ValueError:
                    continue
                results[i] = r
                done = max(done, i)
            if done + 1 >= len(sub):
                break
            results[done + 1] = {"outcome": "crash", "err": ("no progress for %ds (killed)" % stall) if killed else
                                 "reader process died with exit code %s" % p.exitcode, "problems": [],
                                 "features": (features(sub[done + 1][0]) if sub[done + 1][0] else
                                              {"max_bp_width": -1, "max_delta_width": -1, "v2_delta_int64": False, "v2_delta_with_nulls": False,
                                               "v1_rle_bool": False, "v2_rle_bool": False, "raw": False}),
                                 "spec": "ok", "valid": "?", "model_bad": [], "model_pages": 0}
            start = done + 2
        return {idxs[i]: r for i, r in results.items()}

    allres = {}
    with ThreadPoolExecutor(nproc) as ex:
        for part in ex.map(runner, range(nproc)):
            allres.update(part)
    return [allres[i] for i in range(len(jobs))]


# wave 3: application metadata of ANOTHER writer.  A foreign file may carry a 'pandas' key-value entry (pyarrow and others
# write one) whose per-column numpy_type / pandas_type describe the frame the writer started from, not what is stored:
# timestamps recorded as datetime64[ns] but stored as TIMESTAMP_MILLIS / MICROS (coerce_timestamps, format version 1.0),
# any unit against any stored unit, arrow's swapped nullable names, time zones, a range-index descriptor, columns not named.
# The values the file encodes do not depend on that entry (Proofs/EncKVProofs.v: the typed footer view ignores field 5).
PANDAS_NATURAL = {
    "bool": ("bool", "bool"), "int32": ("int32", "int32"), "int32c": ("int32", "int32"), "int8": ("int8", "int8"), "int16": ("int16", "int16"),
    "uint8": ("uint8", "uint8"), "uint16": ("uint16", "uint16"), "uint32": ("uint32", "uint32"), "int64": ("int64", "int64"),
    "int64c": ("int64", "int64"), "uint64": ("uint64", "uint64"), "date": ("date", "object"), "ts_ms": ("datetime", "datetime64[ns]"),
    "ts_us": ("datetime", "datetime64[ns]"), "ts_ns": ("datetime", "datetime64[ns]"), "int96": ("datetime", "datetime64[ns]"),
    "time_ms": ("time", "object"), "time_us": ("time", "object"), "float": ("float32", "float32"), "double": ("float64", "float64"),
    "bytes": ("bytes", "object"), "flba": ("bytes", "object"), "utf8": ("unicode", "object"), "json": ("unicode", "object"),
    "decimal": ("decimal", "object"),
}
TS_TAGS = ("ts_ms", "ts_us", "ts_ns", "int96")


INT_TAGS = ("bool", "int32", "int32c", "int64", "int64c", "int8", "int16", "uint8", "uint16", "uint32", "uint64")
UNIT_NS = {"s": 10**9, "ms": 10**6, "us": 10**3, "ns": 1}
STORED_UNIT = {"ts_ms": "ms", "ts_us": "us", "ts_ns": "ns", "int96": "ns"}


def _scale_values(lf, table, name, ci, k):
    """multiply every stored value of INT64 column `ci` by k (two's complement): the column then holds multiples of a coarser unit"""
    def sc(v):
        sv = v - (1 << 64) if v >> 63 else v
        return (sv * k) & M64
    for rg in lf["rgs"]:
        for it in rg[ci]["items"]:
            if "dict" in it:
                it["vals"] = [sc(v) for v in it["vals"]]
            elif it["store"][0] == "plain":
                it["store"][1] = [sc(v) for v in it["store"][1]]
    table[name] = [None if v is None else sc(v) for v in table[name]]


def pandas_meta(rng, lf, mode, nrows, table=None):
    """the JSON text of a 'pandas' entry for the layout, as a foreign writer would attach it"""
    cols = []
    for ci, l in enumerate(lf["leaves"]):
        pt, nt = PANDAS_NATURAL[l["tag"]]
        meta = None
        has_null = table is not None and any(c is None for c in table[l["name"]])
        if l["tag"] in INT_TAGS and has_null:
            # a pandas integer / bool column cannot hold a missing value: the frame had a float / object / nullable column
            ext = "boolean" if l["tag"] == "bool" else nt.replace("uint", "UInt").replace("int", "Int") if nt.startswith("u") else nt.replace("int", "Int")
            pt, nt = rng.choice([("float64", "float64"), ("object", "object"), (nt, ext), (ext, nt) if False else (ext, ext)])
            if l["tag"] == "bool" and pt == "float64":
                pt, nt = "object", "object"
        if mode == "coarse" and l["tag"] in ("ts_ms", "ts_us", "ts_ns") and table is not None:
            # the frame had a coarser unit than the file can store (datetime64[s] -> TIMESTAMP_MILLIS ...): multiples are stored
            su = STORED_UNIT[l["tag"]]
            coarser = [u for u in ("s", "ms", "us") if UNIT_NS[u] > UNIT_NS[su]]
            if coarser and all(it.get("dict") is not None or it["store"][0] == "plain" for rg in lf["rgs"] for it in rg[ci]["items"]):
                u = rng.choice(coarser)
                k = UNIT_NS[u] // UNIT_NS[su]
                if all(v is None or abs((v - (1 << 64) if v >> 63 else v) * k) < (1 << 62) for v in table[l["name"]]):
                    _scale_values(lf, table, l["name"], ci, k)
                    nt = "datetime64[%s]" % u
        if l["tag"] in TS_TAGS:
            if mode in ("unit", "mixed"):
                # any unit at least as fine as the stored one (pyarrow records datetime64[ns] whatever it stores)
                su = STORED_UNIT[l["tag"]]
                nt = "datetime64[%s]" % rng.choice([u for u in ("ms", "us", "ns") if UNIT_NS[u] <= UNIT_NS[su]])
            if mode in ("tz", "mixed") and rng.random() < 0.7:
                pt, meta = "datetimetz", {"timezone": rng.choice(["UTC", "Europe/Berlin", "+05:30", "-00:45", "Asia/Kolkata"])}
        elif mode in ("nullable", "mixed") and not has_null and l["tag"] in ("bool", "int32", "int64", "int8", "int16", "uint8", "uint16", "uint32", "uint64") and rng.random() < 0.7:
            ext = "boolean" if l["tag"] == "bool" else nt.replace("int", "Int").replace("uInt", "UInt")
            pt, nt = (nt, ext) if rng.random() < 0.5 else (ext, nt)        # arrow has the two swapped
        elif l["tag"] == "date" and mode in ("unit", "mixed") and rng.random() < 0.5:
            pt, nt = "datetime", "datetime64[%s]" % rng.choice(["ms", "ns"])
        elif l["tag"] == "decimal":
            meta = {"precision": l.get("precision") or 9, "scale": l.get("scale") or 0}
        cols.append({"name": l["name"], "field_name": l["name"], "pandas_type": pt, "numpy_type": nt, "metadata": meta})
    if mode == "partial" and cols:
        cols = cols[1:] if rng.random() < 0.5 else []
    doc = {"index_columns": [{"kind": "range", "name": None, "start": 0, "stop": nrows, "step": 1}] if rng.random() < 0.6 else [],
           "column_indexes": [{"name": None, "field_name": None, "pandas_type": "unicode", "numpy_type": "object", "metadata": {"encoding": "UTF-8"}}],
           "columns": cols, "creator": {"library": "pyarrow", "version": "14.0.2"}, "pandas_version": "2.1.4"}
    return json.dumps(doc)


def gen_jobs(ctx):
    rng = ctx.rng
    quick = ctx.quick()
    jobs = []

    def add(knobs, expect="decode", stream="random"):
        lf, table = G.gen_lfile(rng, knobs)
        jobs.append((lf, table, {"expect": expect, "stream": stream}))

    # 0. corpus of minimised past disagreements
    import glob
    for fn in sorted(glob.glob(os.path.join(C.VERIF, "corpus", "C03", "*.json"))):
        c = json.load(open(fn))
        if "file" in c.get("expect", {}):
            if os.path.exists(os.path.join(C.REPO, "test-data", c["expect"]["file"])):
                for _ in range(c["expect"].get("repeat", 1)):
                    jobs.append((None, {}, c["expect"]))
        else:
            jobs.append((c["lfile"], c["table"], c["expect"]))
    # 0b. thorough tier: every intact third-party file of test-data through the spec decoder and the real reader
    if not quick:
        td = os.path.join(C.REPO, "test-data")
        for fn in sorted(os.listdir(td)):
            p = os.path.join(td, fn)
            if os.path.isfile(p) and fn.endswith(".parquet") and os.path.getsize(p) > 12:
                jobs.append((None, {}, {"expect": "testdata", "stream": "test-data", "file": fn, "kwargs": {}}))
    # 0c. deterministic block (identical on every run, no sampling): DECIMAL over FIXED_LEN_BYTE_ARRAY of width 1,2,3,5,7,8,9,16 /
    #     BYTE_ARRAY / INT32 / INT64 x {negative, zero, positive, min, max} x PLAIN/dictionary x required/optional x v1/v2, and every
    #     converted/logical type with its sign and extreme values - so that every branch of converted_types.convert is exercised
    for lf, table in G.fixed_block():
        jobs.append((lf, table, {"expect": "decode", "stream": "fixed-types"}))
    # 1. random layouts in the region the reader is supposed to support
    for _ in range(260 if quick else 14000):
        add({"width": None, "created_by": rng.choice(["spec-encoder", "parquet-mr version 1.12.3", "parquet-mr", "", "impala version 2.6.0",
                                                      "parquet-cpp version 1.5.1-SNAPSHOT", "fastparquet"])})
    # 2. every column type x v1/v2 x optional/required, one chunk, PLAIN and dictionary
    for ct in G.COLTYPES:
        for v2 in (False, True):
            for enc in (["plain"], ["dict"]):
                for _ in range(1 if quick else 4):
                    add({"coltype": ct, "v2": v2, "encs": enc, "ncols": 1, "created_by": "spec-encoder"}, stream="types")
    # 3. dictionary index widths 0..32 x run patterns (bit-packed runs of width >= 25 are the known-bad region)
    for w in range(0, 33):
        for _ in range(2 if quick else 20):
            add({"coltype": rng.choice([G.COLTYPES[1], G.COLTYPES[10], G.COLTYPES[21]]), "encs": ["dict"], "width": w, "ncols": 1,
                 "nrgs": 1, "rows": rng.choice([1, 7, 8, 9, 40, 200]), "second_dict": False, "created_by": "spec-encoder"},
                stream="width-lattice")
    # 4. delta shapes x widths
    for dbits in list(range(0, 33)) + ([40, 48, 56] if not quick else []):
        for _ in range(1 if quick else 12):
            ct = rng.choice([G.COLTYPES[1], G.COLTYPES[10]])
            if dbits > 31 and ct[0] == 1:
                ct = G.COLTYPES[10]
            add({"coltype": ct, "encs": ["delta"], "delta_bits": dbits, "ncols": 1, "nrgs": 1, "rows": rng.choice([1, 2, 33, 129, 300]),
                 "optional": rng.random() < 0.3, "created_by": "spec-encoder"}, stream="delta-lattice")
    # 5. page boundary at every row of short columns; several row groups
    for _ in range(30 if quick else 1200):
        add({"split": "every-row", "rows": rng.choice([1, 2, 3, 5, 9, 12]), "created_by": "spec-encoder"}, stream="every-row")
    # 6. RLE booleans, second dictionary page in a chunk, dictionary fallback
    for _ in range(20 if quick else 200):
        add({"coltype": G.COLTYPES[0], "encs": ["rlebool"], "ncols": 1, "created_by": "spec-encoder"}, stream="rle-bool")
    for _ in range(30 if quick else 300):
        add({"encs": ["dict", "dict", "plain"], "second_dict": True, "split": "some", "rows": rng.choice([9, 40, 65]),
             "ncols": 1, "created_by": "spec-encoder"}, stream="dict-pages")
    # 6b. the same dictionary-encoded chunks read as categoricals (categories=[column]): v1/v2, index widths 0..9,
    #     several runs, NULLs
    for w in [0, 1, 2, 3, 5, 7, 8, 9]:
        for v2 in (False, True):
            for _ in range(1 if quick else 6):
                lf, table = G.gen_lfile(rng, {"coltype": rng.choice([G.COLTYPES[21], G.COLTYPES[10]]), "encs": ["dict"], "width": w, "ncols": 1,
                                              "nrgs": 1, "rows": rng.choice([1, 9, 40, 65]), "second_dict": False, "v2": v2, "split": "one",
                                              "created_by": "spec-encoder"})
                jobs.append((lf, table, {"expect": "decode", "stream": "categories", "categories": True}))
    # 6c. foreign files WITH a 'pandas' key-value entry that agrees / disagrees with the physical schema (units, nullable names,
    #     zones, columns not named): every reader path (v1 PLAIN, dictionary, v2, DELTA) must return what the file encodes
    ts_types = [ct for ct in G.COLTYPES if ct[3] in TS_TAGS + ("date",)]
    int_types = [ct for ct in G.COLTYPES if ct[3] in ("bool", "int32", "int64", "int8", "uint16", "uint64")]
    for mode in ["agree", "unit", "unit", "coarse", "tz", "nullable", "mixed", "partial"]:
        for v2 in (False, True):
            for encs in (["plain"], ["dict"], None):
                for _ in range(1 if quick else 8):
                    pool = ts_types if mode in ("unit", "tz", "coarse") else int_types if mode == "nullable" else G.COLTYPES
                    if mode == "coarse" and not encs:
                        encs = ["plain", "dict"]
                    knobs = {"coltype": rng.choice(pool) if rng.random() < 0.8 else None, "v2": v2, "ncols": rng.choice([1, 2]),
                             "nrgs": rng.choice([1, 2]), "rows": rng.choice([1, 5, 9, 40]),
                             "created_by": rng.choice(["parquet-cpp-arrow version 14.0.2", "parquet-mr version 1.12.3", "spec-encoder"])}
                    if encs:
                        knobs["encs"] = encs
                    lf, table = G.gen_lfile(rng, knobs)
                    lf["kv"] = [["pandas", pandas_meta(rng, lf, mode, sum(len(v) for v in list(table.values())[:1]), table)]]
                    if rng.random() < 0.3:
                        lf["kv"].append(["ARROW:schema", "AAAA"])
                    jobs.append((lf, table, {"expect": "decode", "stream": "pandas-metadata", "kv": mode}))
    # 6d. created_by is just a string: files whose created_by CONTAINS "fastparquet" (another version, another tool naming it)
    #     in layouts fastparquet itself never writes - index runs of width 8/16/32 that are RLE or mixed, definition levels
    #     present as several runs / bit-packed while the statistics say null_count = 0 - must decode exactly
    for w in (8, 16, 32, 8, 16):
        for v2 in (False, True):
            for _ in range(1 if quick else 6):
                add({"coltype": rng.choice([G.COLTYPES[1], G.COLTYPES[10], G.COLTYPES[21]]), "encs": ["dict"], "width": w, "ncols": 1, "nrgs": 1,
                     "rows": rng.choice([7, 9, 40, 200]), "second_dict": False, "v2": v2, "optional": rng.random() < 0.5,
                     "created_by": rng.choice(["fastparquet-python version 0.7.1 (build 0)", "other-tool 1.0 (fastparquet compatible)"])},
                    stream="created-by-fastparquet")
    for _ in range(16 if quick else 300):
        add({"created_by": "fastparquet-python version 2024.2.0 (build 0)", "optional": True if rng.random() < 0.7 else None,
             "width": rng.choice([None, 8, 16])}, stream="created-by-fastparquet")
    # 6e. the same files read AS CATEGORICALS (categories=[column]; the v2 fast path copies bytes over the codes array): dictionaries with
    #     unused entries so that the item size of the codes array (1 / 2 bytes) differs from the index width, full last groups, NULLs
    for w in (8, 16):
        for v2 in (False, True):
            for extra in (0, 200):
                for opt in (False, True):
                    for _ in range(1 if quick else 5):
                        lf, table = G.gen_lfile(rng, {"coltype": rng.choice([G.COLTYPES[21], G.COLTYPES[10]]), "encs": ["dict"], "width": w, "ncols": 1,
                                                      "nrgs": 1, "rows": rng.choice([4, 8, 9, 40]), "second_dict": False, "v2": v2, "split": "one",
                                                      "optional": opt, "created_by": "fastparquet-python version 0.7.1 (build 0)"})
                        if extra:
                            for it in lf["rgs"][0][0]["items"]:
                                if "dict" in it:
                                    have = set(json.dumps(v, sort_keys=True) for v in it["vals"])
                                    more = [({"b": ("x%03d" % i).encode().hex()} if lf["leaves"][0]["tag"] == "utf8" else 10 ** 12 + i) for i in range(extra)]
                                    it["vals"] = it["vals"] + [v for v in more if json.dumps(v, sort_keys=True) not in have]
                        jobs.append((lf, table, {"expect": "decode", "stream": "created-by-fastparquet-categories", "categories": True}))
    # 6f. run-structure lattice entry "ONE RLE run covering the page" x index width 1..32 x v1/v2 x required/optional, repeated index with
    #     high bytes set (deterministic block, identical on every run)
    cb = G.constant_block()
    for i, (lf, table) in enumerate(cb):
        if not quick or i % 2 == (ctx.seed % 2) or lf["rgs"][0][0]["items"][1]["store"][2] in (9, 16, 17, 24, 25, 32) or len(lf["rgs"][0][0]["items"][0]["vals"]) > 10000:
            jobs.append((lf, table, dict({"expect": "decode", "stream": "constant-rle-page"},
                                         **({"light": True} if len(lf["rgs"][0][0]["items"][0]["vals"]) > 10000 else {}))))
    # 6f'. files naming fastparquet, fastparquet's own layout (one bit-packed run of whole bytes), dictionaries larger than a signed index of
    #     that width addresses (deterministic block)
    for lf, table, cats in G.high_index_block():
        jobs.append((lf, table, dict({"expect": "decode", "stream": "high-index-fastparquet"}, **({"categories": True} if cats else {}),
                                     **({"light": True} if len(lf["rgs"][0][0]["items"][0]["vals"]) > 10000 else {}))))
    # 6f''. reader option pandas_nulls=False: nullable integer columns come back as float64 - pages with and without NULLs in one chunk
    #      (the null-free v2 pages take the in-place paths), small values (exact in float64), v1 / v2, PLAIN and DELTA
    for v2 in (False, True, True):
        for encs in (["plain", "plain", "delta"], ["plain", "delta"], ["dict", "plain", "delta"]):      # ("delta" in the list keeps the values small)
            for _ in range(2 if quick else 12):
                add({"coltype": rng.choice([G.COLTYPES[10], G.COLTYPES[11]]), "encs": encs, "delta_bits": 7,
                     "ncols": 1, "nrgs": rng.choice([1, 2]), "rows": rng.choice([12, 40]), "v2": v2, "optional": True, "split": "some",
                     "created_by": "parquet-mr version 1.12.3"}, stream="pandas-nulls-false")
                jobs[-1][2]["pf_kwargs"] = {"pandas_nulls": False}
    # 6s. footer statistics filled as the FORMAT prescribes (min_value / max_value without NaN and NULLs, null_count present or absent),
    #     chunk contents adversarial w.r.t. their own statistics (deterministic block), and correct statistics on a share of random layouts:
    #     a reader may use statistics only in ways that are sound
    for lf, table in G.stats_block():
        jobs.append((lf, table, {"expect": "decode", "stream": "spec-statistics"}))
    for _ in range(40 if quick else 1500):
        lf, table = G.gen_lfile(rng, {"coltype": rng.choice([G.COLTYPES[i] for i in (1, 10, 12, 18, 19, 13, 8, 3)]), "width": None,
                                      "ncols": rng.choice([1, 2]), "created_by": rng.choice(["parquet-mr version 1.12.3", "parquet-cpp-arrow version 14.0.2"])})
        G.attach_spec_stats(lf, table, null_count=rng.random() < 0.7)
        jobs.append((lf, table, {"expect": "decode", "stream": "spec-statistics-random"}))
    # 6g. BIG pages (>= 64 KiB uncompressed): dictionary page, then dictionary-encoded data pages (+ a PLAIN fallback page), every codec -
    #     what a page reader returns must not alias a buffer a later page overwrites.  Model ties are skipped for these (cost), the
    #     specification decoder still reads every file back (instance of the round trip) and the real reader is compared cell by cell
    for i, codec in enumerate([1, 2, 4, 5, 6, 7] + ([0, 1, 2, 4, 5, 6, 7] if not quick else [])):
        lf, table = G.big_page_file(rng, codec, v2=bool(i % 2), text=bool((i // 2) % 2 == 1), npages=2 if quick else 3)
        jobs.append((lf, table, {"expect": "decode", "stream": "big-pages", "light": True}))
    # 7. encodings the reader does not implement must be refused
    for enc in (6, 7, 9):
        for v2 in (False, True):
            lf, table = G.gen_lfile(rng, {"coltype": G.COLTYPES[20] if enc != 9 else G.COLTYPES[18], "encs": ["plain"], "ncols": 1, "nrgs": 1,
                                          "rows": 5, "optional": False, "split": "one", "v2": v2, "codec": 0, "created_by": "spec-encoder"})
            for it in lf["rgs"][0][0]["items"]:
                if "store" in it:
                    it["store"] = ["raw", enc, "0102030405060708090a0b0c0d0e0f101112131415"]
            jobs.append((lf, table, {"expect": "refuse", "stream": "unsupported"}))
    return jobs


SAFE_BP, SAFE_DELTA = 24, 28


def classify(lf, res, what):
    f = res.get("features") or features(lf)
    tags = sorted(set(l["tag"] for l in lf["leaves"]))
    return {"stage": what, "err": (res.get("err") or "").split(":")[0], "tags": tags if len(tags) > 1 else tags[0],
            "bp_width": f["max_bp_width"], "delta_width": f["max_delta_width"], "v2_delta_int64": f["v2_delta_int64"],
            "v2_delta_with_nulls": f["v2_delta_with_nulls"], "v1_rle_bool": f["v1_rle_bool"], "v2_rle_bool": f["v2_rle_bool"],
            "raw": f["raw"], "problem": (res["problems"][0][0] if res["problems"] else None),
            "created_by_fastparquet": "fastparquet" in (lf.get("created_by") or ""), "pandas_metadata": bool(lf.get("kv"))}


def extraction_vs_kernel(ctx, k=6):
    """the extracted encoder/decoder (pqref) and kernel evaluation (vm_compute in coqc) agree on small generated
    layouts: enc_file bytes and the decoded table (DESIGN 3.2)"""
    import random
    from harness import fmtlib
    rng = random.Random("C03-kernel/%d" % ctx.seed)
    pq = C.Pqref()
    lfs = []
    while len(lfs) < k:
        lf, table = G.gen_lfile(rng, {"ncols": rng.choice([1, 2]), "nrgs": rng.choice([1, 2]), "rows": rng.choice([1, 3, 9]), "codec": 0,
                                      "created_by": "spec-encoder"})
        for l in lf["leaves"]:
            l["logical"] = None
        lfs.append(lf)
    req = ("From Coq Require Import NArith ZArith List.\nFrom Pq Require Import Base.Bytes Base.ListX Codec.Hybrid Format.Phys Format.Page Format.File Format.Enc.\n"
           "Import ListNotations.\nDefinition id_c (_ : Z) (b : bytes) : bytes := b.\nDefinition id_d (_ : Z) (_ : N) (b : bytes) : option bytes := Some b.\n"
           "Definition show_cells (r : rs (list leaf * list (list (list (option value))))) := match r with ROk x => Some (snd x) | _ => None end.")
    exprs, want = [], []
    for lf in lfs:
        g = fmtlib.lfile_gallina(lf)
        data, tbl = fmtlib.encode_file(pq, lf)
        d = fmtlib.Fmt(pq).decode(data, True, tbl)
        exprs.append("enc_file id_c (%s)" % g)
        want.append(list(data))
        exprs.append("lenN (enc_file id_c (%s))" % g)
        want.append(len(data))
    outs_b = C.vm_eval(req, exprs[0::2], "list N", os.path.join(ctx.scratch, "kernel_b"), tag="encb")
    outs_n = C.vm_eval(req, exprs[1::2], "N", os.path.join(ctx.scratch, "kernel_n"), tag="encn")
    ok, detail = True, ""
    for i, (ob, on) in enumerate(zip(outs_b, outs_n)):
        try:
            kb = C.parse_coq(ob)
            kn = C.parse_coq(on)
        except Exception as e:   # noqa
            ok, detail = False, "cannot parse coqc output: %s" % e
            break
        if list(kb) != want[2 * i] or kn != want[2 * i + 1]:
            ok, detail = False, "layout %d: kernel enc_file differs from pqref fmt_encode (%d vs %d bytes)" % (i, len(kb), want[2 * i + 1])
            break
    pq.close()
    ctx.obligation("extraction agrees with kernel evaluation: enc_file on %d generated layouts (vm_compute in coqc = pqref bytes)" % k, ok, detail)
    ctx.extra["extraction_vs_kernel_layouts"] = k


def convert_vs_model(ctx):
    """tie of Impl/RConvert.v to converted_types.convert: for every (physical type, converted / logical type) row of the table the
    REAL convert() is called on a numpy array of boundary + random values; each element of its result (dtype and bit pattern; for
    DECIMAL the float) must be what convert_model says.  The same call returns the model's reading of the value (denote) and the
    specification's logical value: they must agree wherever the value is representable (instance of C03_convert_table)."""
    import random
    import numpy as np
    C.use_shadow()
    from fastparquet import parquet_thrift
    from fastparquet.cencoding import ThriftObject
    from fastparquet.converted_types import convert
    rng = random.Random("C03-convert/%d" % ctx.seed)
    pq = C.Pqref()
    M32, M64 = (1 << 32) - 1, (1 << 64) - 1
    UN = {0: "ms", 1: "us", 2: "ns"}

    def ints(bits):
        m = (1 << bits) - 1
        base = [0, 1, 2, 127, 128, 255, 256, 32767, 32768, 65535, 65536, 106751, 106752, 2932896, (1 << 31) - 1, 1 << 31, m, m - 1,
                (-128) & m, (-129) & m, (-32768) & m, (-32769) & m, (-106751) & m, (-106752) & m, (1 << (bits - 1)) - 1, 1 << (bits - 1),
                (1 << (bits - 1)) + 1]
        return [b & m for b in base] + [rng.getrandbits(bits) for _ in range(40)] + [rng.getrandbits(rng.choice([3, 9, 17, 33])) & m for _ in range(20)]

    def bes(n):
        out = [bytes(n), b"\xff" * n, b"\x80" + bytes(n - 1), b"\x7f" + b"\xff" * (n - 1), bytes(n - 1) + b"\x01", b"\xff" * (n - 1) + b"\xfe"]
        return out + [bytes(rng.getrandbits(8) for _ in range(n)) for _ in range(20)]

    rows = []   # (label, ptype, tlen, conv, lunit, scale, values)
    for conv in (5, 6, 7, 11, 12, 13, 15, 16, 17, None):
        rows.append(("INT32/%s" % conv, 1, 0, conv, None, 3, ints(32)))
    for conv in (5, 8, 9, 10, 14, 18, None):
        rows.append(("INT64/%s" % conv, 2, 0, conv, None, 4, ints(64)))
    for lu in (0, 1, 2):
        rows.append(("INT64/TIMESTAMP(%s)" % UN[lu], 2, 0, None, lu, 0, ints(64)))
    for w in (1, 2, 3, 5, 8, 9, 16):
        rows.append(("FLBA%d/DECIMAL" % w, 7, w, 5, None, 2, bes(w)))
    rows.append(("BYTE_ARRAY/DECIMAL", 6, 0, 5, None, 2, [b for w in (1, 2, 4, 9, 17) for b in bes(w)[:8]]))
    rows.append(("BYTE_ARRAY/UTF8", 6, 0, 0, None, 0, [x.encode("utf-8") for x in ["", "a", "\u00e9", "\u65e5\u672c", "x" * 40]]))
    rows.append(("INT96", 3, 0, None, None, 0, [0 | (2440588 << 64), (86400 * 10**9 - 1) | (2440587 << 64), 1 | (2488070 << 64), 5 | (2415021 << 64)] +
                 [rng.getrandbits(46) | (rng.randrange(2400000, 2500000) << 64) for _ in range(20)]))
    nvals = ninst = 0
    for label, ptype, tlen, conv, lu, scale, vals in rows:
        kw = {"type": ptype, "converted_type": conv}
        if tlen:
            kw["type_length"] = tlen
        if conv == 5:
            kw["scale"] = scale
            kw["precision"] = 9
        if lu is not None:
            kw["logicalType"] = ThriftObject.from_fields("LogicalType", TIMESTAMP=ThriftObject.from_fields(
                "TimestampType", isAdjustedToUTC=True, unit=ThriftObject.from_fields("TimeUnit", **{{0: "MILLIS", 1: "MICROS", 2: "NANOS"}[lu]: {}})))
        se = parquet_thrift.SchemaElement(name=b"x", **{k: v for k, v in kw.items() if v is not None})
        if ptype == 1:
            arr = np.array(vals, dtype="uint32").view("int32")
        elif ptype == 2:
            arr = np.array(vals, dtype="uint64").view("int64")
        elif ptype == 3:
            arr = np.array([v.to_bytes(12, "little") for v in vals], dtype="S12")
            if any(len(x) != 12 for x in arr.tolist()):      # 'S' strips trailing NULs from the Python view only; the buffer is intact
                pass
        elif ptype == 7:
            arr = np.frombuffer(b"".join(vals), dtype="S%d" % tlen)
        elif conv == 0:
            arr = np.array([v.decode("utf-8") for v in vals], dtype=object)   # what unpack_byte_array(utf=True) hands over
        else:
            arr = np.empty(len(vals), dtype=object)
            arr[:] = vals
        try:
            got = convert(arr.copy() if arr.dtype != object else arr, se)
            real = []
            k = got.dtype.kind
            for i in range(len(vals)):
                if k in "iu" and conv is None and lu is None:
                    real.append(("raw", int(got[i]) & ((1 << (got.dtype.itemsize * 8)) - 1)) if got.dtype == arr.dtype else ("?", str(got.dtype)))
                elif k in "iu":
                    bits = got.dtype.itemsize * 8
                    real.append(("int", 1 if k == "i" else 0, bits, int(got[i]) & ((1 << bits) - 1)))
                elif k in "Mm":
                    unit = np.datetime_data(got.dtype)[0]
                    real.append(("dt" if k == "M" else "td", {"ms": 0, "us": 1, "ns": 2}.get(unit, unit), int(got.view("int64")[i]) & M64))
                elif k == "f" and conv == 5:
                    real.append(("dec", float(got[i])))
                elif conv == 0:
                    real.append(("str", got[i].encode("utf-8")))
                elif k == "O" or k == "S":
                    real.append(("raw", vals[i]))
                    if k == "S":
                        assert got.view("uint8").reshape(len(vals), -1)[i].tobytes() == (vals[i].to_bytes(12, "little") if ptype == 3 else vals[i])
                    elif got[i] != vals[i]:
                        real[-1] = ("raw-changed", got[i])
                else:
                    real.append(("?", str(got.dtype), repr(got[i])))
        except Exception as e:   # noqa
            real = [("raised", "%s: %s" % (type(e).__name__, str(e)[:80]))] * len(vals)
        r = pq.call("fmt_convert", ptype, tlen, [] if conv is None else [conv], [] if lu is None else [lu], scale, list(vals))
        assert r[0] == b"ok", r
        model, bad_inst = [], None
        for v, (cv, colv, den, spec) in zip(vals, r[1]):
            tag = cv[0].decode()
            if tag == "int":
                model.append(("int", cv[1], cv[2], cv[3]))
            elif tag in ("dt", "td"):
                model.append((tag, cv[1], cv[2]))
            elif tag == "dec":
                model.append(("dec", float(cv[1]) * 10 ** -cv[2] if abs(cv[1]) < (1 << 1000) else None))
            elif tag == "str":
                model.append(("str", bytes(cv[1])))
            elif tag == "raw":
                model.append(("raw", v))
            else:
                model.append((tag, cv[1].decode() if len(cv) > 1 else ""))
            # instance of the table theorem: representable value -> the model's reading = the specified meaning
            if spec != [] and den != spec and ptype != 3:      # INT96 has no specified meaning (deprecated, by convention a timestamp)
                z32 = v - (1 << 32) if isinstance(v, int) and ptype == 1 and v >> 31 else v
                hole = (conv == 6 and isinstance(z32, int) and abs(z32) > 106751) or (isinstance(v, int) and v == 1 << 63 and (lu is not None or conv in (8, 9, 10)))
                if not hole and bad_inst is None:
                    bad_inst = "%s value %r: model reads %r, specification %r" % (label, v, den, spec)
            ninst += 1 if spec != [] else 0
        nvals += len(vals)
        diff = next((i for i, (a, b) in enumerate(zip(model, real)) if a != b), None)
        ctx.correspondence("Impl/RConvert.convert_model = converted_types.convert (dtype and bit pattern of every element; DECIMAL: the float)",
                           {"row": label}, "equal", "equal" if diff is None else "value %r: model %r, convert() %r" % (vals[diff], model[diff], real[diff]))
        ctx.correspondence("denote (column_of (convert_model v)) = pandas_of (logical_of v) on representable values (instances of C03_convert_table)",
                           {"row": label}, "equal", "equal" if bad_inst is None else bad_inst)
    ctx.extra["convert_rows"] = len(rows)
    ctx.extra["convert_values_compared_with_real_convert"] = nvals
    ctx.extra["convert_table_theorem_instances"] = ninst


def run(ctx):
    global _SCRATCH
    _SCRATCH = ctx.scratch
    C.coq_lib()
    ctx.trusted = TRUSTED
    ctx.coq_file(os.path.join(C.COQ, "props", "C03.v"))
    ctx.coq_file(os.path.join(C.COQ, "props", "C03_kv.v"))
    ctx.coq_file(os.path.join(C.COQ, "props", "C03_guard.v"))
    ctx.coq_file(os.path.join(C.COQ, "props", "C03_alloc.v"))
    bad = C.hygiene()
    ctx.obligation("hygiene: no Admitted/Axiom/Parameter/... in coq/", not bad, "; ".join(bad))
    diffs = [d for d in C.pyx_vs_c() if d[0] == "cencoding" or d[0] == "speedups"]
    ctx.obligation("native code corresponds to the .pyx sources (DESIGN 4.5)", not diffs, repr(diffs[:3]))
    C.shadow()
    C.pqref()
    translate_views(ctx)
    aliasing_oracle(ctx)
    extraction_vs_kernel(ctx)
    convert_vs_model(ctx)
    ctx.rule = ("layout descriptions from harness/fmtgen.py encoded by the extracted spec encoder: a deterministic block (DECIMAL over FLBA widths "
                "1,2,3,5,7,8,9,16 / BYTE_ARRAY / INT32 / INT64 and every converted/logical type, each with negative, zero, positive, min, max "
                "values x PLAIN/dictionary x required/optional x v1/v2); then 24 physical x converted/logical types; "
                "PLAIN / PLAIN_DICTIONARY / RLE_DICTIONARY (index widths 0..32; runs all-RLE, all-bit-packed, alternating, mixed, single run, "
                "final run ending mid-group, RLE run longer than needed) / RLE booleans / DELTA_BINARY_PACKED (block 128,256 x miniblocks 1,4,8 "
                "x delta widths 0..32(56)); definition levels as RLE and bit-packed runs; page boundaries incl. every row; 1..3 row groups; "
                "null patterns; codecs 0,1,2,4,5,6,7; v1/v2 with is_compressed absent/true/false; dictionary fallback and second dictionary page; "
                "unsupported encodings 6,7,9 must be refused; files with a 'pandas' key-value entry of another writer (agreeing, finer / coarser "
                "recorded datetime unit, arrow's swapped nullable names, zones, range-index descriptor, columns not named) x v1/v2 x PLAIN/dictionary; "
                "files whose created_by contains 'fastparquet' in layouts fastparquet never writes (created_by is just a string).  "
                "trivial = empty table; distinct = distinct (layout, table)")
    jobs = gen_jobs(ctx)
    _init()
    results = run_robust(jobs, ctx.scratch)
    digests = {}
    alloc_tie(ctx, [o for res in results for o in (res.get("alloc_obs") or [])])
    for (lf, table, exp), res in zip(jobs, results):
        if exp.get("file"):
            case = {"expect": exp}
            ctx.case(case)
            ctx.count("stream", exp["stream"])
            ctx.count("outcome", res["outcome"])
            ctx.count("valid_file(test-data)", "%s: %s" % (exp["file"], res.get("valid", "?")[:70]))
            cls = {"stage": res["outcome"], "file": exp["file"], "err": (res.get("err") or "").split(":")[0], "stream": exp["stream"],
                   "spec_verdict": res.get("valid", "?").split(":")[0]}
            if res["outcome"] == "harness-error":
                ctx.broken.append({"kind": "harness-error", "name": "test-data", "detail": res["err"]})
            elif res["outcome"] in ("crash", "differs") or (res["outcome"] == "raised" and exp["stream"] == "corpus"):
                ctx.fail(cls, case, "%s | %s | %s" % (res.get("err"), "; ".join("%s: %s" % tuple(p) for p in res["problems"])[:800], res.get("tb", "")[-400:]))
            elif res["outcome"] == "raised":
                ctx.count("test-data refused", "%s: %s" % (exp["file"], (res.get("err") or "")[:60]))
            if res.get("digest"):
                key = json.dumps(exp, sort_keys=True)
                if key in digests and digests[key] != res["digest"]:
                    ctx.fail(dict(cls, stage="nondeterministic"), case, "two reads of the same file returned different tables")
                digests[key] = res["digest"]
            continue
        case = {"lfile": lf, "table": table, "expect": exp}
        n = sum(len(v) for v in table.values())
        ctx.case(case, trivial=(n == 0))
        ctx.count("stream", exp["stream"])
        ctx.count("outcome", res["outcome"])
        if res["outcome"] == "harness-error":
            ctx.broken.append({"kind": "harness-error", "name": "run_case", "detail": res["err"]})
            continue
        f = res["features"]
        for l in lf["leaves"]:
            ctx.count("type", l["tag"])
        ctx.count("bp_width", f["max_bp_width"])
        ctx.count("delta_width", f["max_delta_width"])
        ctx.count("valid_file", res["valid"][:60])
        ctx.correspondence("spec decoder reads the spec encoder's file back to the generated table (instance of spec_roundtrip)",
                           {"lfile": lf}, "ok", res["spec"])
        safe = f["max_bp_width"] <= SAFE_BP and f["max_delta_width"] <= SAFE_DELTA
        if safe:
            for _ in range(res.get("model_pages", 0) - len(res.get("model_bad", []))):
                ctx.correspondence("Impl/RPages.rd_data_page = core.read_data_page on every v1 data page (safe widths)", {}, 1, 1)
            for mcase, mo, io in res.get("model_bad", []):
                ctx.correspondence("Impl/RPages.rd_data_page = core.read_data_page on every v1 data page (safe widths)", mcase, mo, io)
            cc = res.get("chunk_corr")
            if cc == "agree":
                ctx.correspondence("Impl/RChunk.rd_chunk (page loop, v1+v2 page models) = cells core.read_col returns, per file (safe widths)", {}, 1, 1)
            elif cc and res["outcome"] == "ok":
                ctx.correspondence("Impl/RChunk.rd_chunk (page loop, v1+v2 page models) = cells core.read_col returns, per file (safe widths)",
                                   {"lfile": lf}, cc[0], cc[1])
        if exp["expect"] == "refuse":
            if res["outcome"] != "raised":
                ctx.fail(classify(lf, res, "not-refused"), case, "a file using an unsupported encoding was decoded to values instead of being refused")
            continue
        if res["outcome"] == "raised" and f["v2_delta_with_nulls"] and "null delta-int not implemented" in res["err"]:
            ctx.count("refused", "v2 DELTA_BINARY_PACKED page of an optional column with nulls")
            continue          # refused with an error, not decoded to wrong values: allowed by the property
        if res["outcome"] == "crash":
            ctx.fail(classify(lf, res, "crash"), case, "the reading process crashed: %s" % res["err"])
        elif res["outcome"] == "raised":
            ctx.fail(classify(lf, res, "raised"), case, "reading raised %s | %s" % (res["err"], res.get("tb", "")[-500:]))
        elif res["outcome"] == "differs":
            ctx.fail(classify(lf, res, "differs"), case, "; ".join("%s: %s" % tuple(p) for p in res["problems"])[:1500])


def replay_aliasing(case):
    """decompress two pages of the stored size with the stored codec; the values read from the first must survive the second"""
    import numpy as np
    C.use_shadow()
    from fastparquet import encoding
    from fastparquet.compression import compress_data, decompress_data
    size, algo = case["size"], case["codec"]
    a = (np.arange(size) % 251).astype("uint8")
    b = (np.arange(size) % 241).astype("uint8")
    first = decompress_data(np.frombuffer(compress_data(a.tobytes(), algo), "uint8"), size, algo)
    held = encoding.read_plain(first, 2, size // 8)
    snapshot = np.array(held, copy=True)
    decompress_data(np.frombuffer(compress_data(b.tobytes(), algo), "uint8"), size, algo)
    same = bool((np.asarray(held) == snapshot).all())
    print("%s, %d bytes: values of the first page %s after the second page was decompressed" % (algo, size, "unchanged" if same else "CHANGED"))
    return 0 if same else 1


def replay(rep):
    warnings.filterwarnings("ignore")
    if rep.get("kind") != "no-failing-input-found" and "aliasing" in rep.get("case", {}):
        return replay_aliasing(rep["case"])
    if rep.get("kind") == "no-failing-input-found" or "expect" not in rep.get("case", {}):
        print(json.dumps(rep, indent=1)[:6000])
        return 1
    _init()
    c = rep["case"]
    tmp = tempfile.mkdtemp(prefix="verif-C03r-", dir="/tmp")
    try:
        res = run_robust([(c.get("lfile"), c.get("table", {}), c["expect"])], tmp, nproc=1)[0]
    finally:
        shutil.rmtree(tmp, ignore_errors=True)
    print("outcome:", res["outcome"], res.get("err") or "")
    for p in res["problems"]:
        print("  %s: %s" % tuple(p))
    if res.get("tb"):
        print(res["tb"])
    if c["expect"]["expect"] == "refuse":
        return 0 if res["outcome"] == "raised" else 1
    return 1 if res["outcome"] in ("raised", "differs", "harness-error", "crash") else 0
