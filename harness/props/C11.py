"""C11 — primitive codecs agree with the specification on their whole bounded domain (DESIGN.md section 6, C11).

Three things happen on every run:
 1. coqc props/C11.v (spec round trips, impl = spec on the safe region, refuted witnesses);
 2. correspondence: every public codec function of fastparquet.cencoding / speedups / encoding / writer is run
    in a subprocess on the enumerated lattice and compared (outputs AND final cursors, guard bytes behind the
    output included) with its impl model (extracted, pqref);
 3. oracle: on the same cases the real results are compared with what the SPEC functions say (values, exact
    count min(count, capacity), cursor behind the run).  Failures are classified and filtered by findings.d/C11.json.
"""
import json
import os

from harness import common as C
from harness import codec_lib as L
from harness import codec_cases as K

TRUSTED = [
    "Coq 8.16.1 kernel + coqc; vm_compute for the computed witnesses/examples; no native_compute",
    "extraction: ExtrOcamlBasic only, no Extract Constant; ocaml/driver.ml s-expression I/O; a sample of the extracted impl-model "
    "commands is re-evaluated by vm_compute inside coqc on every run and compared",
    "the spec models (theories/Codec) are my reading of parquet-format Encodings.md (LSB-first bit packing, ULEB128, zigzag, "
    "RLE/bit-packed hybrid grammar, DELTA_BINARY_PACKED layout, PLAIN boolean / byte array)",
    "the impl models (theories/Impl/C*.v) are hand transcriptions of cencoding.c/speedups.c (C integer types taken from the .c file); "
    "tied by the correspondence run only, on the enumerated lattice",
    "C semantics assumed by the impl models: unsigned arithmetic wraps, a shift by >= the operand width is UB, reads outside the "
    "buffer handed over are OOB; gcc -O2 -fwrapv build of the .c files",
    "Python glue: case generators, numpy buffers with a 16-byte 0xAA guard behind every output, result canonicalisation",
    ".pyx source vs compiled .c: compared line by line (harness.common.pyx_vs_c); the binary is what is run",
    "translators/dispatch2coq.py (Python ast -> Gallina decision functions of encoding.read_plain and of the (bit width, selfmade) chains "
    "of core.read_data_page / read_data_page_v2; leaves recognised by call shape), translators/writer2coq.py (NumpyIO scratch-buffer scripts of "
    "writer.make_definitions / encode_dict; encode_plain on the not-null mask = Impl/WLevels.wr_bools, tied by the convert_bool relation) and its prelude Impl/Dispatch.v (numpy frombuffer = "
    "fixed-width little-endian items; array view of own pages); compared on every run with the decoder calls observed in the real readers",
]


def run(ctx):
    C.coq_lib()
    ctx.trusted = TRUSTED
    # coqc of the theorem file (~30 s: 30 Print Assumptions) runs while the real code is exercised
    import threading
    coq_thread = threading.Thread(target=K.coq_obligations, args=(ctx, "C11"))
    coq_thread.start()
    try:
        bad = C.hygiene()
        ctx.obligation("hygiene: no Admitted/Axiom/Parameter/... in coq/", not bad, "; ".join(bad))
        diffs = C.pyx_vs_c()
        ctx.obligation("compiled code corresponds to the .pyx source (DESIGN 4.5)", not diffs,
                       "source and compiled code differ; the property is shown for the compiled code only: %r" % (diffs[:5],))
        C.shadow()
        ctx.rule = K.RULE
        # translator: the Python-level dispatch around the codecs (encoding.read_plain, the index-decoder chains of the page
        # readers) regenerated as Gallina, theorems re-proved on it; its decision tables feed a correspondence below
        from harness import codec_dispatch as D
        mode, K.DISPATCH_TAB = D.translate_dispatch(ctx)
        wmode = D.translate_writer(ctx)
        D.translate_state(ctx)
        del K.WRITER_OBS[:]
        cases = K.generate(ctx.rng, ctx.quick())
        K.check_cases(ctx, "C11", cases, os.path.join(ctx.scratch, "real"), sanitize=False)
        ctx.extra["lattice"] = K.lattice_summary(cases)
        D.writer_correspondence(ctx, wmode, K.WRITER_OBS)
        K.extraction_agreement(ctx, cases, os.path.join(ctx.scratch, "vm"), n=24 if ctx.quick() else 100)
    finally:
        coq_thread.join()


def replay(rep):
    if rep.get("kind") == "no-failing-input-found":
        print(json.dumps(rep, indent=1)[:6000])
        return 1
    return K.replay_case(rep["case"], sanitize=False)
