"""C16 — key-value metadata verbatim; in-place updates touch nothing else (DESIGN.md section 6, C16)."""
import json
import os
import struct

from harness import common as C

TRUSTED = [
    "Coq 8.16.1 kernel + coqc (vm_compute only for the closed Example); no native_compute",
    "extraction: ExtrOcamlBasic only (bool, option, unit, list, prod, sumbool, sumor -> OCaml), no Extract Constant; ocaml/driver.ml s-expression I/O",
    "OS file semantics modelled by os_write/os_truncate (seek+write overwrites in place, truncate cuts at the cursor)",
    "thrift content of the footer is opaque here (C10); the harness computes the expected new footer with the library's own from_buffer/update_custom_metadata/to_bytes",
    "Python glue: generators, byte comparison, dict comparison via ensure_bytes",
]


def _kv_vals(rng, big=False):
    pool = ["a", "b", "key", "kéy", "\U0001F600", "", "pandas_x", "x" * 40]
    k = rng.choice(pool)
    if rng.random() < 0.3:
        k = k.encode("utf-8")
    if rng.random() < 0.1:
        k = b"\xff\xfe" + bytes([rng.randrange(256)])
    n = rng.choice([0, 1, 2, 3, 5, 8, 13, 21, 40, 100]) if not big else rng.choice([1000, 70000])
    v = "".join(rng.choice("abcxyzé ") for _ in range(n))
    if rng.random() < 0.3:
        v = v.encode("utf-8")
    if rng.random() < 0.05:
        v = bytes(rng.randrange(256) for _ in range(n))
    return k, v


def eb(x):
    return x.encode("utf-8") if isinstance(x, str) else x


def spec_update(d, u):
    """the property's own reading: dict keyed by bytes; None removes; else set."""
    d = dict(d)
    for k, v in u.items():
        kb = eb(k)
        if v is None:
            d.pop(kb, None)
        else:
            d[kb] = eb(v)
    return d


DUPKEY = b"dup-hist"


def inject_duplicates(path, is_md, rng, fixed=None):
    """rewrite the footer by hand with 2-3 entries under one key appended (what a foreign writer may produce);
    returns {"vals": [hex], "pos": ...} so that a replay can repeat it (pass it back as `fixed`)"""
    from fastparquet.cencoding import from_buffer
    from fastparquet import parquet_thrift
    b = open(path, "rb").read()
    loc = 4 if is_md else len(b) - 8 - int.from_bytes(b[-8:-4], "little")
    fmd = from_buffer(b[loc:], "FileMetaData")
    kvs = list(fmd.key_value_metadata or [])
    if fixed:
        vals, pos = [bytes.fromhex(v) for v in fixed["vals"]], fixed["pos"]
    else:
        vals = [b"step-1", b"", b"step-3 " + bytes(rng.randrange(97, 123) for _ in range(rng.choice([0, 5, 30])))][:rng.choice([2, 3])]
        pos = rng.choice(["end", "spread"])
    new = [parquet_thrift.KeyValue(key=DUPKEY, value=v) for v in vals]
    if pos == "end" or not kvs:
        kvs = kvs + new
    else:
        kvs = [new[0]] + kvs + new[1:]
    fmd.key_value_metadata = kvs
    foot = bytes(fmd.to_bytes())
    with open(path, "wb") as f:
        f.write(b[:loc] + foot + struct.pack("<I", len(foot)) + b"PAR1")
    return {"vals": [v.hex() for v in vals], "pos": pos}


def _trim_list(l):
    return [(k[:20], v[:20]) for k, v in l][:12]


def kv_of(fmd):
    return [(eb(x.key), eb(x.value)) for x in (fmd.key_value_metadata or [])]


def run(ctx):
    C.coq_lib()
    ctx.trusted = TRUSTED
    ok, out = ctx.coq_file(os.path.join(C.COQ, "props", "C16.v"))
    bad = C.hygiene()
    ctx.obligation("hygiene: no Admitted/Axiom/Parameter/... in coq/", not bad, "; ".join(bad))
    C.use_shadow()
    pq = C.Pqref()
    import numpy as np
    import pandas as pd
    import fastparquet
    from fastparquet import ParquetFile, write, update_file_custom_metadata
    from fastparquet.cencoding import from_buffer
    from fastparquet.util import update_custom_metadata
    from fastparquet import parquet_thrift

    rng = ctx.rng
    ctx.rule = ("histories: initial custom_metadata dict (str/bytes keys and values, unicode, empty, non-utf8, large) then 1..5 "
                "update dicts mixing add/replace/remove, value sizes chosen so that the footer delta sweeps -40..+40 and every "
                "value in -8..+8; data files (1-2 row groups) and hive _metadata files; a case is trivial when the update dict is empty; "
                "distinct = distinct (kind, initial dict, update list) tuples")
    n_hist = 60 if ctx.quick() else 700
    deltas_seen = set()

    # ---- correspondence A: update_kv model vs util.update_custom_metadata ---------------------
    n_a = 300 if ctx.quick() else 3000
    cmds, metas = [], []
    for i in range(n_a):
        nold = rng.choice([0, 1, 2, 3, 6])
        old, seen = [], set()
        for _ in range(nold):
            k, v = _kv_vals(rng)
            if eb(k) in seen and rng.random() < 0.9:     # foreign files may repeat keys: keep a few
                continue
            seen.add(eb(k))
            old.append((eb(k), eb(v)))
        u = {}
        for _ in range(rng.choice([0, 1, 2, 4])):
            k, v = _kv_vals(rng)
            if old and rng.random() < 0.5:
                k = rng.choice(old)[0]
                if rng.random() < 0.5:
                    try:
                        k = k.decode("utf-8")
                    except UnicodeDecodeError:
                        pass
            if any(eb(k) == eb(k2) for k2 in u):
                continue
            u[k] = None if rng.random() < 0.35 else v
        fmd = parquet_thrift.FileMetaData(
            key_value_metadata=[parquet_thrift.KeyValue(key=k, value=v) for k, v in old] if (old or rng.random() < 0.5) else None)
        update_custom_metadata(fmd, u)
        impl = [[k, v] for k, v in kv_of(fmd)]
        cmds.append(("update_kv", [[k, v] for k, v in old], [[eb(k), [] if v is None else [eb(v)]] for k, v in u.items()]))
        metas.append(({"old": [[k.hex(), v.hex()] for k, v in old],
                       "update": [[eb(k).hex(), None if v is None else eb(v).hex()] for k, v in u.items()]}, impl, len(u) == 0))
    outs = pq.batch(cmds)
    for (case, impl, triv), mo in zip(metas, outs):
        ctx.case({"corr": "update_kv", **case}, trivial=triv)
        ctx.count("update_kv.nupdates", len(case["update"]))
        agree = ctx.correspondence("update_kv ~ util.update_custom_metadata", case, [[a.hex(), b.hex()] for a, b in mo],
                                   [[a.hex(), b.hex()] for a, b in impl])
        # property oracle on the same case (distinct old keys only: the statement is about dicts)
        oldk = [k for k, _ in case["old"]]
        if len(set(oldk)) == len(oldk):
            want = spec_update({bytes.fromhex(k): bytes.fromhex(v) for k, v in case["old"]},
                               {bytes.fromhex(k): (None if v is None else bytes.fromhex(v)) for k, v in case["update"]})
            got = {k: v for k, v in ((bytes(a), bytes(b)) for a, b in impl)}
            if got != want or len(impl) != len(got):
                ctx.fail({"component": "update_custom_metadata", "op": "update_kv"}, case,
                         "resulting key-values differ from dict-update semantics: got %r want %r" % (got, want))

    # ---- correspondence B + oracle: histories on real files ----------------------------------
    for h in range(n_hist):
        kind = rng.choice(["data", "data", "data2", "_metadata"])
        d0 = {}
        for _ in range(rng.choice([0, 1, 2, 3])):
            k, v = _kv_vals(rng, big=(rng.random() < 0.03))
            if any(eb(k) == eb(k2) for k2 in d0):
                continue
            d0[k] = v
        nrows = rng.choice([1, 5, 50])
        df = pd.DataFrame({"x": np.arange(nrows, dtype="int64"), "s": ["r%d" % i for i in range(nrows)]})
        root = os.path.join(ctx.scratch, "h%d" % h)
        if kind == "_metadata":
            write(root, df, file_scheme="hive", custom_metadata=dict(d0) or None, row_group_offsets=[0, nrows // 2] if nrows > 1 else None)
            path = os.path.join(root, "_metadata")
        else:
            path = root + ".parquet"
            write(path, df, custom_metadata=dict(d0) or None,
                  row_group_offsets=[0, nrows // 2] if (kind == "data2" and nrows > 1) else None)
        case = {"kind": kind, "nrows": nrows, "initial": [[repr(k), repr(v)[:60], len(v)] for k, v in d0.items()], "updates": [],
                "replay_data": {"kind": kind, "nrows": nrows, "rg2": kind in ("data2", "_metadata"), "initial": enc_dict(d0), "updates": []}}
        pf = ParquetFile(path)
        cur = {eb(k): eb(v) for k, v in pf.key_value_metadata.items()}
        # write-time verbatim: every given entry is there, next to the library's own 'pandas' entry
        want0 = {eb(k): eb(v) for k, v in d0.items()}
        if {k: v for k, v in cur.items() if k != b"pandas"} != want0:
            ctx.fail({"component": "write", "op": "custom_metadata"}, case, "custom_metadata not returned verbatim: %r vs %r" % (cur, want0))
        # a footer as another writer may leave it: the SAME key several times in the list<KeyValue> (legal in the IDL);
        # the updates below never name that key, so every one of its entries must survive, in order
        dup = rng.random() < 0.3
        if dup:
            case["replay_data"]["dup"] = inject_duplicates(path, kind == "_metadata", rng)
            pf = ParquetFile(path)
            cur = {eb(k): eb(v) for k, v in pf.key_value_metadata.items()}
            case["duplicate_entries"] = [[k.hex(), v.hex()] for k, v in kv_of(pf.fmd) if k == DUPKEY]
        ctx.count("footer_has_duplicate_key", dup)
        schema0, rgs0 = pf.fmd.schema, pf.fmd.row_groups
        df0 = ParquetFile(root if kind == "_metadata" else path).to_pandas()
        nupd = rng.choice([1, 2, 3, 5])
        trivial_hist = True
        for step in range(nupd):
            before = open(path, "rb").read()
            keys_now = [k for k in cur if k != b"pandas" and k != DUPKEY]
            raw_before = kv_of(ParquetFile(path).fmd)
            u = {}
            # choose the update so that footer deltas of every small size occur
            mode = rng.choice(["shrink", "grow", "mixed", "remove", "same", "empty"] if step else ["grow", "mixed", "shrink"])
            if mode == "empty":
                pass
            elif mode in ("shrink", "grow", "same") and keys_now:
                k = rng.choice(keys_now)
                old_v = cur[k]
                dl = rng.choice(list(range(1, 10)) + [12, 16, 17, 33, 40])
                if mode == "shrink":
                    nv = old_v[:max(0, len(old_v) - dl)]
                elif mode == "grow":
                    nv = old_v + b"z" * dl
                else:
                    nv = bytes(reversed(old_v))
                try:
                    ks = k.decode("utf-8") if rng.random() < 0.5 else k
                except UnicodeDecodeError:
                    ks = k
                u[ks] = nv if rng.random() < 0.5 else _maybe_str(nv)
            elif mode == "remove" and keys_now:
                for k in rng.sample(keys_now, rng.choice([1, len(keys_now)])):
                    u[k] = None
                if rng.random() < 0.3:
                    u["absent-key"] = None
            else:
                for _ in range(rng.choice([1, 2, 3])):
                    k, v = _kv_vals(rng)
                    if any(eb(k) == eb(k2) for k2 in u):
                        continue
                    u[k] = None if rng.random() < 0.25 else v
            if u:
                trivial_hist = False
            is_md = (kind == "_metadata")
            if rng.random() < 0.12:
                # an update the library must refuse (value / key of a type that cannot be stored): it has to raise and
                # leave a valid file with the previous content (the property holds for ANY sequence of updates)
                bad = dict(u)
                which = rng.choice(["int-value", "list-value", "int-key", "float-value"])
                if which == "int-key":
                    bad[7] = "x"
                else:
                    bad[rng.choice(["rev", "a", "zz-new"])] = {"int-value": 7, "list-value": ["a"], "float-value": 1.5}[which]
                ctx.count("rejected_update", which)
                case["updates"].append([["<rejected: %s>" % which, None]])
                case["replay_data"]["updates"].append({"rejected": which, "u": enc_dict(u)})
                raised = None
                try:
                    update_file_custom_metadata(path, bad)
                except Exception as e:       # noqa
                    raised = type(e).__name__
                after = open(path, "rb").read()
                problems = []
                if raised is None:
                    problems.append("an update with a %s was accepted" % which)
                try:
                    pf2 = ParquetFile(path)
                    got = {eb(k): eb(v) for k, v in pf2.key_value_metadata.items()}
                    if got != cur:
                        problems.append("key-values after a REFUSED update %r, expected the previous %r" % (_trim(got), _trim(cur)))
                    if not (pf2.fmd.schema == schema0) or not (pf2.fmd.row_groups == rgs0):
                        problems.append("schema / row groups changed by a refused update")
                    if not ParquetFile(root if is_md else path).to_pandas().equals(df0):
                        problems.append("data read back differs after a refused update")
                except Exception as e:      # noqa
                    problems.append("file unreadable after a refused update (%d -> %d bytes): %s: %s" % (len(before), len(after), type(e).__name__, e))
                if after[-4:] != b"PAR1":
                    problems.append("file does not end with the magic after a refused update")
                if problems:
                    ctx.fail({"component": "update_file_custom_metadata", "op": "refused-update", "file_kind": kind, "what": which},
                             {**case, "failing_step": step}, "; ".join(problems))
                    break
                continue
            # model inputs: where the footer is, and what the new footer bytes are (library's own serialiser)
            if is_md:
                loc = 4
            else:
                size = int.from_bytes(before[-8:-4], "little")
                loc = len(before) - 8 - size
            fmd = from_buffer(before[loc:], "FileMetaData")
            update_custom_metadata(fmd, dict(u))
            new_footer = bytes(fmd.to_bytes())
            old_footer_len = len(before) - 8 - loc
            delta = len(new_footer) - old_footer_len
            deltas_seen.add(delta)
            ctx.count("footer_delta_class", "0" if delta == 0 else ("-1..-7" if -8 < delta < 0 else ("<=-8" if delta <= -8 else ("+1..+7" if delta < 8 else ">=8"))))
            ctx.count("file_kind", kind)
            case["updates"].append([[repr(k), None if v is None else len(v)] for k, v in u.items()] + [{"footer_delta": delta}])
            case["replay_data"]["updates"].append(enc_dict(u))
            err = None
            try:
                update_file_custom_metadata(path, dict(u))
            except Exception as e:           # noqa
                err = "%s: %s" % (type(e).__name__, e)
            after = open(path, "rb").read()
            m_loc = pq.call("footer_loc", is_md, before)
            m_after = pq.call("rewrite_footer", 1, before, loc, new_footer)
            cc = {"kind": kind, "step": step, "delta": delta, "before_len": len(before), "loc": loc,
                  "update": case["updates"][-1]}
            ctx.correspondence("footer_loc ~ where update_file_custom_metadata finds the footer", cc, m_loc, [loc])
            ctx.correspondence("rewrite_footer(truncate) ~ bytes left by update_file_custom_metadata", cc,
                               sha_len(m_after), sha_len(after))
            # ---- the property itself on this step
            cls = {"component": "update_file_custom_metadata", "op": "update_kv", "file_kind": kind,
                   "footer_delta": delta}
            want = spec_update(cur, u)
            problems = []
            if err:
                problems.append("update raised " + err)
            if after[:loc] != before[:loc]:
                problems.append("bytes before the footer changed")
            if after[-4:] != b"PAR1":
                problems.append("file does not end with the magic")
            else:
                sz = int.from_bytes(after[-8:-4], "little")
                if (4 if is_md else len(after) - 8 - sz) != loc:
                    problems.append("footer length field %d does not lead back to the footer start (file %d bytes, footer at %d)" % (sz, len(after), loc))
            if not problems:
                try:
                    pf2 = ParquetFile(path)
                    got = {eb(k): eb(v) for k, v in pf2.key_value_metadata.items()}
                    if got != want:
                        problems.append("key-values after update %r, expected %r" % (_trim(got), _trim(want)))
                    named = set(eb(k) for k in u)
                    raw_after = kv_of(pf2.fmd)
                    if [e for e in raw_before if e[0] not in named] != [e for e in raw_after if e[0] not in named]:
                        problems.append("entries not named by the update changed: %r -> %r" % (
                            _trim_list([e for e in raw_before if e[0] not in named]), _trim_list([e for e in raw_after if e[0] not in named])))
                    if not (pf2.fmd.schema == schema0):
                        problems.append("schema changed")
                    if not (pf2.fmd.row_groups == rgs0):
                        problems.append("row groups changed")
                    df2 = ParquetFile(root if is_md else path).to_pandas()
                    if not df2.equals(df0):
                        problems.append("data read back differs")
                except Exception as e:      # noqa
                    problems.append("file unreadable after update: %s: %s" % (type(e).__name__, e))
            if problems:
                ctx.fail(cls, {**case, "failing_step": step, "before_hex_tail": before[-64:].hex(), "after_hex_tail": after[-64:].hex()},
                         "; ".join(problems))
                break
            cur = want
        ctx.case(case, trivial=trivial_hist)
    pq.close()
    ctx.extra["footer_deltas_seen"] = sorted(deltas_seen)
    small = set(range(-8, 9))
    ctx.extra["small_deltas_missing"] = sorted(small - deltas_seen)


def enc_dict(d):
    return [[isinstance(k, str), eb(k).hex(), None if v is None else isinstance(v, str), None if v is None else eb(v).hex()]
            for k, v in d.items()]


def dec_dict(l):
    out = {}
    for ks, k, vs, v in l:
        k = bytes.fromhex(k)
        k = k.decode("utf-8") if ks else k
        if v is not None:
            v = bytes.fromhex(v)
            v = v.decode("utf-8") if vs else v
        out[k] = v
    return out


def sha_len(b):
    return [len(b), C.sha(bytes(b))[:20]]


def _maybe_str(b):
    try:
        return b.decode("utf-8")
    except UnicodeDecodeError:
        return b


def _trim(d):
    return {k[:20]: (v[:20], len(v)) for k, v in d.items()}


def replay(rep):
    """Re-execute a recorded history on the real code and report what the property observes."""
    import shutil
    import tempfile
    C.use_shadow()
    import numpy as np
    import pandas as pd
    from fastparquet import ParquetFile, write, update_file_custom_metadata
    if rep.get("kind") == "no-failing-input-found":
        print(json.dumps(rep, indent=1)[:6000])
        return 1
    rd = rep["case"].get("replay_data")
    if rd is None:
        print(json.dumps(rep, indent=1)[:6000])
        return 1
    tmp = tempfile.mkdtemp(prefix="verif-C16-replay-", dir="/tmp")
    try:
        nrows = rd["nrows"]
        df = pd.DataFrame({"x": np.arange(nrows, dtype="int64"), "s": ["r%d" % i for i in range(nrows)]})
        d0 = dec_dict(rd["initial"])
        rgo = [0, nrows // 2] if (rd["rg2"] and nrows > 1) else None
        if rd["kind"] == "_metadata":
            root = os.path.join(tmp, "ds")
            write(root, df, file_scheme="hive", custom_metadata=dict(d0) or None, row_group_offsets=rgo)
            path = os.path.join(root, "_metadata")
        else:
            path = root = os.path.join(tmp, "f.parquet")
            write(path, df, custom_metadata=dict(d0) or None, row_group_offsets=rgo)
        if rd.get("dup"):
            inject_duplicates(path, rd["kind"] == "_metadata", None, fixed=rd["dup"])
        cur = {eb(k): eb(v) for k, v in ParquetFile(path).key_value_metadata.items()}
        bad = 0
        for i, ul in enumerate(rd["updates"]):
            before = open(path, "rb").read()
            raw_before = kv_of(ParquetFile(path).fmd)
            if isinstance(ul, dict) and "rejected" in ul:
                u = dec_dict(ul["u"])
                badu = dict(u)
                if ul["rejected"] == "int-key":
                    badu[7] = "x"
                else:
                    badu["rev"] = {"int-value": 7, "list-value": ["a"], "float-value": 1.5}[ul["rejected"]]
                try:
                    update_file_custom_metadata(path, badu)
                    print("step %d: the refused update (%s) was ACCEPTED" % (i, ul["rejected"]))
                    return 1
                except Exception as e:      # noqa
                    print("step %d: refused update raised %s" % (i, type(e).__name__))
                want, named = cur, set()
            else:
                u = dec_dict(ul)
                update_file_custom_metadata(path, dict(u))
                want, named = spec_update(cur, u), set(eb(k) for k in u)
            after = open(path, "rb").read()
            try:
                pf2 = ParquetFile(path)
                got = {eb(k): eb(v) for k, v in pf2.key_value_metadata.items()}
                raw_after = kv_of(pf2.fmd)
                keep = [e for e in raw_before if e[0] not in named] == [e for e in raw_after if e[0] not in named]
                ok = got == want and keep and ParquetFile(root).to_pandas().equals(df) and after[-4:] == b"PAR1"
                msg = "kv equal: %s, untouched entries kept: %s" % (got == want, keep)
            except Exception as e:      # noqa
                ok, msg = False, "unreadable: %s: %s" % (type(e).__name__, e)
            print("step %d: file %d -> %d bytes, tail %s : %s" % (i, len(before), len(after), after[-8:].hex(), "ok" if ok else "PROPERTY FAILS (" + msg + ")"))
            if not ok:
                bad = 1
                break
            cur = want
        return bad
    finally:
        shutil.rmtree(tmp, ignore_errors=True)
