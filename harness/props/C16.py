"""C16 — key-value metadata verbatim; in-place updates touch nothing else (DESIGN.md section 6, C16)."""
import json
import os
import struct

from harness import common as C

TRUSTED = [
    "Coq 8.16.1 kernel + coqc (vm_compute only for the closed Example); no native_compute",
    "extraction: ExtrOcamlBasic only (bool, option, unit, list, prod, sumbool, sumor -> OCaml), no Extract Constant; ocaml/driver.ml s-expression I/O",
    "OS file semantics modelled by os_write/os_truncate (seek+write overwrites in place, truncate cuts at the cursor)",
    "thrift content of the footer is opaque here (C10); the harness computes the expected new footer with the library's own from_buffer/update_custom_metadata/to_bytes",
    "Python glue: generators, byte comparison, dict comparison via ensure_bytes",
    "translator kv2coq (Python ast of util.update_custom_metadata -> Gallina) and its prelude Impl/PyList.v (x in l, l.index, del l[i], l[i] = y, append)",
    "foreign footers are produced by the proved specification reader/writer (thrift_dec / thrift_enc of C10) and spliced by harness glue",
    "utf8_valid (Impl/KVRead.v) is the transcription of Unicode table 3-7; compared with CPython's decoder on every read check",
]


def _kv_vals(rng, big=False):
    pool = ["a", "b", "key", "kéy", "\U0001F600", "", "pandas_x", "x" * 40]
    k = rng.choice(pool)
    if rng.random() < 0.3:
        k = k.encode("utf-8")
    if rng.random() < 0.1:
        k = b"\xff\xfe" + bytes([rng.randrange(256)])
    n = rng.choice([0, 1, 2, 3, 5, 8, 13, 21, 40, 100]) if not big else rng.choice([1000, 70000])
    v = "".join(rng.choice("abcxyzé ") for _ in range(n))
    if rng.random() < 0.3:
        v = v.encode("utf-8")
    if rng.random() < 0.15:
        # binary payload (digest, compressed blob): not UTF-8
        v = bytes(rng.randrange(256) for _ in range(n)) + rng.choice([b"\xff", b"\xc3", b"\xed\xa0\x80", b"\xf5\x80\x80\x80", b"\xc0\xaf"])
    return k, v


def eb(x):
    return x.encode("utf-8") if isinstance(x, str) else x


def spec_update(d, u):
    """the property's own reading: dict keyed by bytes; None removes; else set."""
    d = dict(d)
    for k, v in u.items():
        kb = eb(k)
        if v is None:
            d.pop(kb, None)
        else:
            d[kb] = eb(v)
    return d


DUPKEY = b"dup-hist"
NONUTF8 = [b"\xff\xfe", b"\xc3", b"\xc0\xaf", b"\xed\xa0\x80", b"\xf4\x90\x80\x80", b"\xe2\x82", b"\x80abc", b"\xf8\x88\x80\x80\x80"]


def gen_foreign(rng):
    """entries another (conformant) writer may leave in list<KeyValue>: the SAME key several times, a KeyValue WITHOUT value
    (value is optional in the IDL), empty values, binary (non-UTF-8) keys and values in every combination with text.
    -> [[key hex, value hex | None, where]]"""
    out = []
    if rng.random() < 0.4:
        vals = [b"step-1", b"", b"step-3 " + bytes(rng.randrange(97, 123) for _ in range(rng.choice([0, 5, 30])))][:rng.choice([2, 3])]
        pos = rng.choice(["end", "spread"])
        for i, v in enumerate(vals):
            out.append([DUPKEY.hex(), v.hex(), "front" if (pos == "spread" and i == 0) else "end"])
    if rng.random() < 0.65:
        for k in rng.sample([b"flag", "drapeau-\u00e9".encode("utf-8"), b"novalue", b"\xfe\xffbinflag"], rng.choice([1, 1, 2])):
            out.append([k.hex(), None, rng.choice(["front", "mid", "end"])])
    if rng.random() < 0.5:
        out.append([rng.choice([b"sha256", "empreinte-\u00e9".encode("utf-8"), b"blob"]).hex(),
                    (bytes(rng.randrange(256) for _ in range(rng.choice([0, 3, 32]))) + rng.choice(NONUTF8)).hex(), rng.choice(["front", "mid", "end"])])
    if rng.random() < 0.3:
        out.append([(rng.choice(NONUTF8) + b"key").hex(), "text value \u00e9".encode("utf-8").hex(), rng.choice(["front", "end"])])
    if rng.random() < 0.2:
        out.append([(b"bb" + rng.choice(NONUTF8)).hex(), (rng.choice(NONUTF8) * 3).hex(), "mid"])
    if rng.random() < 0.3:
        out.append([b"empty".hex(), "", "end"])
    if rng.random() < 0.5:
        # the library's OWN entry as another writer (or the user) may have left it: same JSON document, another key order /
        # compact separators / indentation / non-ASCII text escaped or not - not the sorted-keys form fastparquet itself dumps
        out.append([b"pandas".hex(), rng.choice(["reverse-keys", "compact", "indent", "non-ascii", "escaped", "spaces"]), "restyle"])
    if not out:
        out.append([b"flag".hex(), None, "end"])
    return out


def restyle_json(value, style):
    """the same JSON document in another textual form (deterministic)"""
    doc = json.loads(value.decode("utf-8"))

    def rev(x):
        if isinstance(x, dict):
            return {k: rev(x[k]) for k in reversed(list(x))}
        if isinstance(x, list):
            return [rev(y) for y in x]
        return x
    if style == "reverse-keys":
        return json.dumps(rev(doc)).encode("utf-8")
    if style == "compact":
        return json.dumps(doc, separators=(",", ":")).encode("utf-8")
    if style == "indent":
        return json.dumps(rev(doc), indent=2).encode("utf-8")
    if style in ("non-ascii", "escaped"):
        doc = dict(doc)
        doc["creator"] = {"library": "pyarr\u00f6w \u2603", "version": "14.0.2"}
        return json.dumps(doc, ensure_ascii=(style == "escaped")).encode("utf-8")
    return (" " + json.dumps(doc, separators=(" , ", " : ")) + "\n").encode("utf-8")


def inject_foreign(pq, path, recipe):
    """parse the footer with the proved specification reader, insert the entries, re-encode with the proved specification
    writer, splice back (data file or _metadata: both end with footer + length + magic)"""
    from harness import c10_edits as E
    data = open(path, "rb").read()
    head, footer = E.split_footer(data, False)
    r = pq.call("thrift_dec", 1, footer)
    assert sym(r[0]) == "ok" and r[2] == 0, r[:1]
    t = E.dec(r[1])
    E.type_empty_lists(t)
    kvl = E.get(t, 5)
    items = list(kvl[2]) if kvl else []
    for kh, vh, where in recipe:
        if where == "restyle":
            for e in items:
                if E.get(e, 1)[1] == bytes.fromhex(kh) and E.get(e, 2) is not None:
                    E.put(e, 2, E.S(restyle_json(E.get(e, 2)[1], vh)))
            continue
        e = E.R(f1=E.S(bytes.fromhex(kh))) if vh is None else E.R(f1=E.S(bytes.fromhex(kh)), f2=E.S(bytes.fromhex(vh)))
        items.insert({"front": 0, "mid": len(items) // 2, "end": len(items)}[where], e)
    E.put(t, 5, ["l", 12, items])
    r = pq.call("thrift_enc", t)
    assert sym(r[0]) == "ok", r
    foot = bytes(r[1])
    with open(path, "wb") as f:
        f.write(head + foot + struct.pack("<I", len(foot)) + b"PAR1")


def sym(x):
    return x.decode("latin-1") if isinstance(x, (bytes, bytearray)) else x


def py_canon(x):
    """the property's reading of 'returned verbatim' on the read side: text comes back as text, binary as the bytes given -
    decided for key and value each on its own, with Python's own decoder (independent of fastparquet.util.ensure_str)"""
    if x is None or isinstance(x, str):
        return x
    try:
        return bytes(x).decode("utf-8")
    except UnicodeDecodeError:
        return bytes(x)


def view_of(d):
    """type-strict, JSON-able rendering of a key_value_metadata mapping, insertion order"""
    def one(x):
        if x is None:
            return None
        if isinstance(x, str):
            return ["str", x.encode("utf-8", "surrogatepass").hex()]
        if isinstance(x, (bytes, bytearray)):
            return ["bytes", bytes(x).hex()]
        return [type(x).__name__, repr(x)]
    return [[one(k), one(v)] for k, v in d.items()]


def model_view(mo):
    """pqref kv_read output -> the same rendering"""
    def one(x):
        return ["bytes" if x[0] else "str", bytes(x[1]).hex()]
    return [[one(k), (one(v[0]) if v else None)] for k, v in mo]


def raw_sx(raw):
    return [[k, [] if v is None else [v]] for k, v in raw]


def u_sx(u):
    def ps(x):
        return [0 if isinstance(x, str) else 1, eb(x)]
    return [[ps(k), [] if v is None else [ps(v)]] for k, v in u.items()]


def read_checks(ctx, pq, pf, raw, case, where):
    """READ side: (a) model read_kvm ~ ParquetFile.key_value_metadata (type-strict, insertion order);
    (b) oracle: every footer entry comes back under its own key, key and value each text iff it decodes"""
    try:
        kvm_view = dict(pf.key_value_metadata)
    except Exception as e:      # noqa
        ctx.fail({"component": "key_value_metadata", "op": "read", "where": where, "what": "raised"}, case,
                 "reading key_value_metadata raised %s: %s (entries %r)" % (type(e).__name__, e, _trim_list(raw)))
        return False
    got = view_of(kvm_view)
    mo = pq.call("kv_read", raw_sx(raw))
    cc = {"where": where, "raw": [[k.hex(), None if v is None else v.hex()[:80]] for k, v in raw][:20]}
    ctx.correspondence("read_kvm ~ ParquetFile.key_value_metadata (types and order)", cc, model_view(mo), got)
    keys = [k for k, _ in raw]
    rep_keys = set(py_canon(k) for k in keys if keys.count(k) > 1)      # which entry of a REPEATED key shows is not the property's subject
    want = {}
    for k, v in raw:
        want[py_canon(k)] = py_canon(v)
    want = {k: v for k, v in want.items() if k not in rep_keys}
    got = view_of({k: v for k, v in kvm_view.items() if k not in rep_keys})
    if view_of(want) != got:
        bad = [e for e in got if e not in view_of(want)][:3]
        ctx.fail({"component": "key_value_metadata", "op": "read", "where": where}, case,
                 "key_value_metadata does not return the stored entries verbatim (text as str, binary as bytes, key and value "
                 "independently): unexpected %r; expected %r" % (bad, [e for e in view_of(want) if e not in got][:3]))
        return False
    return True


def _trim_list(l):
    return [(k[:20], None if v is None else v[:20]) for k, v in l][:12]


def kv_of(fmd):
    return [(eb(x.key), eb(x.value)) for x in (fmd.key_value_metadata or [])]


LATKEY = b"lat-pad"


def lattice_plans(quick):
    """UPDATE-path footer lattice: (kind, [F1, F2]) - the footer is brought to exactly F1 bytes by one update, then to F2 by the next, then
    the payload is removed again; F around 2**15, 2**16, 2**17 (-9..+9: the 8-byte trailer on either side of a window of that size)"""
    pairs = [(-9, 1), (-8, 8), (-7, 0), (-6, 2), (-5, 9), (-4, 3), (-3, 7), (-2, 4), (-1, 5), (6, -8)]
    if not quick:
        pairs += [(a, b) for a in range(-9, 10, 3) for b in range(-9, 10, 4)]
    out = []
    for i, t in enumerate([2 ** 16, 2 ** 15, 2 ** 17] + ([] if quick else [2 ** 14, 2 ** 18])):
        for j, (a, b) in enumerate(pairs):
            out.append((["data", "_metadata", "data2"][(i + j) % 3], [t + a, t + b]))
    return out


def pad_update_for(path, is_md, F):
    """{LATKEY: 'p' * n} with n such that the footer has exactly F bytes after this update (None when no n gives F)"""
    from fastparquet.cencoding import from_buffer
    from fastparquet import parquet_thrift
    b = open(path, "rb").read()
    loc = 4 if is_md else len(b) - 8 - int.from_bytes(b[-8:-4], "little")
    fmd = from_buffer(b[loc:], "FileMetaData")
    kvs = [kv for kv in (fmd.key_value_metadata or []) if eb(kv.key) != LATKEY]

    def ser(n):
        fmd.key_value_metadata = kvs + [parquet_thrift.KeyValue(key=LATKEY, value=b"p" * n)]
        return len(fmd.to_bytes())
    n = F - ser(1) + 1
    for _ in range(5):
        if n < 1:
            return None
        got = ser(n)
        if got == F:
            return {LATKEY.decode(): "p" * n}
        n += F - got
    return None


def translate_kv(ctx):
    """regenerated-text obligations of C16 (each translator fails closed on its own):
    kv2coq      util.update_custom_metadata  -> GenKV.v, coq/genproofs/GenKVProofs.v (loop = faithful step; WHOLE function = update_kvo)
    fileops2coq writer.update_file_custom_metadata -> GenUpdateFile.v, GenUpdateFileProofs.v (= rewrite_footer true at footer_loc)"""
    from harness import gentr
    fp = os.path.join(C.REPO, "fastparquet")
    gentr.run_translator(ctx, "kv2coq", ["kv2coq.py", os.path.join(fp, "util.py")], "GenKV.v", "GenKVProofs.v", "util.update_custom_metadata")
    gentr.run_translator(ctx, "fileops2coq_update_file", ["fileops2coq.py", "update_file", os.path.join(fp, "writer.py")],
                         "GenUpdateFile.v", "GenUpdateFileProofs.v", "writer.update_file_custom_metadata")


def mark(ctx, stage, case):
    """the case the real code is about to execute (read back by the parent when the interpreter dies: wave 7)"""
    try:
        with open(os.path.join(ctx.scratch, "progress.json"), "w") as f:
            json.dump(dict(case, progress_stage=stage), f, default=repr)
    except Exception:       # noqa
        pass


def run(ctx):
    """the check runs in a forked child: fastparquet is executed in-process, and a change that makes the native code crash would
    otherwise end the check without a verdict.  Child exits normally -> its verdict is the verdict; child dies -> the case it was
    executing is the failing input."""
    import sys
    import traceback
    sys.stdout.flush()
    sys.stderr.flush()
    pid = os.fork()
    if pid == 0:
        rc = 1
        try:
            try:
                _run(ctx)
            except Exception:       # noqa
                tb = traceback.format_exc()
                print(tb, file=sys.stderr)
                ctx.broken.append({"kind": "harness-error", "name": "C16 check machinery", "detail": tb[-3000:]})
            rc = ctx.finish()
        finally:
            sys.stdout.flush()
            sys.stderr.flush()
            os._exit(rc if isinstance(rc, int) else 1)
    _, status = os.waitpid(pid, 0)
    if os.WIFEXITED(status):
        os._exit(os.WEXITSTATUS(status))
    sig = os.WTERMSIG(status)
    try:
        case = json.load(open(os.path.join(ctx.scratch, "progress.json")))
    except Exception:       # noqa
        case = {"progress_stage": "unknown"}
    ctx.trusted = TRUSTED
    ctx.fail({"component": "crash", "op": case.get("progress_stage"), "signal": sig}, case,
             "the interpreter died with signal %d while the real code executed this case" % sig)


def _run(ctx):
    C.coq_lib()
    ctx.trusted = TRUSTED
    ok, out = ctx.coq_file(os.path.join(C.COQ, "props", "C16.v"))
    bad = C.hygiene()
    ctx.obligation("hygiene: no Admitted/Axiom/Parameter/... in coq/", not bad, "; ".join(bad))
    translate_kv(ctx)
    C.use_shadow()
    pq = C.Pqref()
    import numpy as np
    import pandas as pd
    import fastparquet
    from fastparquet import ParquetFile, write, update_file_custom_metadata
    from fastparquet.cencoding import from_buffer
    from fastparquet.util import update_custom_metadata
    from fastparquet import parquet_thrift

    rng = ctx.rng
    ctx.rule = ("histories: initial custom_metadata dict (str/bytes keys and values, unicode, empty, non-utf8, large) then 1..5 "
                "update dicts mixing add/replace/remove, value sizes chosen so that the footer delta sweeps -40..+40 and every "
                "value in -8..+8; data files (1-2 row groups) and hive _metadata files; a case is trivial when the update dict is empty; "
                "distinct = distinct (kind, initial dict, update list) tuples")
    n_hist = 60 if ctx.quick() else 700
    deltas_seen = set()

    # ---- correspondence U: utf8_valid (Unicode table 3-7, Impl/KVRead.v) vs CPython's strict decoder, boundary lattice -----
    leads = [0x00, 0x41, 0x7f, 0x80, 0xbf, 0xc0, 0xc1, 0xc2, 0xdf, 0xe0, 0xe1, 0xec, 0xed, 0xee, 0xef, 0xf0, 0xf1, 0xf3, 0xf4, 0xf5, 0xff]
    seconds = [0x7f, 0x80, 0x8f, 0x90, 0x9f, 0xa0, 0xbf, 0xc0]
    thirds = [0x7f, 0x80, 0xbf, 0xc0]
    lat = [b""]
    for a in leads:
        lat.append(bytes([a]))
        for b2 in seconds:
            lat.append(bytes([a, b2]))
            for c in thirds:
                lat.append(bytes([a, b2, c]))
                for d in (0x80, 0xbf, 0x41):
                    lat.append(bytes([a, b2, c, d]))
    lat = lat + [x + b"a" for x in lat[::3]] + [b"ok \xc3\xa9 " + x for x in lat[::5]]
    if ctx.quick():
        lat = lat[::2] + lat[1::7]
    lat += [bytes(rng.randrange(256) for _ in range(rng.choice([1, 2, 3, 4, 6]))) for _ in range(200)]
    outs = pq.batch([("utf8_valid", x) for x in lat])
    for x, mo in zip(lat, outs):
        try:
            x.decode("utf-8")
            py = 1
        except UnicodeDecodeError:
            py = 0
        ctx.correspondence("utf8_valid ~ CPython bytes.decode('utf-8') succeeds", {"bytes": x.hex()}, mo, py)
    ctx.count("utf8_lattice_cases", len(lat))

    # ---- correspondence A: update_kv model vs util.update_custom_metadata ---------------------
    n_a = 300 if ctx.quick() else 3000
    cmds, metas = [], []
    for i in range(n_a):
        nold = rng.choice([0, 1, 2, 3, 6])
        old, seen = [], set()
        for _ in range(nold):
            k, v = _kv_vals(rng)
            if eb(k) in seen and rng.random() < 0.9:     # foreign files may repeat keys: keep a few
                continue
            seen.add(eb(k))
            old.append((eb(k), eb(v)))
        # ONE to THREE update dicts applied to the SAME thrift object with no serialisation in between (what a caller does through a
        # handle before one footer write): later dicts name keys that earlier ones added / replaced, given as str or as bytes
        us, named = [], []
        for j in range(rng.choice([1, 1, 2, 3])):
            u = {}
            for _ in range(rng.choice([0, 1, 2, 4]) if j == 0 else rng.choice([1, 2, 3])):
                k, v = _kv_vals(rng)
                pool_k = [x for x, _ in old] + named
                if pool_k and rng.random() < (0.5 if j == 0 else 0.75):
                    k = rng.choice(pool_k)
                    if rng.random() < 0.5:
                        k = _maybe_str(k)
                if any(eb(k) == eb(k2) for k2 in u):
                    continue
                u[k] = None if rng.random() < 0.35 else v
            us.append(u)
            named += [eb(k) for k, v in u.items() if v is not None]
        u = {}
        fmd = parquet_thrift.FileMetaData(
            key_value_metadata=[parquet_thrift.KeyValue(key=k, value=v) for k, v in old] if (old or rng.random() < 0.5) else None)
        mark(ctx, "update_custom_metadata (direct calls on one object)",
             {"old": [[k.hex(), v.hex()] for k, v in old], "update": [], "updates_typed": [enc_dict(uj) for uj in us]})
        raised = None
        try:
            for uj in us:
                update_custom_metadata(fmd, dict(uj))
            impl = [[k, v] for k, v in kv_of(fmd)]
        except Exception as e:       # noqa  (a legal update must not raise: reported below with the concrete case)
            raised = "%s: %s" % (type(e).__name__, e)
            impl = [[b"<raised>", raised.encode()]]
        flat = [(k, v) for uj in us for k, v in uj.items()]        # update_kv folds over the list: a sequence of dicts is their concatenation
        cmds.append(("update_kv", [[k, v] for k, v in old], [[eb(k), [] if v is None else [eb(v)]] for k, v in flat]))
        metas.append(({"old": [[k.hex(), v.hex()] for k, v in old],
                       "update": [[eb(k).hex(), None if v is None else eb(v).hex()] for k, v in flat],
                       "updates_typed": [enc_dict(uj) for uj in us]}, impl, len(flat) == 0))
    outs = pq.batch(cmds)
    for (case, impl, triv), mo in zip(metas, outs):
        ctx.case({"corr": "update_kv", **case}, trivial=triv)
        if impl and impl[0][0] == b"<raised>":
            ctx.fail({"component": "update_custom_metadata", "op": "update_kv", "what": "raised"}, case,
                     "update_custom_metadata raised on a legal update: %s" % impl[0][1].decode("utf-8", "replace"))
        ctx.count("update_kv.nupdates", len(case["update"]))
        ctx.count("update_kv.dicts_on_one_object", len(case["updates_typed"]))
        agree = ctx.correspondence("update_kv ~ util.update_custom_metadata", case, [[a.hex(), b.hex()] for a, b in mo],
                                   [[a.hex(), b.hex()] for a, b in impl])
        # property oracle on the same case (distinct old keys only: the statement is about dicts)
        oldk = [k for k, _ in case["old"]]
        if len(set(oldk)) == len(oldk):
            want = {bytes.fromhex(k): bytes.fromhex(v) for k, v in case["old"]}
            for uj in case["updates_typed"]:
                want = spec_update(want, dec_dict(uj))
            got = {k: v for k, v in ((bytes(a), bytes(b)) for a, b in impl)}
            if got != want or len(impl) != len(got):
                ctx.fail({"component": "update_custom_metadata", "op": "update_kv"}, case,
                         "resulting key-values differ from dict-update semantics: got %r want %r" % (got, want))

    # ---- correspondence B + oracle: histories on real files ----------------------------------
    plans = lattice_plans(ctx.quick())
    for h in range(n_hist + len(plans)):
        case = {"history": h}
        lat = plans[h - n_hist] if h >= n_hist else None
        try:
            kind = rng.choice(["data", "data", "data2", "_metadata", "_metadata", "_common_metadata"])
            if lat:
                kind = lat[0]
            d0 = {}
            for _ in range(rng.choice([0, 1, 2, 3])):
                k, v = _kv_vals(rng, big=(rng.random() < 0.03))
                if any(eb(k) == eb(k2) for k2 in d0):
                    continue
                d0[k] = v
            nrows = rng.choice([1, 5, 50])
            if lat:
                nrows = 5
            df = pd.DataFrame({"x": np.arange(nrows, dtype="int64"), "s": ["r%d" % i for i in range(nrows)]})
            root = os.path.join(ctx.scratch, "h%d" % h)
            if kind in ("_metadata", "_common_metadata"):
                write(root, df, file_scheme="hive", custom_metadata=dict(d0) or None, row_group_offsets=[0, nrows // 2] if nrows > 1 else None)
                path = os.path.join(root, kind)
            else:
                path = root + ".parquet"
                write(path, df, custom_metadata=dict(d0) or None,
                      row_group_offsets=[0, nrows // 2] if (kind == "data2" and nrows > 1) else None)
            case = {"kind": kind, "nrows": nrows, "initial": [[repr(k), repr(v)[:60], len(v)] for k, v in d0.items()], "updates": [],
                    "replay_data": {"kind": kind, "nrows": nrows, "rg2": kind in ("data2", "_metadata", "_common_metadata"), "initial": enc_dict(d0), "updates": []}}
            pf = ParquetFile(path)
            raw0 = kv_of(pf.fmd)
            cur = dict(raw0)
            # write-time verbatim: every given entry is there, next to the library's own 'pandas' entry ...
            want0 = {eb(k): eb(v) for k, v in d0.items()}
            if {k: v for k, v in cur.items() if k != b"pandas"} != want0:
                ctx.fail({"component": "write", "op": "custom_metadata"}, case, "custom_metadata not returned verbatim: %r vs %r" % (cur, want0))
            # ... and is handed out with the right types (READ side)
            read_checks(ctx, pq, pf, raw0, case, "after write")
            # a footer as another writer may leave it (legal in the IDL): the SAME key several times, KeyValue entries WITHOUT
            # value, binary keys / values in every combination with text.  Updates never name the repeated key, so every one of
            # its entries must survive, in order; value-less and binary entries ARE named by updates (removal, replacement)
            foreign = gen_foreign(rng) if (rng.random() < 0.75 and not lat) else None
            if foreign:
                case["replay_data"]["foreign"] = foreign
                case["foreign_entries"] = foreign
                inject_foreign(pq, path, foreign)
                pf = ParquetFile(path)
                raw0 = kv_of(pf.fmd)
                cur = dict(raw0)
                read_checks(ctx, pq, pf, raw0, case, "foreign footer")
            ctx.count("footer_has_duplicate_key", bool(foreign) and any(e[0] == DUPKEY.hex() for e in foreign))
            ctx.count("footer_has_valueless_entry", bool(foreign) and any(e[1] is None for e in foreign))
            ctx.count("footer_foreign_entries", len(foreign or []))
            schema0, rgs0 = pf.fmd.schema, pf.fmd.row_groups
            df0 = ParquetFile(root if kind in ("_metadata", "_common_metadata") else path).to_pandas()
            nupd = rng.choice([1, 2, 3, 5])
            if lat:
                nupd = 3
                case["footer_lattice"] = lat[1]
                case["replay_data"]["lattice"] = lat[1]
            trivial_hist = True
            for step in range(nupd):
                mark(ctx, "history step %d" % step, case)
                before = open(path, "rb").read()
                keys_now = [k for k in cur if k != b"pandas" and k != DUPKEY]
                raw_before = kv_of(ParquetFile(path).fmd)
                u = {}
                # choose the update so that footer deltas of every small size occur
                mode = rng.choice(["shrink", "grow", "mixed", "remove", "same", "empty"] if step else ["grow", "mixed", "shrink"])
                valueless = [k for k in keys_now if cur[k] is None]
                if valueless and rng.random() < 0.5:
                    mode = rng.choice(["remove-valueless", "remove-valueless", "set-valueless"])
                ctx.count("update_mode", mode)
                lat_u = None
                if lat:
                    lat_u = pad_update_for(path, kind == "_metadata", lat[1][step]) if step < 2 else {LATKEY.decode(): None}
                    ctx.count("footer_lattice.step", "no-payload-length" if lat_u is None else ("to F" if step < 2 else "remove"))
                if lat_u is None and cur.get(b"pandas") and rng.random() < 0.1:
                    mode = "replace-pandas"
                if lat_u is not None:
                    u = dict(lat_u)
                    mode = "lattice"
                ctx.count("update_mode_final", mode)
                if lat_u is not None:
                    pass
                elif mode == "replace-pandas":
                    # the user replaces the library's own entry by the same document in another textual form: it must read back verbatim
                    nv = restyle_json(cur[b"pandas"], rng.choice(["compact", "reverse-keys", "spaces", "non-ascii"]))
                    u[rng.choice(["pandas", b"pandas"])] = nv if rng.random() < 0.5 else nv.decode("utf-8")
                elif mode == "empty":
                    pass
                elif mode == "remove-valueless":
                    # ONLY removals of entries that have no value (and of absent keys): the footer must lose exactly these
                    for k in rng.sample(valueless, rng.choice([1, len(valueless)])):
                        u[_maybe_str(k) if rng.random() < 0.5 else k] = None
                    if rng.random() < 0.3:
                        u["absent-key"] = None
                elif mode == "set-valueless":
                    k = rng.choice(valueless)
                    u[_maybe_str(k) if rng.random() < 0.5 else k] = rng.choice(["now set", b"", b"\xff\x00bin", "v" * 17])
                elif mode in ("shrink", "grow", "same") and keys_now:
                    k = rng.choice(keys_now)
                    old_v = cur[k] or b""
                    dl = rng.choice(list(range(1, 10)) + [12, 16, 17, 33, 40])
                    if mode == "shrink":
                        nv = old_v[:max(0, len(old_v) - dl)]
                    elif mode == "grow":
                        nv = old_v + b"z" * dl
                    else:
                        nv = bytes(reversed(old_v))
                    try:
                        ks = k.decode("utf-8") if rng.random() < 0.5 else k
                    except UnicodeDecodeError:
                        ks = k
                    u[ks] = nv if rng.random() < 0.5 else _maybe_str(nv)
                elif mode == "remove" and keys_now:
                    for k in rng.sample(keys_now, rng.choice([1, len(keys_now)])):
                        u[k] = None
                    if rng.random() < 0.3:
                        u["absent-key"] = None
                else:
                    for _ in range(rng.choice([1, 2, 3])):
                        k, v = _kv_vals(rng)
                        if any(eb(k) == eb(k2) for k2 in u):
                            continue
                        u[k] = None if rng.random() < 0.25 else v
                if u:
                    trivial_hist = False
                is_md = kind in ("_metadata", "_common_metadata")
                if rng.random() < 0.12:
                    # an update the library must refuse (value / key of a type that cannot be stored): it has to raise and
                    # leave a valid file with the previous content (the property holds for ANY sequence of updates)
                    bad = dict(u)
                    which = rng.choice(["int-value", "list-value", "int-key", "float-value"])
                    if which == "int-key":
                        bad[7] = "x"
                    else:
                        bad[rng.choice(["rev", "a", "zz-new"])] = {"int-value": 7, "list-value": ["a"], "float-value": 1.5}[which]
                    ctx.count("rejected_update", which)
                    case["updates"].append([["<rejected: %s>" % which, None]])
                    case["replay_data"]["updates"].append({"rejected": which, "u": enc_dict(u)})
                    raised = None
                    try:
                        update_file_custom_metadata(path, bad)
                    except Exception as e:       # noqa
                        raised = type(e).__name__
                    after = open(path, "rb").read()
                    problems = []
                    if raised is None:
                        problems.append("an update with a %s was accepted" % which)
                    try:
                        pf2 = ParquetFile(path)
                        got = dict(kv_of(pf2.fmd))
                        if got != cur:
                            problems.append("key-values after a REFUSED update %r, expected the previous %r" % (_trim(got), _trim(cur)))
                        if not (pf2.fmd.schema == schema0) or not (pf2.fmd.row_groups == rgs0):
                            problems.append("schema / row groups changed by a refused update")
                        if not ParquetFile(root if is_md else path).to_pandas().equals(df0):
                            problems.append("data read back differs after a refused update")
                    except Exception as e:      # noqa
                        problems.append("file unreadable after a refused update (%d -> %d bytes): %s: %s" % (len(before), len(after), type(e).__name__, e))
                    if after[-4:] != b"PAR1":
                        problems.append("file does not end with the magic after a refused update")
                    if problems:
                        ctx.fail({"component": "update_file_custom_metadata", "op": "refused-update", "file_kind": kind, "what": which},
                                 {**case, "failing_step": step}, "; ".join(problems))
                        break
                    continue
                # model inputs: where the footer is, and what the new footer bytes are (library's own serialiser)
                if is_md:
                    loc = 4
                else:
                    size = int.from_bytes(before[-8:-4], "little")
                    loc = len(before) - 8 - size
                # the footer the update has to leave: the entry list computed by the MODEL (update_kvo on the raw entries, values
                # possibly absent), serialised by the library's own serialiser (thrift content is C10's subject)
                mo = pq.call("update_kvo", raw_sx(raw_before), u_sx(u))
                model_kv = [(bytes(k), bytes(v[0]) if v else None) for k, v in mo]
                fmd = from_buffer(before[loc:], "FileMetaData")
                fmd.key_value_metadata = [parquet_thrift.KeyValue(key=k, value=v) if v is not None else parquet_thrift.KeyValue(key=k)
                                          for k, v in model_kv]
                new_footer = bytes(fmd.to_bytes())
                old_footer_len = len(before) - 8 - loc
                delta = len(new_footer) - old_footer_len
                deltas_seen.add(delta)
                ctx.count("footer_delta_class", "0" if delta == 0 else ("-1..-7" if -8 < delta < 0 else ("<=-8" if delta <= -8 else ("+1..+7" if delta < 8 else ">=8"))))
                ctx.count("file_kind", kind)
                case["updates"].append([[repr(k), None if v is None else len(v)] for k, v in u.items()] + [{"footer_delta": delta}])
                case["replay_data"]["updates"].append(enc_dict(u))
                mark(ctx, "history step %d: update_file_custom_metadata" % step, case)
                err = None
                try:
                    update_file_custom_metadata(path, dict(u))
                except Exception as e:           # noqa
                    err = "%s: %s" % (type(e).__name__, e)
                after = open(path, "rb").read()
                cc = {"kind": kind, "step": step, "delta": delta, "before_len": len(before), "loc": loc,
                      "update": case["updates"][-1]}
                # the extracted model takes ~1.5 s per MB of file: on the big files of the footer lattice it runs for the 2**15 lattice and
                # for every fourth history of the larger ones in the quick tier (the oracle below runs on all)
                if (not lat) or (not ctx.quick()) or max(len(before), len(after)) < 50000 or h % 4 == 0:
                    m_loc = pq.call("footer_loc", is_md, before)
                    m_after = pq.call("rewrite_footer", 1, before, loc, new_footer)
                    ctx.correspondence("footer_loc ~ where update_file_custom_metadata finds the footer", cc, m_loc, [loc])
                    ctx.correspondence("rewrite_footer(truncate) ~ bytes left by update_file_custom_metadata", cc,
                                       sha_len(m_after), sha_len(after))
                if lat:
                    ctx.count("footer_lattice.footer_bytes_before->after", "%d->%d" % (old_footer_len, len(new_footer)))
                # ---- the property itself on this step
                cls = {"component": "update_file_custom_metadata", "op": "update_kv", "file_kind": kind,
                       "footer_delta": delta}
                want = spec_update(cur, u)
                problems = []
                if err:
                    problems.append("update raised " + err)
                if after[:loc] != before[:loc]:
                    problems.append("bytes before the footer changed")
                if after[-4:] != b"PAR1":
                    problems.append("file does not end with the magic")
                else:
                    sz = int.from_bytes(after[-8:-4], "little")
                    if (4 if is_md else len(after) - 8 - sz) != loc:
                        problems.append("footer length field %d does not lead back to the footer start (file %d bytes, footer at %d)" % (sz, len(after), loc))
                if not problems:
                    try:
                        pf2 = ParquetFile(path)
                        raw_after = kv_of(pf2.fmd)
                        got = dict(raw_after)
                        if got != want:
                            problems.append("key-values after update %r, expected %r" % (_trim(got), _trim(want)))
                        named = set(eb(k) for k in u)
                        for k0, v0 in u.items():
                            if v0 is None and any(e[0] == eb(k0) for e in raw_after):
                                problems.append("key %r was to be removed but is still in the footer" % (k0,))
                        read_checks(ctx, pq, pf2, raw_after, {**case, "failing_step": step}, "after update")
                        if [e for e in raw_before if e[0] not in named] != [e for e in raw_after if e[0] not in named]:
                            problems.append("entries not named by the update changed: %r -> %r" % (
                                _trim_list([e for e in raw_before if e[0] not in named]), _trim_list([e for e in raw_after if e[0] not in named])))
                        if not (pf2.fmd.schema == schema0):
                            problems.append("schema changed")
                        if not (pf2.fmd.row_groups == rgs0):
                            problems.append("row groups changed")
                        df2 = ParquetFile(root if is_md else path).to_pandas()
                        if not df2.equals(df0):
                            problems.append("data read back differs")
                    except Exception as e:      # noqa
                        problems.append("file unreadable after update: %s: %s" % (type(e).__name__, e))
                if problems:
                    ctx.fail(cls, {**case, "failing_step": step, "before_hex_tail": before[-64:].hex(), "after_hex_tail": after[-64:].hex()},
                             "; ".join(problems))
                    break
                cur = want
            ctx.case(case, trivial=trivial_hist)
        except Exception as e:      # noqa  (a legal history must not raise anywhere: reported with the concrete history)
            import traceback
            ctx.fail({"component": "history", "op": "raised", "what": type(e).__name__}, case,
                     "a legal history raised %s: %s\n%s" % (type(e).__name__, e, traceback.format_exc()[-1200:]))
    # ---- histories on ONE HANDLE: two or more update_custom_metadata(pf, ...) calls with no footer write in between, then the handle
    # writes its metadata (_write_common_metadata, or an append through the handle); later dicts name keys the earlier ones added ----
    n_hs = 40 if ctx.quick() else 400
    for h in range(n_hs):
        case = {"handle_history": h}
        try:
            d0 = {}
            for _ in range(rng.choice([0, 1, 2])):
                k, v = _kv_vals(rng)
                if not any(eb(k) == eb(k2) for k2 in d0):
                    d0[k] = v
            nrows = rng.choice([2, 6])
            df = pd.DataFrame({"x": np.arange(nrows, dtype="int64"), "s": ["r%d" % i for i in range(nrows)]})
            root = os.path.join(ctx.scratch, "hs%d" % h)
            write(root, df, file_scheme="hive", custom_metadata=dict(d0) or None, row_group_offsets=[0, nrows // 2])
            us, named = [], [eb(k) for k in d0]
            for j in range(rng.choice([2, 2, 3])):
                u = {}
                for _ in range(rng.choice([1, 2, 3])):
                    k, v = _kv_vals(rng)
                    if named and rng.random() < 0.7:
                        k = rng.choice(named)
                        if rng.random() < 0.5:
                            k = _maybe_str(k)
                    elif rng.random() < 0.7:
                        k = _maybe_str(eb(k))          # new keys mostly as text
                    if any(eb(k) == eb(k2) for k2 in u) or eb(k) == b"pandas":
                        continue
                    u[k] = None if rng.random() < 0.4 else v
                us.append(u)
                named += [eb(k) for k, v in u.items() if v is not None]
            finish = rng.choice(["_write_common_metadata", "append"])
            case = {"stage": "handle-history", "nrows": nrows, "initial": enc_dict(d0), "updates": [enc_dict(u) for u in us], "finish": finish,
                    "shown": [[[repr(k), None if v is None else repr(v)[:30]] for k, v in u.items()] for u in us]}
            if h % 2:
                # two related handles: which one each update goes through, which one writes
                case["twin"] = rng.choice(["slice", "copy", "deepcopy", "pickle"])
                case["who"] = [rng.randrange(2) for _ in us]
                case["writer"] = rng.choice([1 - case["who"][-1], 1 - case["who"][-1], rng.randrange(2)])
            ctx.case(case)
            ctx.count("handle_history.finish", finish)
            ctx.count("handle_history.twin", case.get("twin"))
            mark(ctx, "handle-history", case)
            if case.get("twin"):
                problems = twin_history(root, df, us, case["who"], finish, case["twin"], case["writer"])
            else:
                problems = handle_history(root, df, us, finish)
            if problems:
                ctx.fail({"component": "update_custom_metadata(handle)", "op": "sequence-on-one-handle", "finish": finish}, case, "; ".join(problems))
        except Exception as e:      # noqa
            import traceback
            ctx.fail({"component": "handle-history", "op": "raised", "what": type(e).__name__}, case,
                     "a legal handle history raised %s: %s\n%s" % (type(e).__name__, e, traceback.format_exc()[-1200:]))
    # ---- histories with APPENDS (wave 6) ----------------------------------------------------------------------------------
    import shutil
    for h in range(30 if ctx.quick() else 300):
        spec = gen_append_history(rng)
        ctx.case(spec)
        ctx.count("append_history.ops", "+".join(st["op"] for st in spec["steps"]))
        mark(ctx, "append-history", spec)
        root = os.path.join(ctx.scratch, "ah%d" % h)
        try:
            problems = run_append_history(root, spec)
        except Exception as e:      # noqa
            import traceback
            problems = ["the history raised %s: %s\n%s" % (type(e).__name__, e, traceback.format_exc()[-800:])]
        shutil.rmtree(root, ignore_errors=True)
        if os.path.exists(root + ".parquet"):
            os.unlink(root + ".parquet")
        if problems:
            ctx.fail({"component": "append", "op": "append-history", "scheme": spec["scheme"]}, spec, "; ".join(problems)[:1500])
    pq.close()
    ctx.extra["footer_deltas_seen"] = sorted(deltas_seen)
    small = set(range(-8, 9))
    ctx.extra["small_deltas_missing"] = sorted(small - deltas_seen)


def strict_view_ok(pf, raw):
    keys = [k for k, _ in raw]
    rep_keys = set(py_canon(k) for k in keys if keys.count(k) > 1)
    want = {}
    for k, v in raw:
        want[py_canon(k)] = py_canon(v)
    want = {k: v for k, v in want.items() if k not in rep_keys}
    try:
        return view_of(want) == view_of({k: v for k, v in pf.key_value_metadata.items() if k not in rep_keys})
    except Exception as e:      # noqa
        print("reading key_value_metadata raised %s: %s" % (type(e).__name__, e))
        return False


def twin_history(root, df, us, who, finish, twin, writer):
    """TWO related handles (wave 7): the handle opened from disk and a twin derived from it (slice of all row groups, copy.copy,
    copy.deepcopy, pickle round trip).  Update k goes through handle who[k]; each handle must hold exactly the updates applied to IT;
    then handle `writer` writes the footer: the key-values on disk are the writer's.  -> list of problems"""
    import copy
    import pickle
    from fastparquet import ParquetFile
    from fastparquet.util import update_custom_metadata
    pf = ParquetFile(root)
    tw = {"slice": lambda: pf[:len(pf.row_groups)], "copy": lambda: copy.copy(pf), "deepcopy": lambda: copy.deepcopy(pf),
          "pickle": lambda: pickle.loads(pickle.dumps(pf))}[twin]()
    hs = [pf, tw]
    names = ["the opened handle", "its %s twin" % twin]
    want = [dict(kv_of(pf.fmd)), dict(kv_of(pf.fmd))]
    problems = []
    for i, (u, w) in enumerate(zip(us, who)):
        update_custom_metadata(hs[w], dict(u))
        want[w] = spec_update(want[w], u)
        for j in (0, 1):
            got = dict(kv_of(hs[j].fmd))
            seen = {eb(k): (None if v is None else eb(v)) for k, v in hs[j].key_value_metadata.items()}
            if got != want[j] or seen != want[j]:
                problems.append("after update %d (through %s) %s holds %r and shows %r, expected %r" % (
                    i, names[w], names[j], _trim(got), _trim(seen), _trim(want[j])))
                return problems
    if finish == "append":
        hs[writer].write_row_groups(df)
    else:
        hs[writer]._write_common_metadata()
    pf2 = ParquetFile(root)
    got = {k: v for k, v in kv_of(pf2.fmd) if k != b"pandas"}
    if got != {k: v for k, v in want[writer].items() if k != b"pandas"}:
        problems.append("the footer written by %s (%s) holds %r, expected its own entries %r" % (
            names[writer], finish, _trim_list(kv_of(pf2.fmd)), _trim(want[writer])))
    return problems


def handle_history(root, df, us, finish):
    """several updates through ONE ParquetFile handle, then the handle writes the footer; -> list of problems"""
    from fastparquet import ParquetFile
    from fastparquet.util import update_custom_metadata
    pf = ParquetFile(root)
    want = dict(kv_of(pf.fmd))
    problems = []
    for i, u in enumerate(us):
        update_custom_metadata(pf, dict(u))
        want = spec_update(want, u)
        got = dict(kv_of(pf.fmd))
        if got != want or len(kv_of(pf.fmd)) != len(got):
            problems.append("after update %d on the handle its entries are %r, expected %r" % (i, _trim_list(kv_of(pf.fmd)), _trim(want)))
            break
        seen = {eb(k): (None if v is None else eb(v)) for k, v in pf.key_value_metadata.items()}
        if seen != want:
            problems.append("after update %d pf.key_value_metadata shows %r, expected %r" % (i, _trim(seen), _trim(want)))
            break
    if finish == "append":
        pf.write_row_groups(df)
    else:
        pf._write_common_metadata()
    pf2 = ParquetFile(root)
    got = {k: v for k, v in kv_of(pf2.fmd) if k != b"pandas"}
    if got != {k: v for k, v in want.items() if k != b"pandas"} or len(kv_of(pf2.fmd)) != len(dict(kv_of(pf2.fmd))):
        problems.append("the footer written by %s holds %r, expected %r" % (finish, _trim_list(kv_of(pf2.fmd)), _trim(want)))
    n_want = len(df) * (2 if finish == "append" else 1)
    if len(pf2.to_pandas()) != n_want:
        problems.append("%d rows read back, expected %d" % (len(pf2.to_pandas()), n_want))
    return problems


def gen_append_history(rng):
    """APPENDS in the history (wave 6): write(append=True) with / without custom_metadata=, pf.write_row_groups after a handle-level
    update, frames with / without .attrs, after key-values of various sizes (a multi-kB 'blob' among them) were set and removed"""
    scheme = rng.choice(["simple", "simple", "hive"])
    d0 = {"keep": "k" * rng.choice([1, 40])}
    if rng.random() < 0.7:
        d0["blob"] = "v" * rng.choice([300, 3000, 9000])
    if rng.random() < 0.4:
        d0[b"bin"] = b"\xff\x00" * 5
    steps = []
    for _ in range(rng.choice([2, 3, 4])):
        op = rng.choice(["handle_update_append", "handle_update_append", "append", "append_cm", "update_file"])
        u = {}
        for k in rng.sample(["blob", "keep", "extra", "other"], rng.choice([1, 2])):
            u[k] = rng.choice([None, None, "n" * rng.choice([1, 50, 4000])])
        st = {"op": op, "attrs": rng.choice([None, None, {"a": rng.randrange(9)}, {"unit": "m", "n": [1, 2]}])}
        if op != "append":
            st["u"] = enc_dict(u)
        steps.append(st)
    return {"stage": "append-history", "scheme": scheme, "attrs0": rng.choice([None, {"a": 0}]), "initial": enc_dict(d0), "steps": steps}


def run_append_history(root, spec):
    """-> list of problems.  After every step: the file is framed and readable, rows = old + new, every key the step did not name
    is unchanged (the library's own 'pandas' entry excepted for appends, which may re-dump it)"""
    import numpy as np
    import pandas as pd
    from fastparquet import ParquetFile, write, update_file_custom_metadata
    from fastparquet.util import update_custom_metadata

    def frame(i, attrs):
        df = pd.DataFrame({"x": np.arange(3, dtype="int64") + 10 * i, "s": ["r%d" % i] * 3})
        if attrs:
            df.attrs = dict(attrs)
        return df
    simple = spec["scheme"] == "simple"
    path = root + ".parquet" if simple else root
    kw = {} if simple else {"file_scheme": "hive"}
    write(path, frame(0, spec["attrs0"]), custom_metadata=dec_dict(spec["initial"]), **kw)
    foot = path if simple else os.path.join(path, "_metadata")
    nrows = 3
    problems = []
    for i, st in enumerate(spec["steps"], 1):
        before = dict(kv_of(ParquetFile(path).fmd))
        u = dec_dict(st["u"]) if "u" in st else {}
        named = set(eb(k) for k in u)
        new_rows = 0
        try:
            if st["op"] == "update_file":
                update_file_custom_metadata(foot, dict(u))
                want_named = "set"
            elif st["op"] == "handle_update_append":
                pf = ParquetFile(path)
                update_custom_metadata(pf, dict(u))
                pf.write_row_groups(frame(i, st["attrs"]))
                new_rows, want_named = 3, "set"
            elif st["op"] == "append":
                write(path, frame(i, st["attrs"]), append=True, **kw)
                new_rows, want_named = 3, "none"
            else:
                write(path, frame(i, st["attrs"]), append=True, custom_metadata=dict(u), **kw)
                new_rows, want_named = 3, "either"      # whether an append merges custom_metadata= or ignores it is not the property's subject
        except Exception as e:      # noqa
            problems.append("step %d (%s) raised %s: %s" % (i, st["op"], type(e).__name__, str(e)[:200]))
            break
        nrows += new_rows
        b = open(foot, "rb").read()
        if b[-4:] != b"PAR1" or b[:4] != b"PAR1":
            problems.append("step %d (%s): the file is not framed by the magic" % (i, st["op"]))
            break
        try:
            pf2 = ParquetFile(path)
            after = dict(kv_of(pf2.fmd))
            got_rows = len(pf2.to_pandas())
        except Exception as e:      # noqa
            problems.append("step %d (%s): unreadable afterwards (%d bytes, trailer %s): %s: %s" % (
                i, st["op"], len(b), b[-8:].hex(), type(e).__name__, str(e)[:150]))
            break
        if got_rows != nrows:
            problems.append("step %d (%s): %d rows, expected %d" % (i, st["op"], got_rows, nrows))
        skip = {b"pandas"} if new_rows else set()
        for k in (set(before) | set(after)) - named - skip:
            if before.get(k, "<absent>") != after.get(k, "<absent>"):
                problems.append("step %d (%s, frame attrs %r) changed key %r, which it did not name: %r -> %r" % (
                    i, st["op"], st["attrs"], k, _short_v(before.get(k, "<absent>")), _short_v(after.get(k, "<absent>"))))
        for k0, v0 in u.items():
            k = eb(k0)
            want = [before.get(k, "<absent>")] if want_named == "none" else []
            if want_named in ("set", "either"):
                want.append("<absent>" if v0 is None else eb(v0))
            if want_named == "either":
                want.append(before.get(k, "<absent>"))
            if after.get(k, "<absent>") not in want:
                problems.append("step %d (%s): named key %r is %r afterwards" % (i, st["op"], k, _short_v(after.get(k, "<absent>"))))
        if problems:
            break
    return problems


def _short_v(v):
    return v if (v is None or isinstance(v, str)) else (v[:24], len(v))


def enc_dict(d):
    return [[isinstance(k, str), eb(k).hex(), None if v is None else isinstance(v, str), None if v is None else eb(v).hex()]
            for k, v in d.items()]


def dec_dict(l):
    out = {}
    for ks, k, vs, v in l:
        k = bytes.fromhex(k)
        k = k.decode("utf-8") if ks else k
        if v is not None:
            v = bytes.fromhex(v)
            v = v.decode("utf-8") if vs else v
        out[k] = v
    return out


def sha_len(b):
    return [len(b), C.sha(bytes(b))[:20]]


def _maybe_str(b):
    try:
        return b.decode("utf-8")
    except UnicodeDecodeError:
        return b


def _trim(d):
    return {k[:20]: (None if v is None else (v[:20], len(v))) for k, v in d.items()}


def replay(rep):
    """Re-execute a recorded history on the real code and report what the property observes."""
    import shutil
    import tempfile
    C.use_shadow()
    import numpy as np
    import pandas as pd
    from fastparquet import ParquetFile, write, update_file_custom_metadata
    if rep.get("kind") == "no-failing-input-found":
        print(json.dumps(rep, indent=1)[:6000])
        return 1
    if rep["case"].get("stage") == "append-history":
        import shutil
        import tempfile
        tmp = tempfile.mkdtemp(prefix="verif-C16-replay-", dir="/tmp")
        try:
            problems = run_append_history(os.path.join(tmp, "ds"), rep["case"])
            print("history: %s, initial %r" % (rep["case"]["scheme"], [x[1][:16] for x in rep["case"]["initial"]]))
            for st in rep["case"]["steps"]:
                print("  ", st["op"], "attrs", st["attrs"], "update", [[x[1][:16], None if x[3] is None else len(x[3]) // 2] for x in st.get("u", [])])
            for p in problems:
                print("PROPERTY FAILS:", p)
            if not problems:
                print("ok")
            return 1 if problems else 0
        finally:
            shutil.rmtree(tmp, ignore_errors=True)
    if rep["case"].get("stage") == "handle-history":
        import shutil
        import tempfile
        c = rep["case"]
        tmp = tempfile.mkdtemp(prefix="verif-C16-replay-", dir="/tmp")
        try:
            nrows = c["nrows"]
            df = pd.DataFrame({"x": np.arange(nrows, dtype="int64"), "s": ["r%d" % i for i in range(nrows)]})
            root = os.path.join(tmp, "ds")
            write(root, df, file_scheme="hive", custom_metadata=dec_dict(c["initial"]) or None, row_group_offsets=[0, nrows // 2])
            try:
                if c.get("twin"):
                    problems = twin_history(root, df, [dec_dict(u) for u in c["updates"]], c["who"], c["finish"], c["twin"], c["writer"])
                    print("twin %s, updates through %r, footer written by handle %d" % (c["twin"], c["who"], c["writer"]))
                else:
                    problems = handle_history(root, df, [dec_dict(u) for u in c["updates"]], c["finish"])
            except Exception as e:      # noqa
                problems = ["raised %s: %s" % (type(e).__name__, e)]
            print("updates on one handle: %r, then %s" % (c["shown"], c["finish"]))
            for p in problems:
                print("PROPERTY FAILS:", p)
            if not problems:
                print("ok")
            return 1 if problems else 0
        finally:
            shutil.rmtree(tmp, ignore_errors=True)
    rd = rep["case"].get("replay_data")
    if rd is None and "old" in rep["case"] and "update" in rep["case"]:
        # a direct call of util.update_custom_metadata
        from fastparquet import parquet_thrift
        from fastparquet.util import update_custom_metadata
        c = rep["case"]
        old = [(bytes.fromhex(k), bytes.fromhex(v)) for k, v in c["old"]]
        us = [dec_dict(x) for x in c["updates_typed"]] if "updates_typed" in c else \
            [{bytes.fromhex(k): (None if v is None else bytes.fromhex(v)) for k, v in c["update"]}]
        u = us
        fmd = parquet_thrift.FileMetaData(key_value_metadata=[parquet_thrift.KeyValue(key=k, value=v) for k, v in old])
        want = dict(old)
        try:
            for uj in us:
                update_custom_metadata(fmd, dict(uj))
                want = spec_update(want, uj)
        except Exception as e:      # noqa
            print("update_custom_metadata(%r, %r) raised %s: %s" % (old, u, type(e).__name__, e))
            return 1
        got = dict(kv_of(fmd))
        print("update_custom_metadata(%r, %r) -> %r; dict-update semantics: %r" % (old, u, kv_of(fmd), want))
        return 0 if (got == want and len(kv_of(fmd)) == len(got)) else 1
    if rd is None:
        print(json.dumps(rep, indent=1)[:6000])
        return 1
    tmp = tempfile.mkdtemp(prefix="verif-C16-replay-", dir="/tmp")
    try:
        nrows = rd["nrows"]
        df = pd.DataFrame({"x": np.arange(nrows, dtype="int64"), "s": ["r%d" % i for i in range(nrows)]})
        d0 = dec_dict(rd["initial"])
        rgo = [0, nrows // 2] if (rd["rg2"] and nrows > 1) else None
        if rd["kind"] in ("_metadata", "_common_metadata"):
            root = os.path.join(tmp, "ds")
            write(root, df, file_scheme="hive", custom_metadata=dict(d0) or None, row_group_offsets=rgo)
            path = os.path.join(root, rd["kind"])
        else:
            path = root = os.path.join(tmp, "f.parquet")
            write(path, df, custom_metadata=dict(d0) or None, row_group_offsets=rgo)
        pq = C.Pqref()
        if rd.get("foreign"):
            inject_foreign(pq, path, rd["foreign"])
        pq.close()
        pf0 = ParquetFile(path)
        cur = dict(kv_of(pf0.fmd))
        df = ParquetFile(root).to_pandas()
        bad = 0
        if not strict_view_ok(pf0, kv_of(pf0.fmd)):
            print("before any update: key_value_metadata does not return the stored entries with their types: %r" % (view_of(pf0.key_value_metadata),))
            return 1
        for i, ul in enumerate(rd["updates"]):
            before = open(path, "rb").read()
            raw_before = kv_of(ParquetFile(path).fmd)
            if isinstance(ul, dict) and "rejected" in ul:
                u = dec_dict(ul["u"])
                badu = dict(u)
                if ul["rejected"] == "int-key":
                    badu[7] = "x"
                else:
                    badu["rev"] = {"int-value": 7, "list-value": ["a"], "float-value": 1.5}[ul["rejected"]]
                try:
                    update_file_custom_metadata(path, badu)
                    print("step %d: the refused update (%s) was ACCEPTED" % (i, ul["rejected"]))
                    return 1
                except Exception as e:      # noqa
                    print("step %d: refused update raised %s" % (i, type(e).__name__))
                want, named = cur, set()
            else:
                u = dec_dict(ul)
                update_file_custom_metadata(path, dict(u))
                want, named = spec_update(cur, u), set(eb(k) for k in u)
            after = open(path, "rb").read()
            try:
                pf2 = ParquetFile(path)
                raw_after = kv_of(pf2.fmd)
                got = dict(raw_after)
                keep = [e for e in raw_before if e[0] not in named] == [e for e in raw_after if e[0] not in named]
                strict = strict_view_ok(pf2, raw_after)
                ok = got == want and keep and strict and ParquetFile(root).to_pandas().equals(df) and after[-4:] == b"PAR1"
                msg = "kv equal: %s, untouched entries kept: %s, read with the right types: %s" % (got == want, keep, strict)
            except Exception as e:      # noqa
                ok, msg = False, "unreadable: %s: %s" % (type(e).__name__, e)
            print("step %d: file %d -> %d bytes, tail %s : %s" % (i, len(before), len(after), after[-8:].hex(), "ok" if ok else "PROPERTY FAILS (" + msg + ")"))
            if not ok:
                bad = 1
                break
            cur = want
        return bad
    finally:
        shutil.rmtree(tmp, ignore_errors=True)
