"""C06 — every partial read agrees with the corresponding part of the full read (DESIGN.md section 6, C06)."""
import json
import os
import warnings

from harness import common as C

TRUSTED = [
    "Coq 8.16.1 kernel + coqc; vm_compute only in the closed Example; no native_compute",
    "translators/readloops.py (Python ast -> Gallina for ParquetFile.head, ParquetFile.iter_row_groups and the row-group loop of "
    "ParquetFile.to_pandas on their default path: no filters, row_filter=False) and its prelude Dataset/PyPrelude.v (unbound locals, numpy basic slicing with clamping, "
    "slice assignment refusing a length mismatch)",
    "extraction: ExtrOcamlBasic only, no Extract Constant; ocaml/driver.ml s-expression I/O",
    "section variables of the model: rows d = what core.read_row_group delivers for a row-group descriptor (C01/C03 cover the decoding), "
    "nrows d = rg.num_rows with the hypothesis nrows d = |rows d| (the writer's bookkeeping, C01/C17; checked on every generated dataset), "
    "descriptor/name equality reflect structural equality (ThriftObject.__eq__, str.__eq__), deser (ser l) = Some l (thrift round trip, C10)",
    "not modelled, observed only through the correspondence/oracle runs: dtype handling and block allocation of dataframe.empty, "
    "categorical dictionaries, partition label parsing, the range-index labels (positional, not compared)",
    "Python glue: dataset/program generators (harness/reads.py), recovery of row ids from the injective columns id/u/g, "
    "cell canonicalisation (harness/frames.cells), CPython's own list slicing used by the oracle",
]


def _init():
    warnings.filterwarnings("ignore")
    C.use_shadow()


def _translated(ctx):
    """regenerate Gallina from api.py's head / to_pandas loops and re-prove the obligations over the generated text;
    a construct outside the translator's fragment -> fallback to the hand model + correspondence (recorded, not an alarm)"""
    import sys
    sys.path.insert(0, C.VERIF)
    from translators import readloops
    res = readloops.run(C.REPO, ctx.gen_dir)
    ctx.extra["translator"] = {k: {kk: vv for kk, vv in v.items() if kk != "file"} for k, v in res.items()}
    for unit, proofs in (("GenToPandas", "GenToPandasProofs.v"), ("GenHead", "GenHeadProofs.v"), ("GenIter", "GenIterProofs.v")):
        r = res[unit]
        if r["status"] != "translated":
            ctx.notes.append("translator_fallback: %s: %s" % (unit, r["reason"]))
            continue
        ok, out = C.coqc(r["file"], extra_q=[(ctx.gen_dir, "PqGen")])
        if not ok:
            # generated text that does not type-check is a translator limitation, not a finding about the code
            ctx.notes.append("translator_fallback: %s: generated file rejected by coqc: %s" % (unit, out[-300:]))
            ctx.extra["translator"][unit]["status"] = "translator_fallback"
            continue
        ctx.coq_file(os.path.join(C.COQ, "genproofs", proofs), extra_q=[(ctx.gen_dir, "PqGen")])


def _gsx(x):
    """Python value (as sent to / parsed from pqref) -> Gallina term of type Sx.sx"""
    if isinstance(x, bool):
        return "SZ %d" % int(x)
    if isinstance(x, int):
        return "SZ (%d)" % x
    if isinstance(x, str):
        x = x.encode("utf-8")
    if isinstance(x, (bytes, bytearray)):
        return "SB [%s]" % "; ".join("%d" % b for b in x)
    if x is None:
        return "SL []"
    return "SL [%s]" % "; ".join(_gsx(e) for e in x)


def _extract_agrees(ctx, pairs):
    """extraction and kernel evaluation agree: for a sample of the commands pqref answered, `Cmd.run input = output` is
    proved by vm_compute inside coqc (DESIGN 3.2)"""
    path = os.path.join(ctx.gen_dir, "ExtractAgrees.v")
    with open(path, "w") as f:
        f.write("From Coq Require Import NArith ZArith List.\nFrom Pq Require Import Extract.Sx Extract.Cmd.\nImport ListNotations.\n"
                "Open Scope Z_scope.\nOpen Scope N_scope.\n")
        for k, (cmd, out) in enumerate(pairs):
            f.write("Example extract_agrees_%d : Cmd.run (%s) = (%s).\nProof. vm_compute. reflexivity. Qed.\n" % (k, _gsx(list(cmd)), _gsx(out)))
    ctx.coq_file(path, extra_q=[(ctx.gen_dir, "PqGen")])


def _sy(x):
    return [(_sy(e) if isinstance(e, list) else (bytes(e).decode() if isinstance(e, (bytes, bytearray)) else e)) for e in x]


def _slice_lattice(ctx, pq):
    """the transcription of PySlice_AdjustIndices / list_subscript against CPython itself"""
    rng = ctx.rng
    vals = [None] + list(range(-10, 11))
    steps = [None, -4, -3, -2, -1, 0, 1, 2, 3, 4, 7, -7]
    cases = []
    for ln in range(0, 9):
        for a in vals:
            for b in vals:
                for k in steps:
                    cases.append((ln, a, b, k))
    if ctx.quick():
        small = [c for c in cases if c[0] <= 3]
        cases = small + rng.sample([c for c in cases if c[0] > 3], 6000)
    # a few far-out-of-range values
    for _ in range(200):
        cases.append((rng.randrange(0, 12), rng.choice([None, 10**12, -10**12, rng.randint(-40, 40)]),
                      rng.choice([None, 2**63 - 1, -2**63, rng.randint(-40, 40)]), rng.choice([None, 10**9, -10**9, rng.randint(-5, 5)])))

    def o(v):
        return [] if v is None else [v]
    outs = pq.batch([("py_slice", ln, o(a), o(b), o(k)) for ln, a, b, k in cases])
    for (ln, a, b, k), mo in zip(cases, outs):
        try:
            impl = ["ok", list(range(ln))[slice(a, b, k)]]
        except ValueError:
            impl = ["fail", "ValueError"]
        ctx.correspondence("py_slice ~ CPython list slicing", {"len": ln, "slice": [a, b, k]}, _sy(mo), impl)
    ctx.count("py_slice.cases", len(cases))
    picks = [(ln, i) for ln in range(0, 9) for i in range(-11, 12)]
    outs = pq.batch([("py_pick", ln, i) for ln, i in picks])
    for (ln, i), mo in zip(picks, outs):
        try:
            impl = ["ok", list(range(ln))[i]]
        except IndexError:
            impl = ["fail", "IndexError"]
        ctx.correspondence("py_pick ~ CPython list indexing", {"len": ln, "i": i}, _sy(mo), impl)
    ctx.evaluations += len(cases) + len(picks)
    # the translator prelude's numpy idioms against numpy itself: v[lo:hi] (clamping) and v[lo:hi][:] = xs (length check)
    import numpy as np
    nps = [(ln, lo, hi) for ln in range(0, 7) for lo in range(-9, 10) for hi in range(-9, 10)]
    outs = pq.batch([("np_slice", ln, lo, hi) for ln, lo, hi in nps])
    for (ln, lo, hi), mo in zip(nps, outs):
        v = np.arange(ln)[lo:hi]
        impl = [int(v[0]) if len(v) else None, len(v)]
        mo = [mo[0] if mo[1] else None, mo[1]]
        ctx.correspondence("PyPrelude.np_slice ~ numpy basic slicing", {"len": ln, "lo": lo, "hi": hi}, mo, impl)
    ws = []
    for ln in range(0, 6):
        for lo in range(-2, 7):
            for hi in range(lo - 1, 8):
                for k in (0, 2, 3, max(0, min(hi, ln) - max(lo, 0))):
                    ws.append((ln, lo, hi, k))
    # (a length-1 source is broadcast by numpy into a target of any length; the prelude refuses every length mismatch -
    #  stated there; the reader never relies on that broadcast on the modelled path, so those cases are left out)
    ws = sorted(set(w for w in ws if not (w[3] == 1 and len(range(w[0])[w[1]:w[2]]) != 1)))
    outs = pq.batch([("write_slice", lo, hi, [100 + j for j in range(k)], [[] if j % 2 else [j] for j in range(ln)]) for ln, lo, hi, k in ws])
    for (ln, lo, hi, k), mo in zip(ws, outs):
        arr = np.array([-1 if j % 2 else j for j in range(ln)], dtype="int64")
        try:
            arr[lo:hi][:] = np.array([100 + j for j in range(k)], dtype="int64")
            impl = ["ok", [[] if x == -1 else [int(x)] for x in arr]]
        except ValueError:
            impl = ["fail", "ShapeError"]
        ctx.correspondence("PyPrelude.write_slice ~ numpy slice assignment", {"len": ln, "lo": lo, "hi": hi, "nvalues": k}, _sy(mo), impl)
    ctx.evaluations += len(nps) + len(ws)


def run(ctx):
    C.coq_lib()
    ctx.trusted = TRUSTED
    ctx.assume = ["nrows d = length (rows d) for every row group (writer bookkeeping; checked on every generated dataset)",
                  "head(n) for natural n; iteration claims need at least one data column"]
    ctx.coq_file(os.path.join(C.COQ, "props", "C06.v"))
    _translated(ctx)
    if not ctx.quick():
        # independent re-check of the compiled theorems (and everything they depend on) by coqchk
        rc, out = C.run(["coqchk", "-o", "-silent", "-Q", "theories", "Pq", "-Q", "props", "", "C06"], cwd=C.COQ, timeout=1800)
        ctx.obligation("coqchk -o C06.vo: re-checked, Axioms: <none>", rc == 0 and "* Axioms: <none>" in out, out[-1500:])
        ctx.checker_cmds.append("coqchk -o -silent -Q theories Pq -Q props '' C06")
    bad = C.hygiene()
    ctx.obligation("hygiene: no Admitted/Axiom/Parameter/... in coq/", not bad, "; ".join(bad))
    C.shadow()
    pq = C.Pqref()
    _slice_lattice(ctx, pq)
    from harness import reads as R      # noqa (imports pandas only; fastparquet is imported in the workers)
    rng = ctx.rng
    quick = ctx.quick()
    nds = 60 if quick else 400
    nprog = 50 if quick else 300
    ctx.rule = ("(dataset, access program) pairs. Dataset: 0..6 written row groups of 1..13 rows (+ fabricated empty and duplicated, i.e. "
                "structurally equal, descriptors), simple file (opened by path or from an open file object), MULTI: single-file parts without _metadata each written from the columns in its own order (opened as directory or list), or hive directory (opened by "
                "directory or _metadata), 0..2 partition columns, optionally a written index, 0..3 extra columns over 15 dtypes, page size default/64/200 bytes (several data pages per chunk), data page v1/v2; every frame "
                "carries the injective columns id/u/g. Program: <= 3 handle operations from {slice [a:b:k] with None/negative/out-of-range/zero "
                "step, integer pick, pickle, copy, deepcopy} then one of to_pandas / iter_row_groups(categories?) / head(n at every "
                "row-group boundary +-1) / count / len, 30% of the to_pandas / iter / count reads with a row-group level filter id <|<=|>|>= k (k at every row-group boundary), with columns None|subset in any order|repeated|empty|unknown and index "
                "default|False|one available name (stored or partition column). Every dataset carries a tz-aware datetime column t (also used as written/explicit index) and, "
                "besides the random programs, a fixed state-roundtrip stream (to_pandas / iter / head through pickle, copy, deepcopy); two fixed datasets have a NAMED, stepped range index (stored in the pandas metadata only), three fixed "
                "datasets hold tz-aware, ordered-categorical, nullable, text and ms/ns datetime columns. Confirmation stream (known finding): two index names. "
                "trivial = no handle operation and to_pandas() without arguments; distinct = distinct (dataset spec, program)")
    jobs = []
    # fixed corner datasets first, then random ones
    corners = [{"nrg": 3, "scheme": "simple", "rich": True, "index": "t"}, {"nrg": 2, "scheme": "hive", "rich": True, "part": ["p"]},
               {"nrg": 4, "scheme": "simple", "rich": True}, {"nrg": 3, "scheme": "simple", "index": "rix"},
               {"nrg": 2, "scheme": "hive", "index": "rix"},
               {"nrg": 0, "scheme": "simple"}, {"nrg": 0, "scheme": "hive"}, {"nrg": 1, "scheme": "simple"},
               {"nrg": 3, "scheme": "hive", "part": ["p"]}, {"nrg": 6, "scheme": "simple"}, {"nrg": 2, "scheme": "hive", "part": ["p", "q"]},
               {"nrg": 4, "scheme": "multi"}, {"nrg": 3, "scheme": "multi", "rich": True}]
    for i in range(nds):
        ds = R.gen_dataset(rng, corners[i] if i < len(corners) else None)
        jobs.append((ds, None, rng.randrange(1 << 40), nprog, True))
    # corpus of minimised past disagreements
    cdir = os.path.join(C.VERIF, "corpus", "C06")
    corpus = []
    if os.path.isdir(cdir):
        for fn in sorted(os.listdir(cdir)):
            if fn.endswith(".json") and not fn.startswith("hp_"):      # hp_*: handle programs, run by handleprog.stream
                c = json.load(open(os.path.join(cdir, fn)))
                corpus.append((c["ds"], [c["prog"]], 0, 0, False))
    results = _run_jobs(ctx, corpus + jobs)
    cmds, meta = [], []
    for r in results:
        ds = r["ds"]
        if r["error"]:
            raise RuntimeError("dataset could not be built/observed: %s\n%s" % (json.dumps(ds), r["error"]))
        if r.get("crashed"):
            continue
        if r.get("full_error"):
            ctx.fail({"component": "read", "terminal": "to_pandas", "what": "error", "scheme": ds["scheme"], "full_read": True},
                     {"ds": ds, "prog": {"ops": [], "rd": ["to_pandas", None, {"kind": "default", "names": []}]}},
                     "the full read of the dataset raised " + r["full_error"])
            continue
        b = r["base"]
        ctx.count("row_groups", len(b["rgs"]))
        ctx.count("scheme/open", ds["scheme"] + "/" + ds["open"])
        ctx.count("partition_columns", len(b["pcols"]))
        ctx.count("page_size/data_page_version", "%s/v%s" % (ds.get("page_size"), ds.get("dpv", 1)))
        ctx.count("empty_row_groups", sum(1 for g in b["rgs"] if g[1] == 0))
        ctx.count("equal_descriptors", len(b["rgs"]) - len(set(g[0] for g in b["rgs"])))
        # standing assumptions of the theorems, checked on this dataset
        dcase = {"ds": ds}
        if b["hypotheses_violated"]:
            ctx.fail({"component": "model-hypotheses", "what": "hypothesis"}, dcase,
                     "a hypothesis of the C06 theorems does not hold on this dataset: " + "; ".join(b["hypotheses_violated"]))
        if any(g[1] != len(g[2]) for g in b["rgs"]):
            ctx.fail({"component": "row-count-metadata", "what": "count"}, dcase,
                     "num_rows of a row group differs from the rows its chunks deliver: %r" % [(g[1], len(g[2])) for g in b["rgs"]])
        # what was written is what the row groups hold (C01's subject; here it guards the instantiation of `rows`):
        # without fabricated descriptors the ids of all row groups are 0..N-1, each once; in a simple file in written order
        n = sum(ds["sizes"])
        ids = [i for g in b["rgs"] for i in g[2]]
        if not ds["fab"] and (sorted(ids) != list(range(n)) or (ds["scheme"] == "simple" and ids != list(range(n)))):
            ctx.fail({"component": "row-group-read", "what": "cells"}, dcase,
                     "the row groups read one by one do not hold the written rows 0..%d in order: %r" % (n - 1, ids[:40]))
        if b["total"] != b["full_len"]:
            ctx.fail({"component": "read", "terminal": "to_pandas", "what": "count"}, dcase,
                     "sum of num_rows %d but the full read has %d rows" % (b["total"], b["full_len"]))
        for p in r["programs"]:
            prog = p["prog"]
            case = {"ds": ds, "prog": prog}
            rd = prog["rd"]
            trivial = (not prog["ops"]) and rd[0] == "to_pandas" and rd[1] is None and rd[2]["kind"] == "default"
            ctx.case(case, trivial=trivial)
            ctx.count("terminal", rd[0])
            ctx.count("handle_ops", len(prog["ops"]))
            ctx.count("filters", "none" if not prog.get("filters") else prog["filters"][0][1])
            for op in prog["ops"]:
                ctx.count("op", op[0])
            ctx.count("stream", p["stream"])
            ctx.count("impl_outcome", p["impl"][0] if p["impl"][0] == "ok" else p["impl"][1])
            known = False
            if p["problems"]:
                newf = ctx.fail(p["cls"], case, "; ".join(t for _, t in p["problems"]))
                known = not newf
            cmds.append(tuple(p["read_prog"]))
            cmds.append(tuple(p["spec_prog"]))
            cmds.append(tuple(p["spec_pos"]))
            meta.append((case, p, known))
    outs = pq.batch(cmds)
    pq.close()
    if len(outs) != len(cmds):
        raise RuntimeError("pqref answered %d of %d commands" % (len(outs), len(cmds)))
    pick = sorted(rng.sample(range(len(cmds)), min(20, len(cmds))))
    _extract_agrees(ctx, [(cmds[i], outs[i]) for i in pick])
    for k, (case, p, known) in enumerate(meta):
        if p["stream"] == "head-negative":
            continue            # (no model: RHead takes a natural n; the oracle has compared the frame with flat[:n])
        mi = R.canon_model(outs[3 * k])
        ms = R.canon_model(outs[3 * k + 1])
        mp_ = R.rows_only(R.canon_model(outs[3 * k + 2]))
        if mp_ is not None and p["oracle_rows"] is not None:
            # the specification vocabulary (ReadSpec.spec_run) means what the harness oracle (CPython slicing) means
            ctx.correspondence("ReadSpec.spec_run rows ~ the oracle's selection (CPython)", case, mp_, p["oracle_rows"])
        # the implementation model against its own specification on concrete inputs (theorem C06_programs, extracted code)
        ctx.correspondence("extracted run ~ extracted spec_run (C06_programs on concrete inputs)", case, mi, ms)
        if known and p["impl"][0] == "fail" and mi[0] == "ok":
            continue
        if p["prog"]["rd"][0] == "iter" and p["oracle_rows"] is None:
            # iteration with no data column: the property claims nothing there (whether frames without columns are yielded or
            # dropped is not observable through cells); neither the oracle nor this correspondence looks at it
            ctx.count("iter_without_data_columns_not_compared", 1)
            continue            # the real code raises here (open findings); the model describes the behaviour without the defect
        if p.get("filter_keeps_nothing") and p["prog"]["rd"][0] != "count":
            # a filter that keeps no row group leaves the HANDLE (its partition columns, its categorical dictionaries) as it is,
            # whereas the model's HKeep selects on the handle like a slice (an empty selection has no partition columns - the open
            # finding): the model is not claimed there, the oracle above decides
            ctx.count("filter_keeps_nothing_model_not_compared", 1)
            continue
        ctx.correspondence("Read.run ~ ParquetFile access program on the real code", case, R.align(mi, p["impl"]), p["impl"])
    ctx.extra["datasets"] = len(jobs)
    ctx.extra["corpus_cases"] = len(corpus)
    # programs that INTERLEAVE observers (head, count, info, statistics, len), derivations (non-prefix / strided / reversed slices,
    # picks, pickle, copy, deepcopy) and edits / failed edits through the same handle, on row groups of unequal sizes: every
    # answer of a live handle against a fresh handle of the same state (harness/handleprog.py; the coherence theorem and the
    # regenerated inventory are C17's obligations, a failed inventory check is repeated here as an obligation of C06)
    from harness import handleprog as HP
    HP.stream(ctx, nds=20 if quick else 150, nprog=4 if quick else 8, register_obligations=False)


def _run_jobs(ctx, jobs):
    """all datasets through harness.common.pmap (forked workers; a worker that segfaults, aborts or hangs yields a
    {"__crashed__": ...} result instead of hanging the check): a crash is attributed to its dataset and reported as a
    failing input of the property (replay re-runs the dataset's programs one per child process)"""
    res = C.pmap(run_dataset_job, jobs, init=_init, nproc=min(8, os.cpu_count() or 4), job_timeout=300 if ctx.quick() else 900)
    for k, j in enumerate(jobs):
        r = res[k]
        if isinstance(r, dict) and "__crashed__" in r:
            ctx.fail({"component": "crash", "what": "crash"}, {"ds": j[0], "programs": j[1], "program_seed": j[2], "nprog": j[3]},
                     "running the access programs of this dataset on the real code: " + r["__crashed__"])
            res[k] = {"ds": j[0], "error": None, "crashed": True, "programs": [], "base": None}
    return res


def run_dataset_job(job):
    from harness import reads as R
    return R.run_dataset(job)


def replay(rep):
    """Rebuild the recorded dataset, run the recorded program on the real code and the oracle; 1 if the property still fails."""
    import shutil
    import tempfile
    if rep.get("kind") == "no-failing-input-found":
        print(json.dumps(rep, indent=1)[:6000])
        return 1
    case = rep["case"]
    if "handle_program" in case:
        warnings.filterwarnings("ignore")
        C.use_shadow()
        from harness import handleprog as HP
        return HP.replay_case(case["handle_program"])
    if "program_seed" in case:
        return _replay_crash(case)
    if "prog" not in case:
        print(json.dumps(rep, indent=1)[:6000])
        return 1
    warnings.filterwarnings("ignore")
    C.use_shadow()
    from harness import reads as R
    tmp = tempfile.mkdtemp(prefix="verif-C06-replay-", dir="/tmp")
    try:
        ds, prog = case["ds"], case["prog"]
        path = R.build_dataset(ds, tmp)
        pf = R.open_dataset(ds, path)
        base = R.base_facts(ds, pf)
        print("dataset: %s" % json.dumps(ds))
        if "full_error" in base:
            print("row groups (descriptor class, num_rows, row ids): %s" % base["rgs"])
            print("PROPERTY FAILS: the full read pf.to_pandas() raises\n" + base["full_error"])
            return 1
        print("row groups (descriptor class, num_rows, row ids): %s" % base["rgs"])
        print("full read: columns %s index %s, row ids %s" % (base["full_cols"], base["full_index"], base["full_ids"]))
        print("program: %s" % json.dumps(prog))
        res = R.run_program(pf, prog)
        print("real code: %s" % json.dumps(R.canon_impl(res)))
        if res[0] == "fail":
            print(res[3])
        probs = list(R.oracle(base, prog, res))
        now = [int(rg.num_rows) for rg in pf.row_groups]
        if now != base["counts"]:
            probs.append(("aliasing", "after this program the ORIGINAL handle has row groups %r, before it had %r" % (now, base["counts"])))
        for w, t in probs:
            print("PROPERTY FAILS (%s): %s" % (w, t))
        if not probs:
            print("the partial read agrees with the corresponding part of the full read")
        return 1 if probs else 0
    finally:
        shutil.rmtree(tmp, ignore_errors=True)


def _replay_crash(case):
    """the recorded dataset killed its worker: re-run its programs one per child process and name the one that dies"""
    import random
    import shutil
    import tempfile
    warnings.filterwarnings("ignore")
    C.use_shadow()
    from harness import reads as R
    tmp = tempfile.mkdtemp(prefix="verif-C06-replay-", dir="/tmp")
    try:
        ds = case["ds"]
        path = R.build_dataset(ds, tmp)
        pf = R.open_dataset(ds, path)
        base = R.base_facts(ds, pf)
        progs = case.get("programs")
        if progs is None:
            rng = random.Random(case["program_seed"])
            progs = [R.gen_program(rng, ds, base["avail"], base["cols"], base["cat_cols"]) for _ in range(case["nprog"])]
            progs += R.confirmation_programs(rng, ds, base)
        print("dataset: %s" % json.dumps(ds))
        for prog in progs:
            pid = os.fork()
            if pid == 0:
                try:
                    res = R.run_program(pf, prog)
                    R.oracle(base, prog, res)
                    if res[0] == "ok" and not isinstance(res[1], int):
                        for df in res[1]:
                            repr(df)
                finally:
                    os._exit(0)
            _, status = os.waitpid(pid, 0)
            if os.WIFSIGNALED(status):
                print("program: %s" % json.dumps(prog))
                print("PROPERTY FAILS: the process running this access program was killed by signal %d" % os.WTERMSIG(status))
                return 1
        print("no access program of this dataset killed its process this time (%d programs)" % len(progs))
        return 0
    finally:
        shutil.rmtree(tmp, ignore_errors=True)
