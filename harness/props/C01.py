"""C01 — write -> read round trip returns the same table under every write option."""
import json
import multiprocessing as mp
import os
import shutil
import tempfile
import warnings

from harness import common as C
from harness import frames as F

TRUSTED = [
    "Coq 8.16.1 kernel + coqc; vm_compute only in the closed Example; no native_compute",
    "extraction: ExtrOcamlBasic only, no Extract Constant; ocaml/driver.ml s-expression I/O",
    "modelled, not verified: numpy/pandas value conversion, pandas block allocation, compression codecs (cramjam), "
    "JSON encoding, timezone arithmetic - reached only through the oracle runs on the real code",
    "Python glue: frame generator (harness/frames.py), cell-wise comparison with the canonical dtype table "
    "(text -> object, INT96 timestamps -> ns, unnamed written index -> 'index')",
    "fastparquet's own thrift page-header parser is used to walk the written file for the page/row-group split correspondence (C10 covers it)",
]


def _init():
    warnings.filterwarnings("ignore")
    C.use_shadow()


def _job(job):
    """one (frame spec, options) pair on the real code: round trip + structure observations"""
    from harness import rt, pqfile
    spec, o = job
    tmp = tempfile.mkdtemp(prefix="verif-C01w-", dir="/tmp")
    try:
        res = rt.roundtrip(spec, o, tmp)
        obs = None
        if res["outcome"] not in ("write-raised",):
            try:
                obs = observe(res["path"], spec)
            except Exception as e:   # noqa
                obs = {"error": "%s: %s" % (type(e).__name__, e)}
        res["obs"] = obs
        res.pop("path", None)
        return res
    finally:
        shutil.rmtree(tmp, ignore_errors=True)


def observe(path, spec):
    """row-group sizes and, per chunk, data-page value counts of the written dataset"""
    import fastparquet
    from harness import pqfile
    pf = fastparquet.ParquetFile(path)
    rg_rows = [rg.num_rows for rg in pf.row_groups]
    chunks = []
    cache = {}
    for rg in pf.row_groups:
        for col in rg.columns:
            fp = col.file_path.decode() if isinstance(col.file_path, bytes) else col.file_path
            fn = os.path.join(path, fp) if fp else path
            if fn not in cache:
                cache[fn] = open(fn, "rb").read()
            pages, _, _ = pqfile.chunk_pages(cache[fn], col.meta_data)
            chunks.append({"rows": rg.num_rows, "pages": [p["num_values"] for p in pages if p["type"] in (0, 3)],
                           "col": col.meta_data.path_in_schema[0]})
    return {"rg_rows": rg_rows, "chunks": chunks}


def _big_page_job(job):
    """thorough tier: ONE data page of 2^27 rows (BOOLEAN column written OPTIONAL without nulls, one row group): the run header of its
    definition levels needs the fifth varint byte - the real write -> read at the size the scratch-buffer theorems are about.
    Compared with numpy (no per-cell Python objects); about 1 GB transient."""
    import numpy as np
    import pandas as pd
    import fastparquet
    from fastparquet import writer
    n = job["rows"]
    tmp = tempfile.mkdtemp(prefix="verif-C01big-", dir="/tmp")
    old = writer.DATAPAGE_VERSION
    try:
        a = np.zeros(n, dtype=bool)
        a[::3] = True
        a[-1] = True
        df = pd.DataFrame({"b": a})
        fn = os.path.join(tmp, "big.parquet")
        writer.DATAPAGE_VERSION = job["dpv"]
        try:
            fastparquet.write(fn, df, row_group_offsets=[0], has_nulls=True, stats=False)
        except Exception as e:      # noqa: allowed outcome
            return {"outcome": "write-raised", "err": "%s: %s" % (type(e).__name__, str(e)[:200])}
        finally:
            writer.DATAPAGE_VERSION = old
        del df
        pf = fastparquet.ParquetFile(fn)
        pages = sum(1 for rg in pf.row_groups for c in rg.columns)
        try:
            got = pf.to_pandas()
        except Exception as e:      # noqa
            return {"outcome": "read-raised", "err": "%s: %s" % (type(e).__name__, str(e)[:200])}
        probs = []
        if len(got) != n:
            probs.append("%d rows written, %d read" % (n, len(got)))
        elif str(got["b"].dtype) != "bool":
            probs.append("column b: dtype bool came back as %s" % got["b"].dtype)
        else:
            bad = np.flatnonzero(np.asarray(got["b"].values) != a)
            if len(bad):
                probs.append("column b: %d of %d cells differ, first at row %d" % (len(bad), n, int(bad[0])))
        return {"outcome": "ok" if not probs else "differs", "problems": probs, "row_groups": len(pf.row_groups), "chunks": pages}
    finally:
        shutil.rmtree(tmp, ignore_errors=True)


def gen_jobs(ctx):
    from harness import rt
    rng = ctx.rng
    jobs = []
    quick = ctx.quick()
    import glob
    for fn in sorted(glob.glob(os.path.join(C.VERIF, "corpus", "C01", "*.json"))):      # minimised past failures first
        c = json.load(open(fn))
        jobs.append((c["spec"], c["opts"]))
    # boundary lattice: every kind x the framing sizes (thinned in the quick tier)
    sizes_small = [0, 1, 2, 7, 8, 9, 63, 64, 65, 127, 128, 129]
    sizes_big = [255, 256, 257, 8191, 8192, 8193]
    kinds = list(F.KINDS)
    if quick:
        for k in kinds:
            for n in rng.sample(sizes_small, 4) + rng.sample(sizes_big, 2):
                jobs.append(_one(rng, k, n))
    else:
        for k in kinds:
            for n in sizes_small + sizes_big:
                for _ in range(3):
                    jobs.append(_one(rng, k, n))
    jobs += zone_block(ctx)
    jobs += categorical_pairs_block(ctx)
    # confirmation stream of an open finding: a legal column name that ends in "-catdef" (the reader's internal key for the label
    # array of a categorical) with several row groups
    base = {"compression": None, "row_group_offsets": 3, "has_nulls": True, "page_size": None, "dpv": 1, "stats": True,
            "times": "int64", "object_encoding": "infer", "file_scheme": "simple", "write_index": None}
    jobs.append(({"n": 10, "cols": [{"name": "x-catdef", "kind": "int64", "nulls": "none", "seed": 3},
                                    {"name": "y", "kind": "float64", "nulls": "none", "seed": 4}], "index": None}, dict(base)))
    # random multi-column frames
    for _ in range(400 if quick else 2500):
        spec = F.gen_spec(rng, n=rng.choice(sizes_small + ([257, 8193] if rng.random() < 0.1 else [])))
        jobs.append((spec, rt.gen_opts(rng, spec)))
    return jobs


# time zones of tz-aware columns and indexes: fixed offsets (datetime.timezone) around every place where the text form
# "+HH:MM[:SS]" changes shape - the sign with a zero hour field, whole hours, half / quarter hours, the extremes of the
# type, offsets that are not whole minutes - and named zones incl. ones with half-hour / 45-minute / historical offsets
FIXED_ZONES = [-2700, -1800, -60, 60, 2700, -3600, 3600, -12600, 19800, 20700, 50400, -43200, -86340, 86340,
               30, -30, 3630, -3599, -86399, 86399]
NAMED_ZONES = ["UTC", "Europe/Berlin", "Asia/Kolkata", "Asia/Kathmandu", "America/St_Johns", "Australia/Lord_Howe",
               "Pacific/Chatham", "Etc/GMT+12", "Etc/GMT-14", "America/New_York", "Australia/Sydney", "Europe/Istanbul",
               "America/Indiana/Indianapolis", "Africa/Sao_Tome"]


def zone_block(ctx):
    """deterministic lattice (identical on every run) + options from the PRNG: every zone as a column and as the index"""
    from harness import rt
    import zoneinfo
    rng = ctx.rng
    zones = [{"fixed_s": s} for s in FIXED_ZONES] + [{"fixed_us": 1500000}, {"fixed_us": -2700000001}]
    for z in NAMED_ZONES:
        try:
            zoneinfo.ZoneInfo(z)
            zones.append(z)
        except Exception:     # noqa: no tzdata for that name in this environment
            pass
    base = {"compression": None, "row_group_offsets": None, "has_nulls": True, "page_size": None, "dpv": 1, "stats": True,
            "times": "int64", "object_encoding": "infer", "file_scheme": "simple", "write_index": None}
    jobs = []
    for i, z in enumerate(zones):
        unit = ["ns", "us", "ms", "s"][i % 4]
        col = {"name": "c0_dttz_%s" % unit, "kind": "dttz_%s" % unit, "nulls": "some", "seed": 777 + i, "tz": z}
        jobs.append(({"n": 9, "cols": [col], "index": None}, dict(base)))
        # (the zone NAME takes part in dtype-name tests of the writer: both `times` modes, every zone)
        jobs.append(({"n": 9, "cols": [dict(col, seed=555 + i)], "index": None}, dict(base, times="int96", dpv=1 + i % 2)))
        ix = {"name": "idx", "kind": "dttz_ns", "nulls": "none", "seed": 999 + i, "tz": z}
        plain = {"name": "c0_int64", "kind": "int64", "nulls": "none", "seed": 5}
        jobs.append(({"n": 9, "cols": [plain], "index": ix}, dict(base)))
        if not ctx.quick() or i % 3 == rng.randrange(3):
            spec = {"n": rng.choice([1, 8, 65]), "cols": [dict(col, seed=rng.randrange(1 << 30), nulls=rng.choice(F.NULL_PATTERNS))],
                    "index": dict(ix) if rng.random() < 0.5 else None}
            jobs.append((spec, rt.gen_opts(rng, spec)))
    return jobs


def categorical_pairs_block(ctx):
    """deterministic: frames with SEVERAL categorical columns of EQUAL category count whose `ordered` flags and label kinds differ (the reader
    builds a placeholder dtype per column; anything it shares between columns of one size shows here), each order of the columns,
    one and several row groups; the ordered flag / labels / codes are compared per column"""
    base = {"compression": None, "row_group_offsets": None, "has_nulls": True, "page_size": None, "dpv": 1, "stats": True,
            "times": "int64", "object_encoding": "infer", "file_scheme": "simple", "write_index": None}
    jobs = []
    combos = [[("cat_str", True), ("cat_int", False)], [("cat_int", False), ("cat_str", True)],
              [("cat_str", False), ("cat_str", True)], [("cat_str", True), ("cat_str", False)],
              [("cat_float", True), ("cat_str", False), ("cat_int", True)], [("cat_int", True), ("cat_dt", False), ("cat_float", False)],
              [("cat_bool", True), ("cat_bool", False)]]
    for ci, combo in enumerate(combos):
        for ncat in ((2,) if combo[0][0] == "cat_bool" else (2, 5, 130)):
            cols = [{"name": "k%d_%s" % (j, k), "kind": k, "ordered": od, "ncat": ncat, "nulls": ["none", "some"][(ci + j) % 2], "seed": 4242 + 7 * ci + j}
                    for j, (k, od) in enumerate(combo)]
            jobs.append(({"n": 9, "cols": cols, "index": None}, dict(base, row_group_offsets=[None, 4][(ci + ncat) % 2], dpv=1 + (ci % 2),
                                                                     file_scheme=["simple", "hive"][ncat % 2])))
    return jobs


def _one(rng, kind, n):
    from harness import rt
    spec = F.gen_spec(rng, n=n, ncols=1, kinds=[kind], index=(rng.random() < 0.15))
    o = rt.gen_opts(rng, spec)
    if n > 300:
        o["page_size"] = rng.choice([None, 1000, 4096])
    return spec, o


def run(ctx):
    C.coq_lib()
    ctx.trusted = TRUSTED
    from harness import wlevels
    wlevels.translate_skip(ctx)
    ctx.coq_file(os.path.join(C.COQ, "props", "C01.v"))
    ctx.coq_file(os.path.join(C.COQ, "props", "C01_pages.v"))
    # wave 3: scratch buffers of the run headers (capacity table regenerated from writer.py) and the time-zone text
    caps = wlevels.translate_scratch(ctx)
    ctx.coq_file(os.path.join(C.COQ, "props", "C01_headers.v"))
    ctx.coq_file(os.path.join(C.COQ, "props", "C01_convert.v"))
    if os.path.exists(os.path.join(C.COQ, "props", "C01_chunk.v")):
        # chunk level: reader model (incl. the selfmade shortcuts) applied to the writer model's chunk = the column
        ctx.coq_file(os.path.join(C.COQ, "props", "C01_chunk.v"))
    bad = C.hygiene()
    ctx.obligation("hygiene: no Admitted/Axiom/Parameter/... in coq/", not bad, "; ".join(bad))
    C.shadow()
    pq = C.Pqref()
    from harness import rt
    ctx.rule = ("(frame spec, option tuple) pairs: every dtype kind of the quantifier x framing sizes {0,1,2,7,8,9,63,64,65,127,128,129,"
                "255,256,257,8191,8192,8193} x null patterns x options drawn from one PRNG (compression incl. per-column dict, "
                "row_group_offsets None/int/list, has_nulls True/False/'infer'/list, page size, data page v1/v2, stats, times, "
                "object_encoding, file_scheme, write_index); trivial = the write raised (allowed outcome); distinct = distinct (spec, options)")
    jobs = gen_jobs(ctx)
    results = C.pmap(_job, jobs, init=_init, nproc=min(16, os.cpu_count() or 4), job_timeout=600)
    for i, r in enumerate(results):
        if isinstance(r, dict) and "__crashed__" in r:
            # the interpreter died / hung / the harness could not even compare: never an allowed outcome of write -> read
            results[i] = {"outcome": "read-raised", "problems": ["write -> read did not complete: " + r["__crashed__"]],
                          "tb": r.get("tb", ""), "err": r["__crashed__"], "obs": None, "crashed": True}
    cmds, meta = [], []
    for (spec, o), res in zip(jobs, results):
        kinds = sorted(set(c["kind"] for c in spec["cols"]))
        ctx.case({"spec": spec, "opts": o}, trivial=(res["outcome"] == "write-raised"))
        ctx.count("outcome", res["outcome"])
        ctx.count("rows", spec["n"])
        ctx.count("dpv", o["dpv"])
        ctx.count("compression", "percol" if isinstance(o["compression"], dict) else o["compression"])
        ctx.count("has_nulls", "list" if isinstance(o["has_nulls"], list) else o["has_nulls"])
        for k in kinds:
            ctx.count("kind", k)
        if res["outcome"] in ("differs", "read-raised"):
            cls = rt.classify(spec, o, res)
            cls["n"] = spec["n"]
            cls["catdef_name"] = any(str(c["name"]).endswith("-catdef") for c in spec["cols"])
            if res.get("crashed"):
                cls["outcome"] = "crashed"
                ctx.count("outcome", "crashed")
            ctx.fail(cls, {"spec": spec, "opts": o}, "; ".join(res["problems"])[:1500] + (" | " + res.get("tb", "")[-600:] if res.get("tb") else ""))
        obs = res.get("obs")
        if obs and "error" not in obs:
            n = spec["n"]
            rgo = o["row_group_offsets"]
            case = {"n": n, "row_group_offsets": rgo}
            if rgo is None:
                cmds.append(("rg_sizes_int", n, 50_000_000))
            elif isinstance(rgo, int):
                cmds.append(("rg_sizes_int", n, rgo))
            else:
                cmds.append(("rg_sizes_list", list(rgo), n))
            meta.append(("rg", case, [r for r in obs["rg_rows"]]))
            for ch in obs["chunks"]:
                if ch["pages"]:
                    cmds.append(("page_sizes", ch["rows"], ch["pages"][0]))
                    meta.append(("pg", {"rows": ch["rows"], "col": ch["col"], "first_page": ch["pages"][0]}, ch["pages"]))
        elif obs and "error" in obs and res["outcome"] == "ok":
            ctx.broken.append({"kind": "harness-error", "name": "observe", "detail": obs["error"]})
    uniq = {}
    for c in cmds:                       # the same (rows, first page) / (n, request) pairs occur thousands of times
        uniq.setdefault(json.dumps(c), c)
    ukeys = list(uniq)
    uouts = dict(zip(ukeys, pq.batch([uniq[k] for k in ukeys])))
    outs = [uouts[json.dumps(c)] for c in cmds]
    for (kind, case, impl), mo in zip(meta, outs):
        if kind == "rg":
            # empty row groups are not written (make_row_group returns None for 0 rows)
            ctx.correspondence("offsets_int/slices ~ row groups written by iter_dataframe", case, [x for x in mo if x], impl)
        else:
            ctx.correspondence("pages(rpp) ~ data-page value counts of write_column (rpp = first page)", case, mo, impl)
    if not ctx.quick():
        # one data page of 2^27 (+9) rows, for real: the size at which the run header needs its fifth byte (seeded C01-6 class)
        bjobs = [{"rows": 2 ** 27, "dpv": 1}, {"rows": 2 ** 27 + 9, "dpv": 2}]
        for bj, r in zip(bjobs, C.pmap(_big_page_job, bjobs, init=_init, nproc=1, job_timeout=900)):
            if isinstance(r, dict) and "__crashed__" in r:
                r = {"outcome": "crashed", "problems": ["write -> read did not complete: " + r["__crashed__"]]}
            ctx.case({"big_page": bj}, trivial=(r["outcome"] == "write-raised"))
            ctx.count("big_page", r["outcome"])
            if r["outcome"] not in ("ok", "write-raised"):
                ctx.fail({"component": "big page", "outcome": r["outcome"], "dpv": bj["dpv"]}, {"big_page": bj},
                         "; ".join(r.get("problems") or [r.get("err", "")])[:800])
    # page-level tie: make_definitions / encode_dict / skip_definition_bytes vs Impl/WLevels.v + spec decoder oracle
    C.use_shadow()
    wlevels.run(ctx, pq)
    wlevels.run_scratch(ctx, pq, caps)
    wlevels.run_tz(ctx, pq)
    from harness import wconvert
    wconvert.run(ctx, pq)
    pq.close()


def replay_function_case(case):
    """re-execute a function-level case (time-zone text, run header at a given row count) on the real code"""
    C.use_shadow()
    from harness import wlevels
    if "w_convert" in case:
        from harness import wconvert
        return wconvert.replay(case)
    if "big_page" in case:
        r = _big_page_job(case["big_page"])
        print(r)
        return 0 if r["outcome"] in ("ok", "write-raised") else 1
    pq = C.Pqref()
    try:
        if "tz_seconds" in case:
            s = case["tz_seconds"]
            name, text, back = wlevels.tz_observe(s)
            print("zone %s: recorded as %r, read back as %r" % (name, text, back))
            return 0 if (back == [b"fixed", s] or (s == 0 and back == [b"name", b"UTC"])) else 1
        if case.get("make_definitions") == "nonull" and "dpv" in case:
            n, dpv = case["n"], case["dpv"]
            impl = wlevels.nonull_block(n, dpv)
            want = bytes(pq.call("wr_defs_nonull", dpv, n))
            print("make_definitions(%d rows, no nulls, v%d): %s; block that decodes to %d ones: %s" % (n, dpv, impl.hex(), n, want.hex()))
            skip_ok = True
            if dpv == 1:
                from fastparquet import core
                io = wlevels.FakeIO()
                core.skip_definition_bytes(io, n)
                skip_ok = io.pos == len(impl)
                print("skip_definition_bytes(%d) moves the cursor by %d, the block has %d bytes" % (n, io.pos, len(impl)))
            return 0 if impl == want and skip_ok else 1
        if "encode_dict" in case and case.get("codes") == "fake length":
            from fastparquet import writer
            k = int(case["encode_dict"][3:]) // 8
            impl = bytes(writer.encode_dict(wlevels.FakeCodes(case["n"], k), None))
            want = bytes(pq.call("wr_dict_head_cap", 64, k, case["n"]))
            print("encode_dict head for %d codes: %s, must be %s" % (case["n"], impl.hex(), want.hex()))
            return 0 if impl == want else 1
        print(json.dumps(case)[:3000])
        return 1
    finally:
        pq.close()


def replay(rep):
    warnings.filterwarnings("ignore")
    case = rep.get("case", {})
    if rep.get("kind") != "no-failing-input-found" and ("tz_seconds" in case or "make_definitions" in case or "encode_dict" in case or "w_convert" in case or "big_page" in case):
        return replay_function_case(case)
    if rep.get("kind") == "no-failing-input-found" or "spec" not in case:
        print(json.dumps(rep, indent=1)[:6000])
        return 1
    C.use_shadow()
    from harness import rt
    tmp = tempfile.mkdtemp(prefix="verif-C01-replay-", dir="/tmp")
    try:
        res = rt.roundtrip(rep["case"]["spec"], rep["case"]["opts"], tmp)
        print("outcome:", res["outcome"])
        for p in res["problems"]:
            print("  ", p)
        if res.get("tb"):
            print(res["tb"])
        return 1 if res["outcome"] in ("differs", "read-raised") else 0
    finally:
        shutil.rmtree(tmp, ignore_errors=True)
