"""C10 — metadata serialisation is lossless, IDL-conformant and safe for any size (DESIGN.md section 6, C10)."""
import json
import os
import random

from harness import common as C
from harness import thriftpy as T

TRUSTED = [
    "Coq 8.16.1 kernel + coqc; vm_compute only for closed Examples / computed witnesses / finite forallb tables; no native_compute",
    "extraction: ExtrOcamlBasic only, no Extract Constant; ocaml/driver.ml s-expression I/O",
    "Thrift/IdlPinned.v is the transcription of the Apache Parquet IDL (no network copy in the sandbox); idl2coq re-derives it from fastparquet/parquet.thrift on every run",
    "translators idl2coq / specs2coq / callsites2coq (Python ast / text -> Gallina tables) and their reading of the sources",
    "Python str <-> UTF-8 (PStr is a str given by its encoding); Python int/bool/list/dict semantics as modelled by pv",
    "the worker subprocess glue (pickle protocol), generators and canonicalisation in harness/props/C10.py, harness/thriftpy.py",
    "gcc build of cencoding.c (the .pyx cannot be rebuilt: no Cython); pyx-vs-.c embedded-source comparison for staleness",
]

ROOTS = ["FileMetaData", "RowGroup", "ColumnChunk", "ColumnMetaData", "PageHeader", "SchemaElement", "Statistics",
         "KeyValue", "LogicalType"]
CAP = 500000
I32 = dict(lo=-2 ** 31, hi=2 ** 31 - 1)
I64 = dict(lo=-2 ** 63, hi=2 ** 63 - 1)


# ---------------------------------------------------------------------------------------------------
# IDL-typed value generation.  A typed tree:
#   ("struct", name, [(fid, fname, ftype, tree), ...])  ("list", etype, [tree])  ("i32"|"i64"|"i16"|"i8", z)
#   ("bool", b)  ("bin", bytes)  ("str", bytes)  ("enum", z)
# ---------------------------------------------------------------------------------------------------

class Gen:
    def __init__(self, rng, enums, structs, specs_names, mode="main"):
        self.rng, self.enums, self.structs, self.specs = rng, enums, structs, specs_names
        self.mode = mode            # main: only what the implementation is expected to handle; wide: everything in the IDL
        self.budget = 0

    def ok_type(self, t):
        """may this declared type appear in the main stream?"""
        if isinstance(t, tuple):
            if t[0] == "list":
                return self.ok_type(t[1]) and t[1] not in ("FBool", "FBinary", "FI64")
            if t[0] == "struct":
                return t[1] in self.specs and self.usable(t[1])
            return True
        return t not in ("FI8", "FI16", "FDouble")

    def usable(self, name, seen=()):
        """a struct is usable in the main stream when its required fields are (ids <= 13, types ok)"""
        if name in seen:
            return False
        union, fl = self.structs[name]
        if union:
            return any(fid <= 13 and self.ok_type(t) for fid, req, fn, t in fl)
        return all((fid <= 13 and self.ok_type(t)) for fid, req, fn, t in fl if req == 1)

    def int_val(self, lo, hi):
        r = self.rng
        return r.choice([0, 1, -1, 63, 64, -64, -65, 127, 128, 8191, 8192, lo, hi, lo + 1, hi - 1,
                         r.randrange(lo, hi + 1), r.randrange(-1000, 1000)])

    def blob(self, text):
        r = self.rng
        n = r.choice([0, 1, 2, 5, 5, 5, 20, 127, 128, 129, 300] + ([16383, 16384, 70000] if r.random() < 0.05 else []))
        if text:
            s = "".join(r.choice("abcxyz_.é€\U0001F600 ") for _ in range(n))
            return s.encode("utf-8")
        return bytes(r.randrange(256) for _ in range(min(n, 400))) * (1 if n <= 400 else n // 400)

    def val(self, t, depth, lens):
        r = self.rng
        if isinstance(t, tuple):
            if t[0] == "enum":
                return ("enum", r.choice(list(self.enums[t[1]].values())))
            if t[0] == "struct":
                return self.struct(t[1], depth + 1, lens)
            if t[0] == "list":
                n = r.choice(lens)
                if depth >= 2 or self.budget > 400:
                    n = min(n, r.choice([1, 2, 3]))
                if self.mode == "main":
                    n = max(n, 1)
                self.budget += n
                return ("list", t[1], [self.val(t[1], depth + 1, lens) for _ in range(n)])
        if t == "FBool":
            return ("bool", r.random() < 0.5)
        if t == "FI8":
            return ("i8", r.choice([0, 1, 8, 16, 32, 64, 127, -128, -1]))
        if t == "FI16":
            return ("i16", r.choice([0, 1, -1, 300, 32767, -32768]))
        if t == "FI32":
            return ("i32", self.int_val(**I32))
        if t == "FI64":
            return ("i64", self.int_val(**I64))
        if t == "FBinary":
            return ("bin", self.blob(False))
        if t == "FString":
            return ("str", self.blob(True))
        raise ValueError(t)

    def struct(self, name, depth=0, lens=(1, 2, 3), opt=None):
        r = self.rng
        union, fl = self.structs[name]
        main = self.mode == "main"
        cand = [f for f in fl if (not main) or (f[0] <= 13 and self.ok_type(f[3]))]
        if opt is None:
            opt = r.choice(["all", "none", "rand", "rand"])
        if union:
            chosen = [r.choice(cand)] if cand else []
        else:
            chosen = [f for f in cand if f[1] == 1 or opt == "all" or (opt == "rand" and r.random() < 0.5)]
        return ("struct", name, [(fid, fn, t, self.val(t, depth, lens)) for fid, req, fn, t in chosen])


def to_tv(tree):
    """typed tree -> spec value s-expression (Cmd_Thrift.v shapes)"""
    k = tree[0]
    if k == "struct":
        return ["r", [[fid, to_tv(v)] for fid, fn, t, v in sorted(tree[2], key=lambda f: f[0])]]
    if k == "list":
        et = tree[1]
        ety = 2 if et == "FBool" else T.wire(et)
        return ["l", ety, [to_tv(v) for v in tree[2]]]
    if k == "bool":
        return ["b", int(tree[1])]
    if k in ("bin", "str"):
        return ["s", tree[1]]
    if k == "enum":
        return ["i32", tree[1]]
    return [k, tree[1]]


def to_recipe(tree):
    """typed tree -> construction through the API (ThriftObject.from_fields) with consistent markers"""
    k = tree[0]
    if k == "struct":
        s32 = sorted(fid for fid, fn, t, v in tree[2] if v[0] in ("i32", "enum"))
        s64 = [fid for fid, fn, t, v in tree[2] if v[0] in ("i64", "i16", "i8")]
        i32 = bool(s32) and not s64
        i32l = s32 if (s32 and s64) else None
        return ("obj", tree[1], i32, i32l, {fn: to_recipe(v) for fid, fn, t, v in tree[2]})
    if k == "list":
        return ("list", [to_recipe(v) for v in tree[2]])
    if k == "str":
        return ("val", tree[1].decode("utf-8"))
    return ("val", tree[1])


def to_raw(tree, in_list=False):
    """typed tree -> the int-keyed dict from_fields would build (used when a struct is not in `specs`)"""
    k = tree[0]
    if k == "struct":
        r = to_recipe(tree)
        d = {fid: to_raw(v) for fid, fn, t, v in sorted(tree[2], key=lambda f: f[0])}
        if r[2]:
            d["i32"] = 1
        if r[3]:
            d["i32list"] = r[3]
        return d
    if k == "list":
        return [to_raw(v, True) for v in tree[2]]
    if k == "str":
        return tree[1].decode("utf-8")
    return tree[1]


def tree_stats(tree, acc):
    k = tree[0]
    if k == "struct":
        acc["structs"] = acc.get("structs", 0) + 1
        for fid, fn, t, v in tree[2]:
            tree_stats(v, acc)
    elif k == "list":
        acc.setdefault("list_lens", []).append(len(tree[2]))
        for v in tree[2]:
            tree_stats(v, acc)
    elif k in ("bin", "str"):
        acc["maxblob"] = max(acc.get("maxblob", 0), len(tree[1]))
    return acc


def has(tree, pred):
    if pred(tree):
        return True
    if tree[0] == "struct":
        return any(has(v, pred) for fid, fn, t, v in tree[2])
    if tree[0] == "list":
        return any(has(v, pred) for v in tree[2])
    return False


def jsonable(x):
    if isinstance(x, (bytes, bytearray)):
        b = bytes(x)
        return {"hex": b.hex()} if len(b) <= 64 else {"hex_head": b[:32].hex(), "len": len(b), "sha": C.sha(b)[:16]}
    if isinstance(x, (list, tuple)):
        return [jsonable(e) for e in x]
    if isinstance(x, dict):
        return {str(k): jsonable(v) for k, v in x.items()}
    return x


def tree_json(tree):
    """replayable JSON form of a typed tree"""
    k = tree[0]
    if k == "struct":
        return ["struct", tree[1], [[fid, fn, _tj(t), tree_json(v)] for fid, fn, t, v in tree[2]]]
    if k == "list":
        return ["list", _tj(tree[1]), [tree_json(v) for v in tree[2]]]
    if k in ("bin", "str"):
        b = tree[1]
        if len(b) > 200 and len(set(b)) == 1:
            return [k, {"rep": b[:1].hex(), "n": len(b)}]
        return [k, b.hex()]
    return [k, tree[1]]


def _tj(t):
    return list(t) if isinstance(t, tuple) and t[0] != "list" else (["list", _tj(t[1])] if isinstance(t, tuple) else t)


def _tt(t):
    if isinstance(t, list):
        return ("list", _tt(t[1])) if t[0] == "list" else tuple(t)
    return t


def tree_unjson(j):
    k = j[0]
    if k == "struct":
        return ("struct", j[1], [(fid, fn, _tt(t), tree_unjson(v)) for fid, fn, t, v in j[2]])
    if k == "list":
        return ("list", _tt(j[1]), [tree_unjson(v) for v in j[2]])
    if k in ("bin", "str"):
        if isinstance(j[1], dict):
            return (k, bytes.fromhex(j[1]["rep"]) * j[1]["n"])
        return (k, bytes.fromhex(j[1]))
    return (k, j[1])


# ---------------------------------------------------------------------------------------------------
# generic (untyped) Python objects: the impl model as a function on arbitrary input
# ---------------------------------------------------------------------------------------------------

def gen_obj(rng, depth=0):
    d = {}
    keys = rng.sample(range(1, 17), rng.choice([0, 1, 2, 3, 5, 8]))
    if rng.random() < 0.7:
        keys.sort()
    for k in keys:
        d[k] = gen_any(rng, depth)
    m = rng.random()
    if m < 0.3:
        d["i32"] = 1
    elif m < 0.6:
        d["i32list"] = rng.sample(range(1, 17), rng.choice([0, 1, 3, 6]))
    elif m < 0.65:
        d["i32"] = 1
        d["i32list"] = [1, 2]
    return d


def gen_any(rng, depth):
    k = rng.choice(["none", "bool", "int", "int", "bytes", "str", "list", "dict", "dict"] if depth < 3 else
                   ["none", "bool", "int", "bytes", "str"])
    if k == "none":
        return None
    if k == "bool":
        return rng.random() < 0.5
    if k == "int":
        return rng.choice([0, 1, -1, 63, 64, -64, -65, 127, 128, 2 ** 31 - 1, 2 ** 31, -2 ** 31, -2 ** 31 - 1, 2 ** 63 - 1,
                           -2 ** 63, 2 ** 63, -2 ** 63 - 1, rng.randrange(-2 ** 40, 2 ** 40)])
    if k == "bytes":
        return bytes(rng.randrange(256) for _ in range(rng.choice([0, 1, 5, 127, 128, 300])))
    if k == "str":
        return "".join(rng.choice("abcé€") for _ in range(rng.choice([0, 1, 5, 127, 128])))
    if k == "list":
        n = rng.choice([0, 1, 2, 14, 15, 16, 30])
        ek = rng.choice(["int", "bytes", "str", "dict", "bool", "mixed"])
        if ek == "int":
            return [rng.choice([0, 1, -1, 2 ** 31 - 1, -2 ** 31, 2 ** 31, rng.randrange(-1000, 1000)]) for _ in range(n)]
        if ek == "bool":
            return [rng.random() < 0.5 for _ in range(n)]
        if ek == "bytes":
            return [bytes(rng.randrange(128) for _ in range(rng.choice([0, 1, 5]))) for _ in range(n)]
        if ek == "str":
            return ["".join(rng.choice("abcé") for _ in range(rng.choice([0, 1, 5]))) for _ in range(n)]
        if ek == "mixed":
            return [rng.choice([1, "a", b"b", {}, True]) for _ in range(min(n, 3))]   # None inside a bytes list is undefined behaviour (PyBytes_GET_SIZE(None)): outside the model
        return [gen_obj(rng, depth + 1) for _ in range(min(n, 4) if depth else n)]
    return gen_obj(rng, depth + 1)


# ---------------------------------------------------------------------------------------------------

def sym(x):
    return x.decode("latin-1") if isinstance(x, (bytes, bytearray)) else x


def run(ctx):
    import signal

    def _watchdog(signum, frame):
        raise RuntimeError("C10 watchdog: the check did not finish within its time budget (a hang counts as broken)")
    signal.signal(signal.SIGALRM, _watchdog)
    signal.alarm(900 if ctx.quick() else 3000)
    try:
        _run(ctx)
    finally:
        signal.alarm(0)


def _run(ctx):
    import time as _t
    _t0 = _t.time()
    C.coq_lib()
    ctx.trusted = TRUSTED
    ctx.coq_file(os.path.join(C.COQ, "props", "C10.v"))
    bad = C.hygiene()
    ctx.obligation("hygiene: no Admitted/Axiom/Parameter/... in coq/", not bad, "; ".join(bad))
    translators(ctx)
    if not ctx.quick():
        rc, out = C.run(["coqchk", "-silent", "-o", "-Q", os.path.join(C.COQ, "theories"), "Pq", "Pq.Proofs.CompactProofs", "Pq.Proofs.CThriftMain",
                         "Pq.Proofs.CThriftReser", "Pq.Proofs.CThriftTypedProofs", "Pq.Proofs.CThriftRepaired", "Pq.Proofs.CThriftTotal"], timeout=1500, cwd=C.COQ)
        ctx.obligation("coqchk -o on the C10 proof libraries: re-checked by the standalone checker, Axioms: <none>",
                       rc == 0 and "* Axioms: <none>" in out, out[-1500:])
        ctx.checker_cmds.append("coqchk -silent -o -Q coq/theories Pq Pq.Proofs.{CompactProofs,CThriftMain,CThriftReser,CThriftTypedProofs}")
    stale = [d for d in C.pyx_vs_c() if d[0] == "cencoding"]
    ctx.obligation("cencoding.pyx lines embedded in cencoding.c equal the working tree's .pyx (the compiled code is the source)",
                   not stale, "; ".join("%s:%d %r vs %r" % d for d in stale[:5]))
    root = C.shadow()
    ctx.extra.setdefault("stream_seconds", {})["coq+translators"] = round(_t.time() - _t0, 1)
    big_stack()
    pq = C.Pqref()
    enums, structs = T.load_idl()
    w = T.Worker(root, ctx.scratch)
    try:
        specs_names = set(call(w, "specs_names", sorted(structs)))
        ctx.rule = ("IDL-typed trees generated from fastparquet/parquet.thrift for the roots %s: every optional field present/absent "
                    "(profiles all/none/random), unions one arm, list lengths {0,1,2,14,15,16,100}, strings/binaries empty..70000 bytes "
                    "(UTF-8 incl. astral) and up to the 500000-byte buffer boundary +-2, integers over the full declared width with zigzag/varint "
                    "boundaries, enums over their declared values; built through ThriftObject.from_fields with IDL-consistent i32/i32list markers, "
                    "and parsed from bytes encoded by the proved specification writer; plus untyped random Python objects for the model-as-function "
                    "correspondence; trivial = empty struct; distinct = distinct (stream, tree)") % ", ".join(ROOTS)
        import time as _time
        secs = ctx.extra.setdefault("stream_seconds", {})

        def timed(name, fn, *a):
            t0 = _time.time()
            fn(*a)
            secs[name] = round(_time.time() - t0, 1)
        from harness import c10_sizes as Z
        timed("api", stream_api, ctx, pq, w, root, enums, structs, specs_names)
        timed("pickle", stream_pickle, ctx, w, enums, structs, specs_names)
        timed("foreign", stream_foreign, ctx, pq, w, root, enums, structs, specs_names)
        timed("foreign_wide", stream_foreign_wide, ctx, pq, w, root, enums, structs, specs_names)
        timed("generic", stream_generic, ctx, pq, w)
        timed("dict_eq", stream_dict_eq, ctx, pq, w)
        timed("boundary", stream_boundary, ctx, pq, root, enums, structs)
        timed("known", stream_known, ctx, pq, root, enums, structs, specs_names)
        minimal_witnesses(ctx, w)
        timed("index", stream_index, ctx, pq, root, enums, structs, specs_names)
        timed("struct_sizes", stream_struct_sizes, ctx, pq, w, enums, structs, specs_names)
        timed("files", stream_files, ctx, pq)
        timed("edits", stream_edits, ctx, pq)
        timed("footer_parse", Z.stream_footer_parse, ctx, pq)
    finally:
        w.close()
        pq.close()


def big_stack():
    """the extracted model recurses over 600 kB byte lists (non-tail `app`): lift the soft stack limit for child processes"""
    import resource
    soft, hard = resource.getrlimit(resource.RLIMIT_STACK)
    try:
        resource.setrlimit(resource.RLIMIT_STACK, (hard, hard))
    except (ValueError, OSError):
        pass


def call(w, op, payload, timeout=120):
    r = w.call(op, payload, timeout)
    if r[0] != "ok":
        raise RuntimeError("worker %s failed: %r" % (op, r[:3]))
    return r[1]


def translators(ctx):
    """the three regenerated tables of DESIGN 4.1, each failing closed on its own (-> recorded as translator_fallback;
    the hand model + correspondences + the strict IDL parse of real footers remain)"""
    from translators import idl2coq, specs2coq, callsites2coq, enums2coq
    gen = ctx.gen_dir
    q = [(gen, "PqGen")]
    fp = os.path.join(C.REPO, "fastparquet")
    jobs = [
        ("idl2coq", "GenIdl.v", lambda: idl2coq.translate(os.path.join(fp, "parquet.thrift"), name="table"), "GenIdlProofs.v"),
        ("specs2coq", "GenSpecs.v", lambda: specs2coq.translate(os.path.join(fp, "cencoding.pyx")), "GenSpecsProofs.v"),
        ("enums2coq", "GenEnums.v", lambda: enums2coq.translate(os.path.join(fp, "parquet_thrift", "parquet", "ttypes.py")), "GenEnumsProofs.v"),
        ("callsites2coq", "GenCallsites.v", lambda: callsites2coq.translate([os.path.join(fp, f) for f in ("writer.py", "util.py", "api.py")],
                                                                           enum_paths=sorted(os.path.join(fp, f) for f in os.listdir(fp) if f.endswith(".py"))),
         "GenCallsitesProofs.v"),
    ]
    from harness import gentr
    gentr.run_translator(ctx, "fileops2coq_parse_header", ["fileops2coq.py", "parse_header", os.path.join(fp, "api.py")],
                         "GenParseHeader.v", "GenParseHeaderProofs.v", "api.ParquetFile._parse_header")
    for name, out, fn, proofs in jobs:
        try:
            open(os.path.join(gen, out), "w").write(fn())
            ok, o = C.coqc(os.path.join(gen, out), extra_q=q)
            if not ok:
                raise RuntimeError(o[-400:])
        except Exception as e:   # noqa
            ctx.extra["translator_" + name] = "translator_fallback: %s" % str(e)[:300]
            ctx.notes.append("%s failed closed (%s): its table obligations are not stated this run; the dynamic checks remain" % (name, str(e)[:200]))
            continue
        ctx.extra["translator_" + name] = "ok"
        ctx.coq_file(os.path.join(C.COQ, "genproofs", proofs), extra_q=q)


# ---- stream 1: built through the API -----------------------------------------------------------------

def stream_api(ctx, pq, w, root, enums, structs, specs_names):
    rng = ctx.rng
    n = 400 if ctx.quick() else 6000
    g = Gen(rng, enums, structs, specs_names, "main")
    # quick tier: the 2000-column footer; the 1 MB key-value payload (10 s through the extracted model) runs in the thorough tier
    trees = corpus_trees() + (large_trees(rng)[:1] if ctx.quick() else large_trees(rng))
    ctx.extra["corpus_cases"] = len(trees)
    for i in range(n):
        rootname = ROOTS[i % len(ROOTS)]
        g.budget = 0
        lens = rng.choice([(1, 2, 3), (1, 14, 15, 16), (1, 2, 100), (1, 15), (2, 16)])
        trees.append(g.struct(rootname, 0, lens))
    encs = pq.batch([("thrift_enc", to_tv(tr)) for tr in trees])
    keep, keep_enc = [], []
    for tr, e in zip(trees, encs):
        if len(bytes(e[1])) > cap_lo(tr):
            oversize_case(ctx, pq, root, tr, len(bytes(e[1])), "api")       # may still fit (key-value text enlarges the buffer)
        else:
            keep.append(tr)
            keep_enc.append(e)
    trees = keep
    impl = []
    for tr in trees:
        impl.append(w.call("api_roundtrip", to_recipe(tr)))
    cmds = []
    for tr, r in zip(trees, impl):
        if r[0] == "ok":
            b, x, y, eq, cap = r[1]
            cmds.append(("c_to_bytes", cap, T.pv(x)))
            cmds.append(("c_from_buffer", b))
            cmds.append(("idl_dec", tr[1], 0, 0, 1, b))
            cmds.append(("c_typed_ok", tr[1], T.pv(x)))
    outs = iter(pq.batch(cmds))
    for tr, r, enc in zip(trees, impl, keep_enc):
        st = tree_stats(tr, {})
        case = {"stream": "api", "root": tr[1], "tree": tree_json(tr)}
        ctx.case(case, trivial=(not tr[2]))
        ctx.count("api.root", tr[1])
        for ln in st.get("list_lens", []):
            ctx.count("api.list_len", ln if ln <= 16 else ">=17")
        ctx.count("api.maxblob", bucket(st.get("maxblob", 0)))
        if r[0] != "ok":
            ctx.correspondence("to_bytes(API-built) ~ impl model c_to_bytes", case, "ok", list(r[:3]))
            ctx.fail({"component": "to_bytes", "kind": "crash-or-exception", "stream": "api"}, case, "worker: %r" % (r[:3],))
            continue
        b, x, y, eq, cap = r[1]
        m_w, m_r, m_idl, m_ty = next(outs), next(outs), next(outs), next(outs)
        ctx.correspondence("typed_ok pinned (hypothesis of C10_typed_conformance) holds for the object from_fields built", case, m_ty, 1)
        ctx.correspondence("to_bytes(API-built) ~ impl model c_to_bytes", case, canon_out(m_w), ["ok", "#" + b.hex()])
        ctx.correspondence("to_bytes(API-built) ~ spec encoding thrift_enc of the IDL-typed tree (byte-exact conformance)", case,
                           canon_out(enc), ["ok", "#" + b.hex()])
        ctx.correspondence("from_buffer ~ impl model c_from_buffer", case, T.canon(m_r), ["ok", T.canon(T.pv(y)), 0])
        # ---- oracle: the property itself on this input
        if not eq:
            ctx.fail({"component": "roundtrip", "kind": "not-equal", "stream": "api", "root": tr[1]}, case,
                     "from_buffer(to_bytes(x)) != x")
        if sym(m_idl[0]) != "ok" or T.canon(m_idl[1]) != T.canon(to_tv(tr)) or m_idl[2] != 0:
            ctx.fail({"component": "to_bytes", "kind": "idl-nonconformant", "stream": "api", "root": tr[1]}, case,
                     "strict IDL-typed parse of to_bytes(x) is not the tree that was built: %r" % (T.canon(m_idl)[:2],))


def cap_lo(tr):
    """lower bound of the buffer ThriftObject.to_bytes allocates for this tree (the key-value text only adds to it)"""
    def ln(fid):
        for f, fn, t, v in tr[2]:
            if f == fid and v[0] == "list":
                return len(v[2])
        return 0
    size = 0
    if tr[1] == "RowGroup":
        size = 1000 * ln(1)
    elif tr[1] == "FileMetaData":
        size = 1000 * ln(4) * ln(2)
    return max(size, CAP)


def oversize_case(ctx, pq, root, tr, size, stream):
    """a generated structure whose serialisation exceeds the fixed buffer: the known overflow/truncation region;
    run alone in a fresh subprocess, oracle only"""
    case = {"stream": stream + "-oversize", "root": tr[1], "tree": tree_json(tr), "serialised_size": size, "capacity_at_least": cap_lo(tr)}
    ctx.case(case)
    ctx.count("oversize.root", tr[1])
    cls = {"component": "to_bytes", "kind": "overflow", "over": size - cap_lo(tr), "stream": stream}
    r = one_shot(root, ctx.scratch, "api_roundtrip", to_recipe(tr))
    if r[0] != "ok":
        ctx.fail(dict(cls, outcome="crash" if r[0] == "crash" else r[0]), case, "worker: %r" % (r[:3],))
        return
    b, x, y, eq, cap = r[1]
    want = bytes(pq.call("thrift_enc", to_tv(tr))[1])
    if size > cap and (b != want or not eq):
        ctx.fail(dict(cls, outcome="returned", over=size - cap), case, "to_bytes returned %d bytes, the serialisation has %d" % (len(b), len(want)))
    elif b != want or not eq:
        ctx.fail({"component": "to_bytes", "kind": "wrong-bytes", "stream": stream, "root": tr[1]}, case,
                 "serialisation fits (%d <= %d) but to_bytes/from_buffer lose it" % (size, cap))


def canon_out(m):
    if sym(m[0]) == "ok":
        return ["ok", "#" + bytes(m[1]).hex()]
    return [sym(x) if isinstance(x, (bytes, bytearray)) else x for x in m]


def bucket(n):
    for lim in (0, 1, 127, 128, 1000, 16383, 16384, 100000):
        if n <= lim:
            return "<=%d" % lim
    return ">100000"


def stream_pickle(ctx, w, enums, structs, specs_names):
    """observe_at: pickle.dumps(ThriftObject) (__reduce_ex__ = from_buffer(bytes(to_bytes()), name))"""
    rng = ctx.rng
    g = Gen(rng, enums, structs, specs_names, "main")
    for i in range(60 if ctx.quick() else 600):
        while True:
            g.budget = 0
            tr = g.struct(ROOTS[i % len(ROOTS)], 0, (1, 2, 15))
            if tree_stats(tr, {}).get("maxblob", 0) <= 20000:       # stay far below the fixed buffer (known overflow region)
                break
        case = {"stream": "pickle", "root": tr[1], "tree": tree_json(tr)}
        ctx.case(case, trivial=(not tr[2]))
        r = w.call("pickle", (tr[1], to_raw(tr)))
        if r[0] != "ok" or not r[1][0]:
            ctx.fail({"component": "pickle", "kind": "not-equal" if r[0] == "ok" else "crash-or-exception", "stream": "pickle", "root": tr[1]},
                     case, "pickle.loads(pickle.dumps(x)) != x: %r" % (r[:2],))


def large_trees(rng):
    """deterministic shapes for "any number of row groups, columns and key-value entries ... payloads up to megabytes":
    2000 columns x 1 row group x 500 key-values, and a 1 MB key-value payload (both inside the buffer rule of FileMetaData)"""
    def se(name):
        return ("struct", "SchemaElement", [(1, "type", ("enum", "Type"), ("enum", 2)), (4, "name", "FString", ("str", name))])

    def cc(i):
        cmd = ("struct", "ColumnMetaData", [
            (1, "type", ("enum", "Type"), ("enum", 2)), (2, "encodings", ("list", ("enum", "Encoding")), ("list", ("enum", "Encoding"), [("enum", 0), ("enum", 3)])),
            (3, "path_in_schema", ("list", "FString"), ("list", "FString", [("str", b"col%04d" % i)])), (4, "codec", ("enum", "CompressionCodec"), ("enum", 1)),
            (5, "num_values", "FI64", ("i64", 1000 + i)), (6, "total_uncompressed_size", "FI64", ("i64", 8000)), (7, "total_compressed_size", "FI64", ("i64", 4000 + i)),
            (9, "data_page_offset", "FI64", ("i64", 4 + 4000 * i))])
        return ("struct", "ColumnChunk", [(2, "file_offset", "FI64", ("i64", 4 + 4000 * i)), (3, "meta_data", ("struct", "ColumnMetaData"), cmd)])

    def fmd(ncols, nkv, kvlen):
        schema = [("struct", "SchemaElement", [(4, "name", "FString", ("str", b"schema")), (5, "num_children", "FI32", ("i32", ncols))])]
        schema += [se(b"col%04d" % i) for i in range(ncols)]
        rg = ("struct", "RowGroup", [(1, "columns", ("list", ("struct", "ColumnChunk")), ("list", ("struct", "ColumnChunk"), [cc(i) for i in range(ncols)])),
                                      (2, "total_byte_size", "FI64", ("i64", 8000 * ncols)), (3, "num_rows", "FI64", ("i64", 1000))])
        kv = [("struct", "KeyValue", [(1, "key", "FString", ("str", b"key%d" % i)), (2, "value", "FString", ("str", bytes([97 + i % 26]) * kvlen))]) for i in range(nkv)]
        return ("struct", "FileMetaData", [(1, "version", "FI32", ("i32", 1)), (2, "schema", ("list", ("struct", "SchemaElement")), ("list", ("struct", "SchemaElement"), schema)),
                                           (3, "num_rows", "FI64", ("i64", 1000)), (4, "row_groups", ("list", ("struct", "RowGroup")), ("list", ("struct", "RowGroup"), [rg])),
                                           (5, "key_value_metadata", ("list", ("struct", "KeyValue")), ("list", ("struct", "KeyValue"), kv)),
                                           (6, "created_by", "FString", ("str", b"C10 large"))])
    return [fmd(2000, 500, 10), fmd(2, 1, 1000000)]


def corpus_trees():
    """minimised past disagreements / tricky shapes (corpus/C10/*.json), run first in the API stream"""
    import glob
    out = []
    for p in sorted(glob.glob(os.path.join(C.VERIF, "corpus", "C10", "*.json"))):
        j = json.load(open(p))
        if j.get("stream") == "api":
            out.append(tree_unjson(j["tree"]))
    return out


# ---- stream 2: parsed from independently (spec-)encoded bytes, then re-serialised ---------------------

def stream_foreign(ctx, pq, w, root, enums, structs, specs_names):
    rng = ctx.rng
    n = 300 if ctx.quick() else 4000
    g = Gen(rng, enums, structs, specs_names, "main")
    trees = []
    for i in range(n):
        g.budget = 0
        trees.append(g.struct(ROOTS[i % len(ROOTS)], 0, rng.choice([(1, 2, 3), (1, 14, 15, 16), (1, 100)])))
    encs = pq.batch([("thrift_enc", to_tv(tr)) for tr in trees])
    keep = [(tr, e) for tr, e in zip(trees, encs) if len(bytes(e[1])) <= cap_lo(tr)]
    for tr, e in zip(trees, encs):
        if len(bytes(e[1])) > cap_lo(tr):
            oversize_case(ctx, pq, root, tr, len(bytes(e[1])), "foreign")
    trees = [tr for tr, e in keep]
    encs = [e for tr, e in keep]
    cmds, impl = [], []
    for tr, e in zip(trees, encs):
        b0 = bytes(e[1])
        r = w.call("reserialise", (tr[1], b0))
        impl.append((b0, r))
        cmds.append(("c_from_buffer", b0))
    outs = pq.batch(cmds)
    for tr, (b0, r), m_r in zip(trees, impl, outs):
        case = {"stream": "foreign", "root": tr[1], "tree": tree_json(tr)}
        ctx.case(case, trivial=(not tr[2]))
        ctx.count("foreign.root", tr[1])
        if r[0] != "ok":
            ctx.correspondence("from_buffer(spec-encoded) ~ impl model c_from_buffer", case, "ok", list(r[:3]))
            ctx.fail({"component": "from_buffer", "kind": "crash-or-exception", "stream": "foreign"}, case, "worker: %r" % (r[:3],))
            continue
        y, pos, printed, b1 = r[1]
        ctx.correspondence("from_buffer(spec-encoded) ~ impl model c_from_buffer", case, T.canon(m_r),
                           ["ok", T.canon(T.pv(y)), len(b0) - pos])
        # oracle: what was parsed denotes the encoded tree (re-serialisation is byte-identical: every wire type kept)
        if b1 != b0 or printed:
            ctx.fail({"component": "reserialise", "kind": "bytes-differ", "stream": "foreign", "root": tr[1]}, case,
                     "to_bytes(from_buffer(b)) != b for spec-encoded b (%d vs %d bytes) %s" % (len(b1), len(b0), printed))


def stream_foreign_wide(ctx, pq, w, root, enums, structs, specs_names):
    """everything the IDL allows below the roots (i8/i16 fields, field id 14, empty lists, crypto structs), encoded by the
    specification writer: the reader model on type nibbles 3/4 and on ids up to 14; re-serialisation must be byte-identical
    unless the tree touches one of the known-finding regions (classified per tree)"""
    rng = ctx.rng
    n = 200 if ctx.quick() else 2000
    g = Gen(rng, enums, structs, specs_names, "wide")
    trees = []
    while len(trees) < n:
        g.budget = 0
        tr = g.struct(ROOTS[len(trees) % len(ROOTS)], 0, rng.choice([(0, 1, 2), (1, 2, 3), (0, 15)]))
        if has(tr, lambda t: t[0] == "list" and t[1] in ("FBool",)):
            continue                                   # read_list reads list<bool> as structs: outside the model (ColumnIndex only)
        trees.append(tr)
    encs = pq.batch([("thrift_enc", to_tv(tr)) for tr in trees])
    keep = [(tr, bytes(e[1])) for tr, e in zip(trees, encs) if sym(e[0]) == "ok" and len(bytes(e[1])) <= cap_lo(tr) - 1000]
    outs = pq.batch([("c_from_buffer", b0) for tr, b0 in keep])
    for (tr, b0), m_r in zip(keep, outs):
        case = {"stream": "foreign-wide", "root": tr[1], "tree": tree_json(tr)}
        ctx.case(case, trivial=(not tr[2]))
        r = w.call("reserialise", (tr[1], b0))
        regions = []
        if has(tr, lambda t: t[0] in ("i8", "i16")):
            regions.append("i8-i16-as-i32-i64")
        if has(tr, lambda t: t[0] == "struct" and any(f[0] >= 14 for f in t[2])):
            regions.append("field14")
        if has(tr, lambda t: t[0] == "list" and not t[2]):
            regions.append("empty-list-element-type")
        if has(tr, lambda t: t[0] == "list" and t[1] in ("FI64", "FBinary") and t[2]):
            regions.append("list-i64-or-binary")
        ctx.count("foreign_wide.region", "+".join(regions) or "none")
        if r[0] != "ok":
            ctx.correspondence("from_buffer(spec-encoded, whole IDL) ~ impl model c_from_buffer", case, "ok", list(r[:3]))
            continue
        y, pos, printed, b1 = r[1]
        ctx.correspondence("from_buffer(spec-encoded, whole IDL) ~ impl model c_from_buffer", case, T.canon(m_r),
                           ["ok", T.canon(T.pv(y)), len(b0) - pos])
        if b1 != b0 or printed:
            pinned = None
            if regions:
                # a known finding explains the difference only if the bytes are EXACTLY what the model of the pinned serialiser
                # (ids 1..13, nibbles 5/6 for every int, 0x00 for an empty list) produces for the parsed object
                mp = pq.call("c_ser", T.pv(y))
                pinned = sym(mp[0]) == "ok" and bytes(mp[1]) == b1
                ctx.correspondence("to_bytes(re-serialised foreign object) ~ impl model c_ser (the pinned defects, nothing else)", case,
                                   canon_out(mp), ["ok", "#" + b1.hex()])
            if regions and pinned:
                comp = "write_list" if regions[0] == "empty-list-element-type" else "write_thrift"
                ctx.fail({"component": comp, "kind": regions[0], "stream": "foreign-wide", "regions": regions}, case,
                         "re-serialisation changes the bytes (%d -> %d)" % (len(b0), len(b1)))
            elif regions:
                ctx.fail({"component": "reserialise", "kind": "bytes-differ-beyond-known-defects", "stream": "foreign-wide", "root": tr[1], "regions": regions}, case,
                         "to_bytes(from_buffer(b)) differs from b AND from what the known defects (%s) produce (%d vs %d bytes)" % ("+".join(regions), len(b1), len(b0)))
            else:
                ctx.fail({"component": "reserialise", "kind": "bytes-differ", "stream": "foreign-wide", "root": tr[1]}, case,
                         "to_bytes(from_buffer(b)) != b for spec-encoded b (%d vs %d bytes) %s" % (len(b1), len(b0), printed))


# ---- stream 3: untyped objects (the model as a function, exceptions included) --------------------------

def stream_generic(ctx, pq, w):
    rng = ctx.rng
    n = 600 if ctx.quick() else 6000
    objs = [gen_obj(rng) for _ in range(n)]
    impl = [w.call("to_bytes", ("KeyValue", o)) for o in objs]
    outs = pq.batch([("c_to_bytes", CAP, T.pv(o)) for o in objs])
    cmds, keep = [], []
    for o, r, m in zip(objs, impl, outs):
        case = {"stream": "generic", "obj": jsonable(o)}
        ctx.case(case, trivial=(not any(isinstance(k, int) for k in o)))
        want = ["ok", "#" + r[1].hex()] if r[0] == "ok" else (["exc"] if r[0] == "exc" else list(r[:2]))
        ctx.count("generic.outcome", want[0])
        ctx.correspondence("to_bytes(arbitrary object) ~ impl model c_to_bytes (bytes or exception)", case, canon_out(m), want)
        if r[0] == "ok":
            keep.append((case, r[1]))
            cmds.append(("c_from_buffer", r[1]))
    outs = pq.batch(cmds)
    for (case, b), m in zip(keep, outs):
        r = w.call("from_buffer", b)
        if r[0] != "ok":
            ctx.correspondence("from_buffer(arbitrary written object) ~ impl model c_from_buffer", case, T.canon(m), list(r[:3]))
            continue
        y, pos, printed = r[1]
        ctx.correspondence("from_buffer(arbitrary written object) ~ impl model c_from_buffer", case, T.canon(m),
                           ["ok", T.canon(T.pv(y)), len(b) - pos])


# ---- stream 4: dict_eq ----------------------------------------------------------------------------------

def same_kind(rng, v):
    """a fresh value of the same shape class (dict / list / scalar): dict_eq on a dict against a non-dict partner is type
    confusion (iterates the partner's elements as keys, returns True or raises) and is outside the model"""
    for _ in range(50):
        x = gen_any(rng, 2)
        if isinstance(v, dict) == isinstance(x, dict) and isinstance(v, list) == isinstance(x, list):
            if isinstance(v, list) and v and x and isinstance(v[0], dict) != isinstance(x[0], dict):
                continue
            return x
    return v


def mutate(rng, o):
    import copy
    o = copy.deepcopy(o)
    ks = [k for k in o if isinstance(k, int)]
    m = rng.choice(["same", "drop", "none", "change", "add", "strbytes", "nested"])
    if not ks or m == "same":
        return o
    k = rng.choice(ks)
    if m == "drop":
        del o[k]
    elif m == "none":
        o[k] = None
    elif m == "change":
        o[k] = same_kind(rng, o[k])
    elif m == "add":
        nk = rng.randrange(1, 20)
        if nk not in o:
            o[nk] = rng.choice([None, 0, "x"])
    elif m == "strbytes":
        v = o[k]
        if isinstance(v, str):
            o[k] = v.encode("utf-8")
        elif isinstance(v, bytes):
            try:
                o[k] = v.decode("utf-8")
            except UnicodeDecodeError:
                pass
    elif m == "nested":
        v = o[k]
        if isinstance(v, dict):
            o[k] = mutate(rng, v)
        elif isinstance(v, list) and v:
            i = rng.randrange(len(v))
            v[i] = mutate(rng, v[i]) if isinstance(v[i], dict) else same_kind(rng, v[i])
    return o


def eq_safe(o):
    """dict_eq raises on a str compared with a non-bytes/str partner's .decode etc.; the model covers the total part only"""
    return True


def stream_dict_eq(ctx, pq, w):
    rng = ctx.rng
    n = 400 if ctx.quick() else 4000
    pairs = []
    for _ in range(n):
        a = gen_obj(rng)
        pairs.append((a, mutate(rng, a)))
    impl = [w.call("dict_eq", p) for p in pairs]
    outs = pq.batch([("c_dict_eq", T.pv(a), T.pv(b)) for a, b in pairs])
    for (a, b), r, m in zip(pairs, impl, outs):
        case = {"stream": "dict_eq", "a": jsonable(a), "b": jsonable(b)}
        ctx.case(case)
        if r[0] != "ok":
            ctx.count("dict_eq.outcome", "raised")      # e.g. len() of a non-list partner: outside the model
            continue
        ctx.count("dict_eq.outcome", str(r[1]))
        ctx.correspondence("dict_eq ~ impl model c_dict_eq", case, bool(m), r[1])


# ---- stream 5: the buffer boundary (fresh subprocess per case) -------------------------------------------

def one_shot(root, scratch, op, payload, timeout=300):
    w = T.Worker(root, scratch)
    try:
        return w.call(op, payload, timeout)
    finally:
        w.close()


def stream_boundary(ctx, pq, root, enums, structs):
    """Statistics(max=<n bytes>) serialises to n + 1 + varint(n) + 1 bytes; the buffer holds exactly 500000."""
    rng = ctx.rng
    over = 1 + 3 + 1          # field header, 3-byte length varint (n >= 16384), stop byte
    for n in ([CAP - over - 1, CAP - over] if ctx.quick() else [CAP - over - 2, CAP - over - 1, CAP - over]):
        tr = ("struct", "Statistics", [(1, "max", "FBinary", ("bin", bytes([rng.randrange(256)]) * n))])
        boundary_case(ctx, pq, root, tr, n + over)
    tr = ("struct", "KeyValue", [(1, "key", "FString", ("str", b"k" * (CAP - over - 7))), (2, "value", "FString", ("str", b"v"))])
    boundary_case(ctx, pq, root, tr, CAP - 7 + 3)
    if not ctx.quick():
        tr = ("struct", "ColumnChunk", [(1, "file_path", "FString", ("str", b"p" * (CAP - over - 3))), (2, "file_offset", "FI64", ("i64", 4))])
        boundary_case(ctx, pq, root, tr, CAP - 3 + 2)


def boundary_case(ctx, pq, root, tr, size):
    case = {"stream": "boundary", "root": tr[1], "tree": tree_json(tr), "serialised_size": size, "capacity": CAP}
    ctx.case(case)
    ctx.count("boundary.size_minus_cap", size - CAP)
    r = one_shot(root, ctx.scratch, "api_roundtrip", to_recipe(tr))
    enc = pq.call("thrift_enc", to_tv(tr))
    want = bytes(enc[1])
    assert len(want) == size, (len(want), size)
    if r[0] != "ok":
        ctx.correspondence("to_bytes at the buffer boundary ~ impl model c_to_bytes", case, "ok", list(r[:3]))
        ctx.fail({"component": "to_bytes", "kind": "crash-or-exception", "stream": "boundary", "over": size - CAP}, case, repr(r[:3]))
        return
    b, x, y, eq, cap = r[1]
    m = pq.call("c_to_bytes", cap, T.pv(x))
    ctx.correspondence("to_bytes at the buffer boundary ~ impl model c_to_bytes", case, sha_out(m), ["ok", len(b), C.sha(b)[:20]])
    if b != want or not eq:
        ctx.fail({"component": "to_bytes", "kind": "truncated" if len(b) < len(want) else "wrong-bytes", "stream": "boundary",
                  "over": size - cap}, case, "to_bytes returned %d bytes, the serialisation has %d; equal after parse: %s" % (len(b), len(want), eq))


def sha_out(m):
    if sym(m[0]) == "ok":
        b = bytes(m[1])
        return ["ok", len(b), C.sha(b)[:20]]
    return [sym(x) if isinstance(x, (bytes, bytearray)) else x for x in m]


# ---- stream 6: confirmation of the known findings (each in its own subprocess) ------------------------------

def stream_known(ctx, pq, root, enums, structs, specs_names):
    rng = ctx.rng
    # (a) field id 14
    for tr in [
        ("struct", "ColumnMetaData", [(1, "type", ("enum", "Type"), ("enum", 1)), (2, "encodings", ("list", ("enum", "Encoding")), ("list", ("enum", "Encoding"), [("enum", 0)])),
                                      (3, "path_in_schema", ("list", "FString"), ("list", "FString", [("str", b"a")])), (4, "codec", ("enum", "CompressionCodec"), ("enum", 0)),
                                      (5, "num_values", "FI64", ("i64", 10)), (6, "total_uncompressed_size", "FI64", ("i64", 100)),
                                      (7, "total_compressed_size", "FI64", ("i64", 100)), (9, "data_page_offset", "FI64", ("i64", 4)),
                                      (14, "bloom_filter_offset", "FI64", ("i64", rng.randrange(1, 2 ** 40)))]),
        ("struct", "LogicalType", [(14, "UUID", ("struct", "UUIDType"), ("struct", "UUIDType", []))]),
    ]:
        known_case(ctx, pq, root, tr, {"component": "write_thrift", "kind": "field14"})
    # (b) i8 / i16 fields are written as i32/i64
    for tr in [
        ("struct", "LogicalType", [(10, "INTEGER", ("struct", "IntType"), ("struct", "IntType", [(1, "bitWidth", "FI8", ("i8", rng.choice([8, 16, 32, 64]))), (2, "isSigned", "FBool", ("bool", True))]))]),
        ("struct", "RowGroup", [(1, "columns", ("list", ("struct", "ColumnChunk")), ("list", ("struct", "ColumnChunk"), [("struct", "ColumnChunk", [(2, "file_offset", "FI64", ("i64", 4))])])),
                                (2, "total_byte_size", "FI64", ("i64", 10)), (3, "num_rows", "FI64", ("i64", 1)), (7, "ordinal", "FI16", ("i16", rng.randrange(0, 300)))]),
    ]:
        known_case(ctx, pq, root, tr, {"component": "write_thrift", "kind": "i8-i16-as-i32-i64"})
    # (c) empty list: header byte 0x00 (element type 0)
    tr = ("struct", "FileMetaData", [(1, "version", "FI32", ("i32", 1)), (2, "schema", ("list", ("struct", "SchemaElement")), ("list", ("struct", "SchemaElement"), [("struct", "SchemaElement", [(4, "name", "FString", ("str", b"schema"))])])),
                                     (3, "num_rows", "FI64", ("i64", 0)), (4, "row_groups", ("list", ("struct", "RowGroup")), ("list", ("struct", "RowGroup"), []))])
    known_case(ctx, pq, root, tr, {"component": "write_list", "kind": "empty-list-element-type"})
    # (d) silent truncation / (e) overflow of the fixed buffer
    over = 5
    tr = ("struct", "Statistics", [(1, "max", "FBinary", ("bin", b"\x07" * (CAP - over + 1)))])      # copy fits, the stop byte does not
    known_case(ctx, pq, root, tr, {"component": "to_bytes", "kind": "truncated"}, expect_model="ok")
    tr = ("struct", "Statistics", [(1, "max", "FBinary", ("bin", b"\x07" * 600000)), (2, "min", "FBinary", ("bin", b"\x01" * 10))])
    known_case(ctx, pq, root, tr, {"component": "to_bytes", "kind": "overflow"}, expect_model="oob")
    names = [("c%04d_" % i).encode() + b"n" * 1000 for i in range(600)]
    tr = ("struct", "FileMetaData", [(1, "version", "FI32", ("i32", 1)),
                                     (2, "schema", ("list", ("struct", "SchemaElement")), ("list", ("struct", "SchemaElement"), [("struct", "SchemaElement", [(4, "name", "FString", ("str", nm))]) for nm in names])),
                                     (3, "num_rows", "FI64", ("i64", 0)),
                                     (4, "row_groups", ("list", ("struct", "RowGroup")), ("list", ("struct", "RowGroup"), []))])
    known_case(ctx, pq, root, tr, {"component": "to_bytes", "kind": "overflow"}, expect_model="oob")


def minimal_witnesses(ctx, w):
    """the minimal witnesses of props/C10.v (C10_*_minimal_refuted) and their correctly handled neighbours, on the compiled code"""
    for name, op, payload, want in [
            ("field 14 dropped: {14: 0}", "to_bytes", ("KeyValue", {14: 0}), bytes([0])),
            ("field 13 kept: {13: 0}", "to_bytes", ("KeyValue", {13: 0}), bytes([214, 0, 0])),
            ("i8 re-serialised as i64: 13 00 00", "reserialise", ("KeyValue", bytes([19, 0, 0])), bytes([22, 0, 0])),
            ("i16 re-serialised as i64: 14 00 00", "reserialise", ("KeyValue", bytes([20, 0, 0])), bytes([22, 0, 0])),
            ("i32 re-serialised identically: 15 00 00", "reserialise", ("KeyValue", bytes([21, 0, 0])), bytes([21, 0, 0])),
            ("empty list written as 00: {1: []}", "to_bytes", ("KeyValue", {1: []}), bytes([25, 0, 0])),
            ("non-empty struct list re-serialised identically: 19 1c 00 00", "reserialise", ("KeyValue", bytes([25, 28, 0, 0])), bytes([25, 28, 0, 0]))]:
        r = w.call(op, payload)
        got = (r[1] if op == "to_bytes" else r[1][3]) if r[0] == "ok" else list(r[:2])
        ctx.case({"stream": "minimal-witness", "what": name})
        ctx.correspondence("minimal witnesses of C10_*_minimal_refuted ~ compiled cencoding", {"what": name},
                           want.hex(), got.hex() if isinstance(got, (bytes, bytearray)) else got)


def known_case(ctx, pq, root, tr, cls, expect_model=None):
    """oracle only (plus the impl model's prediction): from_buffer(to_bytes(x)) == x and strict IDL parse of to_bytes(x) == the tree"""
    case = {"stream": "known-finding-confirmation", "root": tr[1], "tree": tree_json(tr), "class": cls}
    ctx.case(case)
    ctx.count("known.kind", cls["kind"])
    r = one_shot(root, ctx.scratch, "api_roundtrip", to_recipe(tr))
    raw = to_raw(tr)
    m = pq.call("c_to_bytes", CAP, T.pv(raw))
    if expect_model:
        ctx.correspondence("impl model outcome class on the confirmation inputs (ok / oob)", case, sym(m[0]), expect_model)
    if r[0] != "ok":
        want = bytes(pq.call("thrift_enc", to_tv(tr))[1])
        ctx.fail(dict(cls, outcome="crash" if r[0] == "crash" else r[0], over=len(want) - CAP), case, "worker: %r" % (r[:3],))
        return
    b, x, y, eq, cap = r[1]
    if sym(m[0]) == "ok":
        ctx.correspondence("to_bytes(confirmation input) ~ impl model c_to_bytes", case, sha_out(m), ["ok", len(b), C.sha(b)[:20]])
    enc = pq.call("thrift_enc", to_tv(tr))
    want = bytes(enc[1])
    idl = pq.call("idl_dec", tr[1], 0, 0, 1, b)
    conf = sym(idl[0]) == "ok" and T.canon(idl[1]) == T.canon(to_tv(tr)) and idl[2] == 0
    if not eq or not conf or b != want:
        if sym(m[0]) == "ok" and bytes(m[1]) != b:
            # not what the model of the pinned (defective) serialiser produces: something else than the known defect
            cls = dict(cls, kind="differs-from-pinned-model(" + cls["kind"] + ")")
        ctx.fail(dict(cls, outcome="returned", over=len(want) - cap), case,
                 "x == from_buffer(to_bytes(x)): %s; strict IDL parse gives the tree: %s (%s); bytes %d, specification encoding %d" % (
                     eq, conf, sym(idl[0]), len(b), len(want)))
    else:
        ctx.notes.append("known finding %s did NOT reproduce on this tree" % cls["kind"])


# ---- stream 7: footers and page headers of files written by fastparquet.write -----------------------------

def file_desc(rng):
    nrows = rng.choice([1, 10, 300])
    return {"nrows": nrows, "idtype": rng.choice(["int64", "int32", "uint8", "int16"]), "ftype": rng.choice(["float64", "float32"]),
            "cat": rng.random() < 0.5, "nullable": rng.random() < 0.4, "objnull": rng.random() < 0.4,
            "compression": rng.choice([None, "SNAPPY", "GZIP"]), "stats": rng.choice([True, False]),
            "rgo": rng.choice([None, max(1, nrows // 2)]), "kvlen": rng.choice([None, 0, 1, 200]),
            "scheme": rng.choice(["simple", "hive"]), "v2": rng.random() < 0.4, "times": rng.choice(["int64", "int96"]),
            "has_nulls": rng.choice([True, False, "infer", "infer"])}


def check_written(fd, scratch, pq, tag):
    """write a frame with fastparquet.write as described by fd; strict IDL-typed parse of every footer and page header.
    -> (problems, counts)"""
    import numpy as np
    import pandas as pd
    import fastparquet
    import fastparquet.writer as fw
    from harness import pqfile
    nrows = fd["nrows"]
    df = pd.DataFrame({
        "i": np.arange(nrows, dtype=fd["idtype"]),
        "f": np.linspace(0, 1, nrows).astype(fd["ftype"]),
        "s": ["v%d" % (j % 7) for j in range(nrows)],
        "t": pd.date_range("2020-01-01", periods=nrows, freq="h"),
        "b": np.arange(nrows) % 2 == 0,
    })
    if fd["cat"]:
        df["c"] = pd.Categorical(["x", "y"] * (nrows // 2) + ["x"] * (nrows % 2))
    if fd["nullable"]:
        df["n"] = pd.array([None if j % 3 == 0 else j for j in range(nrows)], dtype="Int64")
    if fd["objnull"]:
        df["o"] = pd.Series([None if j % 2 else "t%d" % j for j in range(nrows)], dtype="object")
    path = os.path.join(scratch, "%s.parquet" % tag)
    old = fw.DATAPAGE_VERSION
    fw.DATAPAGE_VERSION = 2 if fd["v2"] else 1
    try:
        fastparquet.write(path, df, file_scheme=fd["scheme"], times=fd["times"], compression=fd["compression"], stats=fd["stats"],
                          row_group_offsets=fd["rgo"], has_nulls=fd["has_nulls"],
                          custom_metadata=None if fd["kvlen"] is None else {"k": "v" * fd["kvlen"]})
    except (ValueError, TypeError) as e:       # e.g. has_nulls=False with NA values: refusing is allowed
        return [], {"footer": 0, "page_header": 0, "write_raised": 1}
    finally:
        fw.DATAPAGE_VERSION = old
    files = [path] if fd["scheme"] == "simple" else [os.path.join(path, f) for f in sorted(os.listdir(path))]
    problems, counts = [], {"footer": 0, "page_header": 0}
    for fn in files:
        data = open(fn, "rb").read()
        if data[-4:] != b"PAR1":
            continue
        size = int.from_bytes(data[-8:-4], "little")
        footer = data[-8 - size:-8]
        r = pq.call("idl_dec", "FileMetaData", 1, 0, 1, footer)
        counts["footer"] += 1
        if sym(r[0]) != "ok" or r[2] != 0:
            problems.append(("FileMetaData", os.path.basename(fn), "footer is not a conformant FileMetaData: %s at field path %r" % (sym(r[0]), T.canon(r)[1:2])))
        else:
            # the codec the caller named is written as the IDL's constant of that name
            from harness import c10_edits as E
            want = ENUMS["CompressionCodec"][(fd["compression"] or "UNCOMPRESSED").upper()]
            tree = E.dec(r[1])
            for rg in (E.get(tree, 4) or ["l", 0, []])[2]:
                for cc in E.get(rg, 1)[2]:
                    cmd = E.get(cc, 3)
                    if cmd is not None and E.get(cmd, 4)[1] != want:
                        problems.append(("FileMetaData", os.path.basename(fn), "ColumnMetaData.codec is %r, the IDL value of %s is %d" % (
                            E.get(cmd, 4)[1], fd["compression"], want)))
                        break
        if os.path.basename(fn) in ("_metadata", "_common_metadata"):
            continue
        fmd = fastparquet.cencoding.from_buffer(footer, "FileMetaData")
        for rg in fmd.row_groups:
            for col in rg.columns:
                pages, _, _ = pqfile.chunk_pages(data, col.meta_data)
                for p in pages:
                    hb = data[p["offset"]:p["offset"] + p["header_len"]]
                    r = pq.call("idl_dec", "PageHeader", 1, 0, 1, hb)
                    counts["page_header"] += 1
                    if sym(r[0]) != "ok" or r[2] != 0:
                        problems.append(("PageHeader", os.path.basename(fn), "page header not conformant: %s at field path %r" % (sym(r[0]), T.canon(r)[1:2])))
    return problems, counts


ENUMS = {}


def stream_files(ctx, pq):
    C.use_shadow()
    ENUMS.update(T.load_idl()[0])
    rng = ctx.rng
    n = 8 if ctx.quick() else 80
    for i in range(n):
        fd = file_desc(rng)
        case = {"stream": "written-files", "file": fd}
        ctx.case(case)
        problems, counts = check_written(fd, ctx.scratch, pq, "f%d" % i)
        ctx.count("files.has_nulls", fd["has_nulls"])
        for k, v in counts.items():
            ctx.dist.setdefault("files.parsed", {})[k] = ctx.dist.setdefault("files.parsed", {}).get(k, 0) + v
        for struct, fn, msg in problems[:1]:
            ctx.fail({"component": "writer-call-sites", "kind": "idl-nonconformant", "struct": struct}, dict(case, where=fn), msg)


INDEX_ROOTS = ["ColumnIndex", "OffsetIndex", "PageLocation", "BloomFilterHeader", "SortingColumn", "PageEncodingStats",
               "ColumnCryptoMetaData", "EncryptionAlgorithm", "FileCryptoMetaData"]


def stream_index(ctx, pq, root, enums, structs, specs_names):
    """the IDL structs outside the property's own list (page index, bloom filter, crypto): same oracles on raw int-keyed dicts with
    IDL-consistent markers and on specification-encoded bytes; each case in its own subprocess when it holds a list<bool> (read_list
    parses those as structs).  Failures are classified by the list element types involved (open findings, all in .pyx)."""
    rng = ctx.rng
    n = 60 if ctx.quick() else 900
    g = Gen(rng, enums, structs, specs_names, "wide")
    w = T.Worker(root, ctx.scratch)
    try:
        fixed = [
            ("struct", "ColumnIndex", [(5, "null_counts", ("list", "FI64"), ("list", "FI64", [("i64", 0), ("i64", 7), ("i64", 2 ** 40)]))]),
            ("struct", "ColumnIndex", [(5, "null_counts", ("list", "FI64"), ("list", "FI64", [("i64", 0), ("i64", 7)]))]),
            ("struct", "ColumnIndex", [(2, "min_values", ("list", "FBinary"), ("list", "FBinary", [("bin", b"\x00\xff\xfe"), ("bin", b"a")])),
                                       (3, "max_values", ("list", "FBinary"), ("list", "FBinary", [("bin", b"\x80"), ("bin", b"b")]))]),
            ("struct", "ColumnIndex", [(2, "min_values", ("list", "FBinary"), ("list", "FBinary", [("bin", b"abc"), ("bin", "é".encode())]))]),
        ]
        for i in range(n + len(fixed)):
            g.budget = 0
            tr = fixed[i] if i < len(fixed) else g.struct(INDEX_ROOTS[i % len(INDEX_ROOTS)], 0, rng.choice([(1, 2, 3), (1, 15), (2, 16)]))
            lb = has(tr, lambda t: t[0] == "list" and t[1] == "FBool" and t[2])
            l64 = has(tr, lambda t: t[0] == "list" and t[1] == "FI64" and t[2])
            lbin = has(tr, lambda t: t[0] == "list" and t[1] == "FBinary" and t[2])
            small = has(tr, lambda t: t[0] in ("i8", "i16"))
            case = {"stream": "index-structs", "root": tr[1], "tree": tree_json(tr)}
            ctx.case(case, trivial=(not tr[2]))
            ctx.count("index.root", tr[1])
            ctx.count("index.lists", "+".join(k for k, v in (("bool", lb), ("i64", l64), ("binary", lbin)) if v) or "none")
            enc = pq.call("thrift_enc", to_tv(tr))
            if sym(enc[0]) != "ok":
                continue
            b0 = bytes(enc[1])
            raw = to_raw(tr)
            # ---- write side: to_bytes of the IDL-typed object must be the specification's bytes
            r = (one_shot(root, ctx.scratch, "to_bytes", ("KeyValue", raw)) if lb else w.call("to_bytes", ("KeyValue", raw)))
            m = pq.call("c_to_bytes", CAP, T.pv(raw))
            want = ["ok", "#" + r[1].hex()] if r[0] == "ok" else (["exc"] if r[0] == "exc" else list(r[:2]))
            ctx.correspondence("to_bytes(index/bloom/crypto structs) ~ impl model c_to_bytes (bytes or exception)", case, canon_out(m), want)
            if r[0] != "ok" or r[1] != b0:
                kind = "list-bool" if lb else ("list-i64-as-i32" if l64 else ("i8-i16-as-i32-i64" if small else
                       ("empty-list-element-type" if has(tr, lambda t: t[0] == "list" and not t[2]) else "wrong-bytes")))
                if canon_out(m) != want:
                    kind = "differs-from-pinned-model(" + kind + ")"      # not (only) the known defect: never suppressed
                comp = "write_thrift" if kind == "i8-i16-as-i32-i64" else "write_list"
                ctx.fail({"component": comp, "kind": kind, "stream": "index-structs", "root": tr[1]}, case,
                         "to_bytes of the IDL-typed object is not the specification's encoding (%s)" % (r[0] if r[0] != "ok" else "%d vs %d bytes" % (len(r[1]), len(b0))))
            # ---- read side: parse the specification's bytes and serialise again
            r2 = (one_shot(root, ctx.scratch, "reserialise", ("KeyValue", b0), timeout=60) if lb else w.call("reserialise", ("KeyValue", b0), 60))
            ok2 = r2[0] == "ok" and r2[1][3] == b0 and not r2[1][2]
            nonutf8 = has(tr, lambda t: t[0] == "list" and t[1] == "FBinary" and any(not _utf8(x[1]) for x in t[2]))
            if not lb and not nonutf8 and r2[0] == "ok":      # UTF-8 decoding with errors="ignore" is outside the model
                m2 = pq.call("c_from_buffer", b0)
                ctx.correspondence("from_buffer(index/bloom/crypto structs, spec-encoded) ~ impl model c_from_buffer", case, T.canon(m2),
                                   ["ok", T.canon(T.pv(r2[1][0])), len(b0) - r2[1][1]])
            if not ok2:
                kind = "list-bool" if lb else ("list-i64-as-i32" if l64 else ("list-binary-as-str" if nonutf8 else
                       ("i8-i16-as-i32-i64" if small else ("empty-list-element-type" if has(tr, lambda t: t[0] == "list" and not t[2]) else "bytes-differ"))))
                comp = "read_list" if kind in ("list-bool", "list-binary-as-str") else ("write_thrift" if kind == "i8-i16-as-i32-i64" else "write_list")
                ctx.fail({"component": comp, "kind": kind, "stream": "index-structs", "root": tr[1], "outcome": r2[0]}, case,
                         "from_buffer + to_bytes of specification-encoded bytes does not give them back (%s)" % (r2[0],))
    finally:
        w.close()


def _utf8(b):
    try:
        b.decode("utf-8")
        return True
    except UnicodeDecodeError:
        return False


def stream_edits(ctx, pq):
    """metadata edit paths on foreign-style footers (harness/c10_edits.py)"""
    from harness import c10_edits as E
    C.use_shadow()
    rng = ctx.rng
    n = 48 if ctx.quick() else 480
    for i in range(n):
        case = E.gen_case(rng)
        case["edit"] = E.EDITS[i % len(E.EDITS)]
        problems, info = E.run_case(case, ctx.scratch, pq, "e%d" % i)
        ctx.case({"stream": "edits", "edit_case": case})
        ctx.count("edits.path", case["edit"])
        ctx.count("edits.repeated_keys", sum(1 for k, v, w in case["decor"]["kv"] if k == "hist"))
        if problems:
            d = case["decor"]
            cls = {"component": "metadata-edit", "path": case["edit"], "kind": "untouched-metadata-changed"}
            if "raised" in info:
                cls["kind"] = "raised"
            ctx.fail(cls, {"stream": "edits", "edit_case": case}, "; ".join(problems)[:1500])


# ---- wave 3: every struct x serialised sizes on a lattice (harness/c10_sizes.py) -------------------------------------

def stream_struct_sizes(ctx, pq, w, enums, structs, specs_names):
    """to_bytes / from_buffer / pickle of EVERY struct the serialiser knows, with one payload (top level or nested) sized so
    that the serialisation has S-1, S, S+1 bytes for S on a lattice of powers of two / round numbers below the 500000-byte buffer"""
    from harness import c10_sizes as Z
    names = [n for n in sorted(specs_names) if n in structs and Z.blob_tree(structs, specs_names, n, 0) is not None]
    ctx.extra["struct_sizes_roots"] = names
    encs = pq.batch([("thrift_enc", to_tv(Z.blob_tree(structs, specs_names, n, 0))) for n in names])
    base = {n: len(bytes(e[1])) for n, e in zip(names, encs)}
    sizes = Z.size_lattice(ctx.quick())
    small = [s for s in sizes if s <= 2 ** 14 + 2]
    bigs = [s for s in sizes if s > 2 ** 14 + 2]
    plan = []
    for i, n in enumerate(names):
        mine = list(small) + ([bigs[(2 * i) % len(bigs)], bigs[(2 * i + 1) % len(bigs)]] if (ctx.quick() and bigs) else bigs)
        for S in mine:
            # base counts one payload byte-length varint of 1 byte (n = 0)
            for k in (1, 2, 3, 4):
                nb = S - base[n] - (k - 1)
                if nb >= 0 and Z.uleb_len(nb) == k:
                    plan.append((n, S, nb))
                    break
    trees = [Z.blob_tree(structs, specs_names, n, nb) for n, S, nb in plan]
    wants = pq.batch([("thrift_enc", to_tv(tr)) for tr in trees])
    for (n, S, nb), tr, e in zip(plan, trees, wants):
        want = bytes(e[1])
        case = {"stream": "struct-sizes", "root": n, "payload_bytes": nb, "serialised_size": S}
        ctx.case(case)
        ctx.count("struct-sizes.root", n)
        ctx.count("struct-sizes.size", S)
        assert len(want) == S, (n, S, len(want))
        r = w.call("api_roundtrip", to_recipe(tr), 120)
        cls = {"component": "to_bytes", "stream": "struct-sizes", "root": n, "over": S - CAP}
        if r[0] != "ok":
            ctx.fail(dict(cls, kind="crash-or-exception"), case, "to_bytes/from_buffer of a %s of %d bytes: %r" % (n, S, r[:3]))
            continue
        b, x, y, eq, cap = r[1]
        ctx.correspondence("to_bytes(every struct x size lattice) ~ spec encoding thrift_enc (byte-exact)", case,
                           [len(want), C.sha(want)[:20]], [len(b), C.sha(b)[:20]])
        if b != want or not eq:
            ctx.fail(dict(cls, kind="truncated" if len(b) < len(want) else "wrong-bytes"), case,
                     "%s: to_bytes returned %d bytes, the serialisation has %d; x == from_buffer(to_bytes(x)): %s" % (n, len(b), len(want), eq))
            continue
        r2 = w.call("pickle", (n, x), 120)
        if r2[0] != "ok" or not r2[1][0]:
            ctx.fail({"component": "pickle", "kind": "not-equal" if r2[0] == "ok" else "crash-or-exception", "stream": "struct-sizes", "root": n},
                     case, "pickle.loads(pickle.dumps(x)) != x for a %s of %d bytes: %r" % (n, S, r2[:2] if r2[0] != "ok" else "not equal"))


# ---------------------------------------------------------------------------------------------------

def replay(rep):
    """Re-execute a recorded failing input on the real code (in a subprocess) and print what the property observes."""
    if rep.get("kind") == "no-failing-input-found":
        print(json.dumps(rep, indent=1)[:6000])
        return 1
    case = rep["case"]
    if case.get("stream") == "edits":
        import tempfile
        import shutil
        from harness import c10_edits as E
        C.use_shadow()
        tmp = tempfile.mkdtemp(prefix="verif-C10-replay-", dir="/tmp")
        try:
            pq = C.Pqref()
            problems, info = E.run_case(case["edit_case"], tmp, pq, "replay")
            pq.close()
            print("edit path %s on a foreign-style footer (%s), update %r" % (
                case["edit_case"]["edit"], ", ".join(k for k, v in case["edit_case"]["decor"].items() if v), case["edit_case"]["update"]))
            for pr in problems:
                print("PROPERTY FAILS:", pr)
            if not problems:
                print("ok: everything the edit did not name is preserved")
            return 1 if problems else 0
        finally:
            shutil.rmtree(tmp, ignore_errors=True)
    if case.get("stream") == "written-files":
        import tempfile
        import shutil
        C.use_shadow()
        tmp = tempfile.mkdtemp(prefix="verif-C10-replay-", dir="/tmp")
        try:
            pq = C.Pqref()
            ENUMS.update(T.load_idl()[0])
            problems, counts = check_written(case["file"], tmp, pq, "replay")
            pq.close()
            print("wrote %r; strict IDL-typed parse of %d footer(s), %d page header(s)" % (case["file"], counts["footer"], counts["page_header"]))
            for pr in problems:
                print("PROPERTY FAILS:", pr)
            return 1 if problems else 0
        finally:
            shutil.rmtree(tmp, ignore_errors=True)
    if case.get("stream") == "footer-parse":
        from harness import c10_sizes as Z
        return Z.replay_footer_parse(case)
    if "tree" not in case and case.get("stream") != "struct-sizes":
        print(json.dumps(rep, indent=1)[:6000])
        return 1
    import tempfile
    import shutil
    root = C.shadow()
    tmp = tempfile.mkdtemp(prefix="verif-C10-replay-", dir="/tmp")
    try:
        if case.get("stream") == "struct-sizes":
            from harness import c10_sizes as Z
            enums, structs = T.load_idl()
            w0 = T.Worker(root, tmp)
            specs_names = set(call(w0, "specs_names", sorted(structs)))
            w0.close()
            tr = Z.blob_tree(structs, specs_names, case["root"], case["payload_bytes"])
        else:
            tr = tree_unjson(case["tree"])
        big_stack()
        pq = C.Pqref()
        if case.get("stream") == "foreign":
            b0 = bytes(pq.call("thrift_enc", to_tv(tr))[1])
            r = one_shot(root, tmp, "reserialise", (tr[1], b0))
            print("spec-encoded %s: %d bytes" % (tr[1], len(b0)))
            if r[0] != "ok":
                print("PROPERTY FAILS: from_buffer/to_bytes:", r[:3])
                return 1
            y, pos, printed, b1 = r[1]
            print("re-serialised: %d bytes, identical: %s %s" % (len(b1), b1 == b0, printed))
            return 0 if b1 == b0 else 1
        r = one_shot(root, tmp, "api_roundtrip", to_recipe(tr))
        want = bytes(pq.call("thrift_enc", to_tv(tr))[1])
        print("%s built through the API; the specification's encoding has %d bytes" % (tr[1], len(want)))
        if r[0] != "ok":
            print("PROPERTY FAILS: to_bytes/from_buffer did not return:", r[:3])
            return 1
        b, x, y, eq, cap = r[1]
        idl = pq.call("idl_dec", tr[1], 0, 0, 1, b)
        conf = sym(idl[0]) == "ok" and T.canon(idl[1]) == T.canon(to_tv(tr)) and idl[2] == 0
        print("to_bytes: %d bytes; identical to the specification's encoding: %s; x == from_buffer(to_bytes(x)): %s; strict IDL parse gives the tree: %s" % (
            len(b), b == want, eq, conf))
        pq.close()
        bad = not (eq and conf and b == want)
        if case.get("stream") == "struct-sizes" and not bad:
            r2 = one_shot(root, tmp, "pickle", (tr[1], x))
            print("pickle round trip:", r2[0], r2[1][0] if r2[0] == "ok" else r2[1:3])
            bad = r2[0] != "ok" or not r2[1][0]
        print("PROPERTY FAILS" if bad else "ok")
        return 1 if bad else 0
    finally:
        shutil.rmtree(tmp, ignore_errors=True)
