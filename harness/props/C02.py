"""C02 - written files are valid Parquet that an independent reader decodes identically.

Every file fastparquet writes for the generated frames goes through the extracted specification-level
validator and decoder (coq/theories/Format/*, proved to round-trip): verdict must be Valid, and the
decoded physical table must be the one the input frame determines."""
import json
import multiprocessing as mp
import os
import re
import shutil
import tempfile
import warnings

from harness import common as C
from harness import frames as F

TRUSTED = [
    "Coq 8.16.1 kernel + coqc; vm_compute only in the closed Examples; no native_compute",
    "extraction: ExtrOcamlBasic only, no Extract Constant; ocaml/driver.ml s-expression I/O",
    "Section hypothesis of Format/*: decompress codec (compress codec b) = b - the codecs are cramjam's (called directly from "
    "harness/fmtlib.py, two-phase protocol); every payload the validator uses was decompressed by cramjam in this run",
    "Thrift/IdlPinned.v (the IDL table; C10 re-derives it from parquet.thrift on every run)",
    "Python glue (harness/fmtlib.py expected_cells): how a pandas cell maps to the physical value the file must hold "
    "(two's-complement bit patterns, IEEE bit patterns, UTF-8, timestamp unit named by the schema, INT96 = ns of day + Julian day, "
    "NULL iff the column is optional and the cell is missing, NaN/NaT as values otherwise; JSON compared after parsing)",
    "modelled, not verified: pandas/numpy conversions inside fastparquet (reached only through the oracle runs)",
]

_FMT = None
_SCRATCH = "/tmp"      # per-job directories live under the run's scratch root (removed by ctx.finish)


def _init():
    warnings.filterwarnings("ignore")
    C.use_shadow()


def _fmt():
    global _FMT
    if _FMT is None:
        from harness import fmtlib
        _FMT = fmtlib.Fmt(C.Pqref())
    return _FMT


def _part_no(fn):
    m = re.search(r"part\.(\d+)\.parquet$", fn)
    return int(m.group(1)) if m else -1


def _footer_tv(fm, data):
    n = int.from_bytes(data[-8:-4], "little")
    r = fm.pq.call("idl_dec", "FileMetaData", 1, 1, 0, data[-8 - n:-8])
    return r[1] if r and r[0] == b"ok" else None


def _fld(tv, fid):
    if not tv or tv[0] != b"r":
        return None
    for i, v in tv[1]:
        if i == fid:
            return v
    return None


def _pandas_meta(tv):
    """the JSON document stored under the key 'pandas' in FileMetaData.key_value_metadata, or None"""
    kv = _fld(tv, 5)
    for e in (kv[2] if kv else []):
        k, v = _fld(e, 1), _fld(e, 2)
        if k and bytes(k[1]) == b"pandas" and v:
            try:
                return json.loads(bytes(v[1]).decode("utf-8"))
            except Exception:   # noqa
                return None
    return None


def _strip_paths(rg):
    """RowGroup tv with ColumnChunk.file_path removed"""
    cols = _fld(rg, 1)
    out = []
    for c in (cols[2] if cols else []):
        out.append([b"r", [[i, v] for i, v in c[1] if i != 1]])
    return [out, _fld(rg, 2), _fld(rg, 3)]


def page_model_check(fm, data, leaves, rgs):
    """byte-level tie of Impl/WPagesFmt.v: every PLAIN data page of a non-dictionary, non-BOOLEAN chunk must be exactly
    the payload the writer model lays out for the cells it holds.  -> (pages compared, [mismatch descriptions])"""
    from harness import pqfile, fmtlib
    fmd, _ = pqfile.read_footer(data)
    n, bad = 0, []
    for rg, rgcells in zip(fmd.row_groups, rgs):
        for col, l, cells in zip(rg.columns, leaves, rgcells):
            m = col.meta_data
            if l["type"] == 0:
                continue
            pages, _, _ = pqfile.chunk_pages(data, m)
            if any(p["type"] == 2 for p in pages):
                continue
            at = 0
            for p in pages:
                if p["type"] not in (0, 3) or p["encoding"] != 0:
                    at += p.get("num_values", 0)
                    continue
                pc = cells[at:at + p["num_values"]]
                at += p["num_values"]
                payload = p["payload"]
                if p["type"] == 0:
                    raw = payload if not m.codec else fmtlib.CODECS[m.codec][1](payload, p["uncompressed_page_size"])
                else:
                    dl = p["def_len"]
                    body = payload[dl:]
                    if m.codec and p["is_compressed"] is not False:
                        body = fmtlib.CODECS[m.codec][1](body, p["uncompressed_page_size"] - dl)
                    raw = payload[:dl] + body
                r = fm.pq.call("fmt_fp_page", 1 if p["type"] == 3 else 0, 1 if l["maxdef"] else 0, l["type"], l["tlen"],
                               [[] if c is None else c for c in pc])
                n += 1
                if r[0] != b"ok" or bytes(r[1]) != raw:
                    bad.append("column %s page at %d: model %s..., writer %s..." % (l["name"], p["offset"],
                               (bytes(r[1]).hex()[:60] if r[0] == b"ok" else r), raw.hex()[:60]))
    return n, bad


def _plain_labels(ptype, tlen, raw, n):
    """PLAIN decode of a dictionary page (numbers as little-endian bit patterns, byte strings as bytes) or None"""
    width = {1: 4, 2: 8, 3: 12, 4: 4, 5: 8}.get(ptype)
    out, at = [], 0
    if ptype == 0:       # BOOLEAN: bit-packed, least significant bit first
        if len(raw) != (n + 7) // 8:
            return None
        return [(raw[i // 8] >> (i % 8)) & 1 for i in range(n)]
    for _ in range(n):
        if width:
            out.append(int.from_bytes(raw[at:at + width], "little"))
            at += width
        elif ptype == 6:
            ln = int.from_bytes(raw[at:at + 4], "little")
            out.append(bytes(raw[at + 4:at + 4 + ln]))
            at += 4 + ln
        elif ptype == 7:
            out.append(bytes(raw[at:at + tlen]))
            at += tlen
        else:
            return None
    return out if at == len(raw) else None


def chunk_model_check(fm, data, leaves, rgs, fn=None):
    """tie of Impl/WChunk.v + Impl/RSelf.v (coq/props/C01_chunk.v) to the code, per column chunk of a written file:
       (a) the writer model's chunk bytes for the column the chunk holds (same page split, labels and codes of a
           categorical) = the bytes write_column wrote (information: padding / run choices are the writer's freedom);
       (b) the reader model WITH the selfmade shortcuts (skip_nulls from the statistics, raw 8/16/32-bit codes) applied
           to the real chunk bytes returns the cells the specification decoder (and the real reader) returns.
       (c) a categorical chunk read AS A CATEGORICAL by the model (Impl/RCat.rd_chunk_cat, C01_chunk_categorical_roundtrip_partial)
           gives the codes array the REAL reader gives (ParquetFile(fn).to_pandas(): use_cat path) and the codes the
           specification's cells have in the dictionary.
       -> dict(chunks, bytes_equal, raw_equal, differ=[...], reader_ok, reader_bad=[...])"""
    from harness import pqfile, fmtlib
    fmd, _ = pqfile.read_footer(data)
    out = {"chunks": 0, "bytes_equal": 0, "raw_equal": 0, "differ": [], "reader": 0, "reader_bad": [], "cat_chunks": 0, "cat_read": 0}
    model_codes = {}
    for rg, rgcells in zip(fmd.row_groups, rgs):
        for col, l, cells in zip(rg.columns, leaves, rgcells):
            m = col.meta_data
            if not cells:
                continue
            pages, start, end = pqfile.chunk_pages(data, m)
            codec = m.codec or 0
            v2 = any(p["type"] == 3 for p in pages)
            dps = [p for p in pages if p["type"] in (0, 3)]
            dicts = [p for p in pages if p["type"] == 2]
            if len(dicts) > 1 or any(p["type"] not in (0, 2, 3) for p in pages) or (dicts and pages[0]["type"] != 2):
                continue
            real_raws, dtbl = [], []
            for p in pages:
                pl = p["payload"]
                if p["type"] == 3:
                    dl = p["def_len"]
                    body = pl[dl:]
                    if codec and p["is_compressed"] is not False:
                        raw = fmtlib.CODECS[codec][1](body, p["uncompressed_page_size"] - dl)
                        dtbl.append([bytes([codec]) + body, raw])
                        body = raw
                    real_raws.append(body)
                else:
                    raw = pl
                    if codec:
                        raw = fmtlib.CODECS[codec][1](pl, p["uncompressed_page_size"])
                        dtbl.append([bytes([codec]) + pl, raw])
                    real_raws.append(raw)
            # (a0) file level (Impl/WFile.w_cmd, C02_fp_write_file_valid_partial): the ColumnMetaData write_column recorded are those of
            #      the pos/diff bookkeeping model over the pages really written, from the real chunk start
            try:
                kinds = {2: 0, 0: 1, 3: 2}
                psx = [[kinds[p["type"]], p["header_len"], p["compressed_page_size"], p["uncompressed_page_size"],
                        p.get("num_values", 0) or 0, p.get("encoding", 0) or 0] for p in pages]
                bk = fm.pq.call("wr_bookkeeping", start, sum(p.get("num_values", 0) or 0 for p in pages if p["type"] in (0, 3)),
                                [int(e) for e in (m.encodings or [])], psx)
                real = [m.num_values, m.data_page_offset, ([] if m.dictionary_page_offset is None else [m.dictionary_page_offset]),
                        m.total_compressed_size, m.total_uncompressed_size]
                out["bk"] = out.get("bk", 0) + 1
                if [bk[0], bk[1], list(bk[2]), bk[3], bk[4]] != real:
                    out.setdefault("bk_bad", []).append("column %s chunk at %d: bookkeeping model %r, ColumnMetaData %r" % (l["name"], start, bk[:5], real))
            except Exception as e:      # noqa
                out.setdefault("bk_bad", []).append("harness: %s: %s" % (type(e).__name__, e))
            # (b) the reader model with the shortcuts on the real bytes
            st = m.statistics
            skip = 1 if (st is not None and getattr(st, "null_count", 1) == 0) else 0
            inplace = 1 if l["type"] in (1, 2, 3, 4, 5) else 0
            r = fm.pq.call("fmt_rd_chunk_sm", 1, skip, inplace, l["type"], l["tlen"], 1 if l["maxdef"] else 0, codec, m.num_values,
                           data[start:end], dtbl)
            out["reader"] += 1
            got = [None if c == [] else (bytes(c) if isinstance(c, (bytes, bytearray)) else c) for c in r[1]] if r[0] == b"ok" else None
            if got != list(cells):
                out["reader_bad"].append("column %s chunk at %d (skip_nulls=%d): reader model %s, specification %s" % (
                    l["name"], start, skip, (str(got)[:80] if got is not None else r), str(list(cells))[:80]))
            # (a) the writer model for the same column
            labels = None
            if dicts:
                labels = _plain_labels(l["type"], l["tlen"], real_raws[0], dicts[0]["num_values"])
                if labels is None or len(set(labels)) != len(labels):
                    continue
                idx = {v: i for i, v in enumerate(labels)}
                if any(p["encoding"] not in (2, 8) for p in dps):
                    continue
            elif any(p["encoding"] != 0 for p in dps):
                continue
            at, mp = 0, []
            for p in dps:
                pc = cells[at:at + p["num_values"]]
                at += p["num_values"]
                mp.append([[] if c is None else (idx[c] if labels is not None else c) for c in pc])
            k = 0 if labels is None else (1 if len(labels) < 128 else 2 if len(labels) < 32768 else 4)
            if labels is not None:
                rc = fm.pq.call("fmt_rd_chunk_cat", 1, skip, k, l["type"], l["tlen"], 1 if l["maxdef"] else 0, codec, m.num_values,
                                data[start:end], dtbl)
                out["cat_read"] += 1
                want = [-1 if c is None else idx[c] for c in cells]
                if rc[0] != b"ok" or list(rc[2]) != want:
                    out["reader_bad"].append("column %s chunk at %d: categorical reader model %s, codes of the specification's cells %s" % (
                        l["name"], start, (str(list(rc[2]))[:80] if rc[0] == b"ok" else rc), str(want)[:80]))
                    model_codes[l["name"]] = None
                elif model_codes.get(l["name"], []) is not None:
                    model_codes.setdefault(l["name"], []).extend(rc[2])
            args = [1 if v2 else 0, 1 if l["maxdef"] else 0, l["type"], l["tlen"], codec, k, [labels] if labels is not None else [], mp]
            r1 = fm.pq.call("fmt_w_chunk", *(args + [[]]))
            if r1[0] != b"ok":
                out["differ"].append("column %s: writer model: %r" % (l["name"], r1))
                continue
            out["chunks"] += 1
            out["cat_chunks"] += 1 if labels is not None else 0
            raws = [bytes(x) for x in r1[2]]
            tbl = [[bytes([codec]) + x, fmtlib.CODECS[codec][0](x)] for x in set(raws)] if codec else []
            r2 = fm.pq.call("fmt_w_chunk", *(args + [tbl])) if codec else r1
            if bytes(r2[1]) == data[start:end]:
                out["bytes_equal"] += 1
            elif raws == real_raws:
                out["raw_equal"] += 1     # same uncompressed pages; the compressor was called with other settings
            else:
                first = next((i for i, (a, b) in enumerate(zip(raws, real_raws)) if a != b), None)
                out["differ"].append("column %s chunk at %d (%s): page %s: model %s..., writer %s..." % (
                    l["name"], start, "categorical" if labels is not None else "plain", first,
                    raws[first].hex()[:60] if first is not None else len(raws),
                    real_raws[first].hex()[:60] if first is not None else len(real_raws)))
    model_codes = {k: v for k, v in model_codes.items() if v is not None}
    if fn is not None and model_codes:
        import fastparquet
        import pandas as pd
        import numpy as np
        try:
            df = fastparquet.ParquetFile(fn).to_pandas(columns=sorted(model_codes), index=False)
        except Exception as e:     # noqa
            df = None
            out["reader_bad"].append("real categorical read failed: %s: %s" % (type(e).__name__, str(e)[:200]))
        for name, mc in (model_codes.items() if df is not None else []):
            if name in df.columns and isinstance(df[name].dtype, pd.CategoricalDtype):
                real = [int(x) for x in np.asarray(df[name].cat.codes)]
                out["cat_real"] = out.get("cat_real", 0) + 1
                if real != mc:
                    out["reader_bad"].append("column %s: codes array of the real reader %s, categorical reader model %s" % (
                        name, str(real)[:80], str(mc)[:80]))
    return out


def check_dataset(path, df, spec, o, fm, allow_orphans=False):
    """-> dict(problems=[(stage, text)], files, lenient, pages...) for a written dataset at `path`"""
    from harness import fmtlib, rt
    res = {"problems": [], "files": 0, "lenient": 0, "verdicts": {}}
    if os.path.isfile(path):
        parts, metas = [path], []
    else:
        allf = []
        for dp, _, fs in os.walk(path):
            allf += [os.path.join(dp, f) for f in fs]
        parts = sorted([f for f in allf if _part_no(f) >= 0], key=lambda f: (_part_no(f), os.path.relpath(f, path)))
        metas = sorted(f for f in allf if os.path.basename(f) in ("_metadata", "_common_metadata"))
        other = [f for f in allf if f not in parts and f not in metas]
        if other:
            res["problems"].append(("layout", "unexpected files in the dataset: %r" % [os.path.relpath(x, path) for x in other][:4]))
        if "_metadata" not in [os.path.basename(m) for m in metas]:
            res["problems"].append(("layout", "no _metadata file in a hive/drill dataset"))
        elif allow_orphans:
            # after an operation that FAILED part files it had already written may be left behind; the dataset is what _metadata names
            try:
                mdata = open([m for m in metas if os.path.basename(m) == "_metadata"][0], "rb").read()
                named = set()
                for rg in (_fld(_footer_tv(fm, mdata), 4) or [0, 0, []])[2]:
                    for c in _fld(rg, 1)[2]:
                        if _fld(c, 1):
                            named.add(bytes(_fld(c, 1)[1]).decode())
                res["orphans"] = len([f for f in parts if os.path.relpath(f, path) not in named])
                parts = [f for f in parts if os.path.relpath(f, path) in named]
            except Exception as e:     # noqa
                res["problems"].append(("metadata", "_metadata unreadable: %s" % e))
    leaves, cols = None, {}
    part_rgs = []
    part_rows = []
    for fn in parts:
        data = open(fn, "rb").read()
        res["files"] += 1
        r = fm.check(data)
        res["verdicts"][r["verdict"]] = res["verdicts"].get(r["verdict"], 0) + 1
        if r["verdict"] != "ok":
            res["problems"].append(("validate", "%s: %s: %s" % (os.path.basename(fn), r["verdict"], r["why"])))
            continue
        res["lenient"] += 1 if r["lenient"] else 0
        if leaves is None:
            leaves = r["leaves"]
            cols = {l["name"]: [] for l in leaves}
        elif [(l["name"], l["type"], l["maxdef"]) for l in leaves] != [(l["name"], l["type"], l["maxdef"]) for l in r["leaves"]]:
            res["problems"].append(("schema", "%s: schema differs from the first part" % os.path.basename(fn)))
            continue
        for rg in r["rgs"]:
            for l, cells in zip(leaves, rg):
                cols[l["name"]].extend(cells)
        part_rows.append((os.path.dirname(os.path.relpath(fn, path)) if os.path.isdir(path) else "",
                          sum(len(rg[0]) if rg else 0 for rg in r["rgs"])))
        try:
            k, bad = page_model_check(fm, data, r["leaves"], r["rgs"])
            res["model_pages"] = res.get("model_pages", 0) + k
            res.setdefault("model_bad", []).extend(bad[:2])
        except Exception as e:    # noqa
            res.setdefault("model_bad", []).append("harness: %s: %s" % (type(e).__name__, e))
        try:
            cm = chunk_model_check(fm, data, r["leaves"], r["rgs"], fn)
            acc = res.setdefault("chunk_model", {"chunks": 0, "bytes_equal": 0, "raw_equal": 0, "differ": [], "reader": 0,
                                                 "reader_bad": [], "cat_chunks": 0, "cat_read": 0, "cat_real": 0})
            for k in ("chunks", "bytes_equal", "raw_equal", "reader", "cat_chunks", "cat_read", "cat_real"):
                acc[k] += cm.get(k, 0)
            acc["bk"] = acc.get("bk", 0) + cm.get("bk", 0)
            acc.setdefault("bk_bad", []).extend(cm.get("bk_bad", [])[:2])
            acc["differ"].extend(cm["differ"][:2])
            acc["reader_bad"].extend(cm["reader_bad"][:2])
        except Exception as e:    # noqa
            import traceback
            res.setdefault("chunk_model", {"chunks": 0, "bytes_equal": 0, "raw_equal": 0, "differ": [], "reader": 0,
                                           "reader_bad": [], "cat_chunks": 0, "cat_read": 0, "cat_real": 0})["differ"].append(
                "harness: %s" % traceback.format_exc()[-400:])
        tv = _footer_tv(fm, data)
        pm = _pandas_meta(tv)
        if pm is None:
            res["problems"].append(("metadata", "%s: key_value_metadata['pandas'] missing or not JSON" % os.path.basename(fn)))
        else:
            named = [c.get("name") for c in pm.get("columns", []) if isinstance(c, dict)]
            pkn = (o.get("partition") or {}).get("name")
            miss = [str(c) for c in df.columns if str(c) not in [str(x) for x in named] and str(c) != pkn]
            if miss:
                res["problems"].append(("metadata", "%s: pandas metadata does not name columns %r" % (os.path.basename(fn), miss[:3])))
        if metas:
            part_rgs += [(os.path.relpath(fn, path), _strip_paths(rg)) for rg in (_fld(tv, 4) or [0, 0, []])[2]]
    for fn in metas:
        data = open(fn, "rb").read()
        res["files"] += 1
        v = fm.validate(data, True)
        if v[0] != "ok":
            res["problems"].append(("validate", "%s: %s" % (os.path.basename(fn), " ".join(map(str, v)))))
            continue
        tv = _footer_tv(fm, data)
        rgs = (_fld(tv, 4) or [0, 0, []])[2]
        if os.path.basename(fn) == "_common_metadata":
            if rgs:
                res["problems"].append(("metadata", "_common_metadata lists row groups"))
        else:
            got = []
            for ri, rg in enumerate(rgs):
                cc = _fld(rg, 1)[2]
                # EVERY chunk is resolved through its OWN file_path (a specification reader does; fastparquet itself looks at
                # columns[0] only): each must name an existing part file, and the chunks of one row group one and the same file
                names = [bytes(_fld(c, 1)[1]).decode() if _fld(c, 1) else None for c in cc]
                for ci, nm in enumerate(names):
                    if nm is None or not os.path.isfile(os.path.join(path, nm)):
                        res["problems"].append(("metadata", "_metadata row group %d column chunk %d names %r: no such file in the dataset" % (ri, ci, nm)))
                        break
                if len(set(names)) > 1:
                    res["problems"].append(("metadata", "_metadata row group %d: its column chunks name different files %r" % (ri, sorted(set(map(str, names)))[:3])))
                fps = set(names)
                got.append((fps.pop() if len(fps) == 1 else repr(sorted(map(str, fps))), _strip_paths(rg)))
            if got != part_rgs:
                res["problems"].append(("metadata", "_metadata row groups differ from the footers of the part files "
                                        "(%d vs %d row groups; first difference at %s)" % (
                                            len(got), len(part_rgs),
                                            next((i for i, (a, b) in enumerate(zip(got, part_rgs)) if a != b), min(len(got), len(part_rgs))))))
            nr = _fld(tv, 3)
            if nr and nr[1] != len(df):
                res["problems"].append(("metadata", "_metadata num_rows %r, frame has %d rows" % (nr[1], len(df))))
    if any(p[0] == "validate" for p in res["problems"]):
        return res
    if leaves is None:
        if len(df) and len(df.columns):
            res["problems"].append(("decode", "no data file although the frame has %d rows" % len(df)))
        return res
    # expected physical table
    import pandas as pd
    iw = rt.index_as_column(df, o)       # decided on the frame as written (before the rows are put into part order)
    if o.get("partition"):
        pk = o["partition"]["name"]
        by_key = {}
        for i, v in enumerate(df[pk].tolist()):
            by_key.setdefault(str(v), []).append(i)
        perm = []
        for d, n in part_rows:
            key = d.split("/")[-1]
            key = key.split("=", 1)[1] if "=" in key else key
            take, by_key[key] = by_key.get(key, [])[:n], by_key.get(key, [])[n:]
            if len(take) != n:
                res["problems"].append(("partition", "directory %r holds %d rows more than the frame has for that key" % (d, n - len(take))))
            perm += take
        left = sum(len(v) for v in by_key.values())
        if left:
            res["problems"].append(("partition", "%d rows of the frame are in no part file" % left))
        if any(p[0] == "partition" for p in res["problems"]):
            return res
        df = df.iloc[perm].drop(columns=[pk])
    want = {str(c): df[c] for c in df.columns}
    extra = [l["name"] for l in leaves if l["name"] not in want]
    if iw:
        iname = df.index.name if df.index.name is not None else "index"
        if extra == [iname]:
            want[iname] = pd.Series(df.index)
        else:
            res["problems"].append(("schema", "index %r expected as a column; columns beyond the frame's: %r" % (iname, extra)))
    elif extra:
        res["problems"].append(("schema", "columns not in the frame: %r" % extra))
    dfcols = [str(c) for c in df.columns]
    if [l["name"] for l in leaves if l["name"] in dfcols] != dfcols or set(l["name"] for l in leaves) != set(want):
        res["problems"].append(("schema", "column order/names: file %r, frame %r" % ([l["name"] for l in leaves], list(want))))
        return res
    hn = o["has_nulls"]
    for l in leaves:
        s = want[l["name"]]
        if hn is True or hn is False:
            exp_opt = hn
        elif isinstance(hn, list):
            exp_opt = l["name"] in hn
        else:
            exp_opt = None
        if exp_opt is not None and bool(l["maxdef"]) != exp_opt:
            res["problems"].append(("nullability", "column %s: has_nulls=%r but the schema says %s" % (
                l["name"], hn, "OPTIONAL" if l["maxdef"] else "REQUIRED")))
        res["problems"] += [("annotation", p) for p in fmtlib.annotation_problems(s, l, o["times"])]
        exp = fmtlib.expected_cells(s.reset_index(drop=True), l)
        res["problems"] += [("decode", p) for p in fmtlib.compare_column(exp, cols[l["name"]], l["type"], "column %s" % l["name"])]
        if len(res["problems"]) > 6:
            break
    return res


def write_partitioned(df, path, spec, o):
    """rt.write_frame with partition_on (hive / drill directory levels)"""
    import fastparquet
    from fastparquet import writer
    from harness import rt
    old = writer.MAX_PAGE_SIZE, writer.DATAPAGE_VERSION
    try:
        if o["page_size"]:
            writer.MAX_PAGE_SIZE = o["page_size"]
        writer.DATAPAGE_VERSION = o["dpv"]
        kw = dict(compression=o["compression"], row_group_offsets=o["row_group_offsets"], has_nulls=o["has_nulls"], stats=o["stats"],
                  times=o["times"], object_encoding=rt.object_encoding_for(spec, o), file_scheme=o["file_scheme"],
                  write_index=o["write_index"], partition_on=[o["partition"]["name"]])
        if kw["row_group_offsets"] is None:
            del kw["row_group_offsets"]
        fastparquet.write(path, df, **kw)
    finally:
        writer.MAX_PAGE_SIZE, writer.DATAPAGE_VERSION = old


def _job(job):
    from harness import rt
    spec, o = job
    tmp = tempfile.mkdtemp(prefix="verif-C02w-", dir=_SCRATCH)
    try:
        df = F.build(spec)
        path = os.path.join(tmp, "rt.parquet" if o["file_scheme"] == "simple" else "rt_ds")
        try:
            if o.get("partition"):
                pk = o["partition"]
                vals = ["a", "b", "c"] if pk["kind"] == "str" else [0, 1, 2]
                df[pk["name"]] = [vals[(i * 7 // 3) % pk["k"]] for i in range(len(df))]
                write_partitioned(df, path, spec, o)
            else:
                rt.write_frame(df, path, spec, o)
        except Exception as e:     # noqa: a write that raises is an allowed outcome (C18 owns "and leaves nothing behind")
            return {"outcome": "write-raised", "err": "%s: %s" % (type(e).__name__, str(e)[:200]), "problems": []}
        try:
            res = check_dataset(path, df, spec, o, _fmt())
        except Exception as e:     # noqa
            import traceback
            return {"outcome": "harness-error", "err": traceback.format_exc()[-1500:], "problems": []}
        res["outcome"] = "ok" if not res["problems"] else "fails"
        res["decomp"] = dict(_fmt().stats)
        return res
    finally:
        shutil.rmtree(tmp, ignore_errors=True)


# ---------------------------------------------------------------------------------------------------------------
# wave 3: HISTORIES on one handle.  A file is also "produced by a write" when it is the result of several operations
# through one ParquetFile object, some of which failed: after EVERY step the file must be valid and decode to the rows
# of the operations that succeeded so far (state kept on the handle by a failed operation must not leak into the next
# footer).  history = {"spec": frame spec of the initial write, "opts": write options (file_scheme simple),
#                      "steps": [{"via": "handle" | "fresh", "frames": [rows, ...], "seeds": [...], "offsets": None | int,
#                                 "fail": None | {"kind": "iter" | "cell", "at": index of the frame that fails}}]}

HIST_KINDS = ["int64", "float64", "str", "bool", "dt_ns", "Int32", "bytes", "dttz_ns", "int8", "td_us"]


class _PlannedFailure(Exception):
    pass


def _hist_frame(spec, n, seed):
    sp = {"n": n, "index": None, "cols": [dict(c, seed=(c["seed"] * 31 + seed) % (1 << 30)) for c in spec["cols"]]}
    return F.build(sp)


def _hist_job(h):
    """-> dict(outcome, problems=[(stage, text)], at_step, after_failure, steps_done, files)"""
    import fastparquet
    import pandas as pd
    from fastparquet import writer
    from harness import rt
    spec, o = h["spec"], h["opts"]
    tmp = tempfile.mkdtemp(prefix="verif-C02h-", dir=_SCRATCH)
    out = {"outcome": "ok", "problems": [], "at_step": None, "after_failure": False, "steps_done": 0, "files": 0, "lenient": 0,
           "failed_steps": 0}
    old = writer.MAX_PAGE_SIZE, writer.DATAPAGE_VERSION
    try:
        path = os.path.join(tmp, "h.parquet" if o["file_scheme"] == "simple" else "h_ds")
        df = F.build(spec)
        try:
            if o.get("partition"):
                pk = o["partition"]
                df[pk["name"]] = [["a", "b", "c"][(i // 2) % pk["k"]] for i in range(len(df))]
                write_partitioned(df, path, spec, o)
            else:
                rt.write_frame(df, path, spec, o)
        except Exception as e:     # noqa
            return dict(out, outcome="write-raised", err="%s: %s" % (type(e).__name__, str(e)[:200]))
        expected = df.reset_index(drop=True)
        pf = fastparquet.ParquetFile(path)
        if o["page_size"]:
            writer.MAX_PAGE_SIZE = o["page_size"]
        writer.DATAPAGE_VERSION = o["dpv"]
        any_failed = False
        for si, st in enumerate([None] + h["steps"]):
            if st is not None:
                frames = [_hist_frame(spec, n, sd) for n, sd in zip(st["frames"], st["seeds"])]
                if st.get("permute"):
                    # the same columns in another order: legal for an append (names are compared sorted); the new row groups must
                    # still list their chunks in the SCHEMA's order (parquet.thrift: "same order as the SchemaElement list")
                    frames = [f[[f.columns[i] for i in st["permute"] if i < len(f.columns)] +
                                [c for j, c in enumerate(f.columns) if j not in st["permute"]]] for f in frames]
                fail = st.get("fail")
                if fail and fail["kind"] == "cell":
                    col = fail["col"]
                    bad = frames[fail["at"]]
                    bad[col] = bad[col].astype(object)
                    bad.iloc[min(fail.get("row", 0), len(bad) - 1), list(bad.columns).index(col)] = b"\xff\xfe"

                def data_iter():
                    for i, f in enumerate(frames):
                        if fail and fail["kind"] == "iter" and i == fail["at"]:
                            raise _PlannedFailure("the producer of the frames failed")
                        yield f
                raised = None
                try:
                    if st["via"] == "remove":
                        # RENUMBERING edit: drop row groups, part files renamed to close the gaps (api._sort_part_names)
                        idx = [i for i in st["remove"] if i < len(pf.row_groups)]
                        if len(idx) >= len(pf.row_groups):
                            idx = idx[:-1]
                        rows_before = [rg.num_rows for rg in pf.row_groups]
                        pf.remove_row_groups([pf.row_groups[i] for i in idx], sort_pnames=st.get("sort_pnames", True))
                        keep, at = [], 0
                        for i, n in enumerate(rows_before):
                            if i not in idx:
                                keep += list(range(at, at + n))
                            at += n
                        expected = expected.iloc[keep].reset_index(drop=True)
                        frames = []
                    elif st["via"] == "derived":
                        # append through a handle DERIVED from the long-lived one: a slice (the dataset becomes the slice + the new rows; the
                        # part files of the dropped row groups stay behind, unnamed) or a copy
                        import copy as _copy
                        if st["how"] == "slice" and len(pf.row_groups) >= 2:
                            k = pf.row_groups[0].num_rows
                            sub = pf[1:]
                            expected = expected.iloc[k:].reset_index(drop=True)
                            any_failed = True          # (files not named by _metadata are expected from here on)
                        else:
                            sub = _copy.copy(pf)
                        sub.write_row_groups(frames[0], compression=o["compression"], stats=o["stats"])
                        pf = fastparquet.ParquetFile(path)
                    elif st["via"] == "overwrite":
                        # append='overwrite' on a partitioned dataset: the partitions the new frame has values for are replaced
                        pkn = o["partition"]["name"]
                        new = frames[0]
                        new[pkn] = [st["keys"][i % len(st["keys"])] for i in range(len(new))]
                        new = new.sort_values(pkn, kind="stable").reset_index(drop=True)
                        fastparquet.write(path, new, append="overwrite", partition_on=[pkn], file_scheme=o["file_scheme"],
                                          compression=o["compression"], stats=o["stats"])
                        pf = fastparquet.ParquetFile(path)
                        expected = pd.concat([expected[~expected[pkn].isin(st["keys"])], new], ignore_index=True)
                        frames = []
                    elif st["via"] == "handle_sorted":
                        pf.write_row_groups(frames[0], row_group_offsets=st.get("offsets"), compression=o["compression"], stats=o["stats"],
                                            sort_pnames=True)
                    elif st["via"] == "handle":
                        data = data_iter() if (len(frames) > 1 or fail) else frames[0]
                        pf.write_row_groups(data, row_group_offsets=st.get("offsets"), compression=o["compression"], stats=o["stats"])
                    else:
                        fastparquet.write(path, pd.concat(frames, ignore_index=True) if len(frames) > 1 else frames[0], append=True,
                                          compression=o["compression"], stats=o["stats"], file_scheme=o["file_scheme"],
                                          **({"row_group_offsets": st["offsets"]} if st.get("offsets") else {}))
                        pf = fastparquet.ParquetFile(path)
                except Exception as e:     # noqa: a step that raises must leave the file as it was
                    raised = e
                if raised is None:
                    expected = pd.concat([expected] + [f[list(expected.columns)] for f in frames], ignore_index=True)
                else:
                    any_failed = True
                    out["failed_steps"] += 1
                out["steps_done"] = si
            res = check_dataset(path, expected, spec, dict(o, write_index=False), _fmt(), allow_orphans=any_failed)
            out["files"] += res["files"]
            out["lenient"] += res["lenient"]
            if res["problems"]:
                out.update(outcome="fails", problems=res["problems"], at_step=si, after_failure=any_failed)
                return out
        return out
    except Exception:     # noqa
        import traceback
        return dict(out, outcome="harness-error", err=traceback.format_exc()[-1500:])
    finally:
        writer.MAX_PAGE_SIZE, writer.DATAPAGE_VERSION = old
        shutil.rmtree(tmp, ignore_errors=True)


def gen_histories(ctx):
    from harness import rt
    rng = ctx.rng
    hs = []
    for i in range(40 if ctx.quick() else 400):
        ncols = rng.choice([1, 2, 3])
        kinds = [rng.choice(HIST_KINDS) for _ in range(ncols)]
        if i % 2 == 0 and "str" not in kinds:
            kinds[0] = "str"
        spec = F.gen_spec(rng, n=rng.choice([1, 2, 5, 9, 64, 65]), ncols=0, index=False)
        spec["cols"] = [{"name": "c%d_%s" % (j, k), "kind": k, "nulls": rng.choice(["none", "some", "some", "last"]),
                         "seed": rng.randrange(1 << 30), **({"tz": rng.choice(ZONES)} if k.startswith("dttz") else {})}
                        for j, k in enumerate(kinds)]
        o = rt.gen_opts(rng, spec)
        o.update(file_scheme="simple", write_index=False, has_nulls=rng.choice([True, True, [c["name"] for c in spec["cols"]]]),
                 object_encoding="infer")
        if isinstance(o["row_group_offsets"], list):
            o["row_group_offsets"] = None
        steps = []
        nsteps = rng.choice([2, 3, 4])
        fail_step = rng.randrange(nsteps - 1) if i % 4 != 3 else None         # three of four histories contain a failing step
        for k in range(nsteps):
            nfr = rng.choice([1, 2, 3])
            st = {"via": "handle", "frames": [rng.choice([1, 3, 8, 9, 17]) for _ in range(nfr)],
                  "seeds": [rng.randrange(1 << 30) for _ in range(nfr)], "offsets": None, "fail": None}
            if k == fail_step:
                nfr = rng.choice([2, 3])
                st["frames"] = [rng.choice([1, 3, 8, 9]) for _ in range(nfr)]
                st["seeds"] = [rng.randrange(1 << 30) for _ in range(nfr)]
                at = rng.randrange(0, nfr)
                strs = [c["name"] for c in spec["cols"] if c["kind"] == "str"]
                if strs and rng.random() < 0.5:
                    st["fail"] = {"kind": "cell", "at": at, "col": rng.choice(strs), "row": rng.randrange(0, 9)}
                else:
                    st["fail"] = {"kind": "iter", "at": at}
            elif rng.random() < 0.2:
                st["via"] = "fresh"
                st["offsets"] = rng.choice([None, 2, 5])
            elif nfr == 1 and rng.random() < 0.4:
                st["offsets"] = rng.choice([2, 5])
            if ncols > 1 and rng.random() < 0.5:
                perm = list(range(ncols))
                while perm == list(range(ncols)):
                    rng.shuffle(perm)
                st["permute"] = perm
            steps.append(st)
        hs.append({"spec": spec, "opts": o, "steps": steps})
    return hs


def gen_multi_histories(ctx):
    """MULTI-FILE datasets (hive / drill) grown by appends past the places where the part numbering changes shape: 9 -> 10 -> 11 -> 12
    part files (part.9 / part.10 / part.11: one more digit; ids compared as numbers, not as text), also ~100 in the thorough tier.
    Every step succeeds; after every step every part file, _metadata and _common_metadata are validated, _metadata must describe
    exactly the footers of the part files on disk, and the decoded rows must be the rows written so far."""
    from harness import rt
    rng = ctx.rng
    hs = []
    targets = [8, 9, 10, 10, 11, 11, 12, 9, 10, 11] if ctx.quick() else [8, 9, 10, 11, 12, 9, 10, 11] * 4 + [98, 99, 100, 101]
    for i, p0 in enumerate(targets):
        kinds = [rng.choice(["int64", "float64", "str", "dt_ns", "Int32", "bool"]) for _ in range(rng.choice([1, 2]))]
        spec = F.gen_spec(rng, n=p0 * 2, ncols=0, index=False)
        spec["cols"] = [{"name": "c%d_%s" % (j, k), "kind": k, "nulls": rng.choice(["none", "some"]), "seed": rng.randrange(1 << 30)}
                        for j, k in enumerate(kinds)]
        o = rt.gen_opts(rng, spec)
        o.update(file_scheme=rng.choice(["hive", "drill"]), write_index=False, has_nulls=True, object_encoding="infer",
                 row_group_offsets=2, page_size=None, compression=rng.choice([None, "SNAPPY", "ZSTD"]))      # p0 part files of 2 rows
        steps = []
        for k in range(rng.choice([2, 3]) if p0 < 50 else 2):
            via = rng.choice(["handle", "fresh", "fresh"])
            nparts = rng.choice([1, 1, 2])
            steps.append({"via": via, "frames": [2 * nparts], "seeds": [rng.randrange(1 << 30)], "offsets": 2 if nparts > 1 else None,
                          "fail": None, **({"permute": [1, 0]} if len(kinds) > 1 and rng.random() < 0.6 else {})})
        if i % 2 == 1:
            # class "failed operation, then continued use of the same handle": the producer of the frames raises after k part files of this
            # append were written; the step must leave the dataset as it was (part files left behind are not part of it), and the NEXT
            # append through the same handle must not publish anything of the failed one
            steps.insert(len(steps) - 1, {"via": "handle", "frames": [2, 2, 2], "seeds": [rng.randrange(1 << 30) for _ in range(3)],
                                          "offsets": None, "fail": {"kind": "iter", "at": rng.randrange(3)}})
            steps[-1]["via"] = "handle"
        hs.append({"spec": spec, "opts": o, "steps": steps, "multi": True})
    return hs


def gen_renumber_histories(ctx):
    """multi-file datasets with RENUMBERING edits through one handle: remove_row_groups(..., sort_pnames=True) (the part files behind the
    gap are renamed), write_row_groups(..., sort_pnames=True), further appends - 2 or 3 columns, so that a row group has chunks beyond the
    first; after every step every chunk of every row group of _metadata is resolved through its own file_path"""
    from harness import rt
    rng = ctx.rng
    hs = []
    for i in range(12 if ctx.quick() else 100):
        kinds = [rng.choice(["int64", "float64", "str", "dt_ns", "Int32", "bool"]) for _ in range(rng.choice([2, 3]))]
        p0 = rng.choice([3, 5, 9, 11, 12])
        spec = F.gen_spec(rng, n=p0 * 2, ncols=0, index=False)
        spec["cols"] = [{"name": "c%d_%s" % (j, k), "kind": k, "nulls": rng.choice(["none", "some"]), "seed": rng.randrange(1 << 30)}
                        for j, k in enumerate(kinds)]
        o = rt.gen_opts(rng, spec)
        o.update(file_scheme=rng.choice(["hive", "drill"]), write_index=False, has_nulls=True, object_encoding="infer",
                 row_group_offsets=2, page_size=None, compression=rng.choice([None, "SNAPPY"]))
        steps = []
        for k in range(rng.choice([2, 3])):
            r = rng.random()
            if r < 0.5:
                steps.append({"via": "remove", "remove": sorted(rng.sample(range(p0), rng.choice([1, 2]))) if k else [rng.randrange(0, p0 - 1)],
                              "sort_pnames": True, "frames": [], "seeds": [], "offsets": None, "fail": None})
            elif r < 0.75:
                steps.append({"via": "handle_sorted", "frames": [4], "seeds": [rng.randrange(1 << 30)], "offsets": 2, "fail": None})
            else:
                steps.append({"via": rng.choice(["handle", "fresh"]), "frames": [2], "seeds": [rng.randrange(1 << 30)], "offsets": None, "fail": None})
        if not any(st["via"] == "remove" for st in steps):
            steps.insert(0, {"via": "remove", "remove": [rng.randrange(0, p0 - 1)], "sort_pnames": True, "frames": [], "seeds": [], "offsets": None, "fail": None})
        if i % 2 == 0:
            steps.insert(rng.randrange(len(steps) + 1), {"via": "derived", "how": rng.choice(["slice", "slice", "copy"]), "frames": [2],
                                                         "seeds": [rng.randrange(1 << 30)], "offsets": None, "fail": None})
        hs.append({"spec": spec, "opts": o, "steps": steps, "multi": True, "renumber": True})
    for i in range(4 if ctx.quick() else 40):
        # partitioned dataset, append='overwrite' (part files of the replaced partitions go, the rest is renumbered)
        kinds = [rng.choice(["int64", "float64", "str", "Int32"]) for _ in range(2)]
        spec = F.gen_spec(rng, n=rng.choice([8, 12]), ncols=0, index=False)
        spec["cols"] = [{"name": "c%d_%s" % (j, k), "kind": k, "nulls": "none", "seed": rng.randrange(1 << 30)} for j, k in enumerate(kinds)]
        o = rt.gen_opts(rng, spec)
        o.update(file_scheme="hive", write_index=False, has_nulls=True, object_encoding="infer", row_group_offsets=4, page_size=None,
                 compression=None, partition={"name": "pkey", "kind": "str", "k": 3})
        steps = [{"via": "overwrite", "keys": rng.choice([["a"], ["b"], ["a", "c"], ["c"]]), "frames": [4], "seeds": [rng.randrange(1 << 30)],
                  "offsets": None, "fail": None}]
        if rng.random() < 0.5:
            steps.append({"via": "overwrite", "keys": rng.choice([["b"], ["a", "b"]]), "frames": [2], "seeds": [rng.randrange(1 << 30)],
                          "offsets": None, "fail": None})
        hs.append({"spec": spec, "opts": o, "steps": steps, "multi": True, "renumber": True})
    return hs


def _any_job(job):
    if isinstance(job, dict) and "steps" in job:
        return _hist_job(job)
    return _job(job)


ZONES = ["UTC", "Europe/Berlin", "Asia/Kolkata", "America/New_York"]


def _zones(rng, spec):
    for c in spec["cols"]:
        if c["kind"].startswith("dttz"):
            c["tz"] = rng.choice(ZONES)
    return spec


def _one(rng, kind, n):
    from harness import rt
    spec = _zones(rng, F.gen_spec(rng, n=n, ncols=1, kinds=[kind], index=(rng.random() < 0.15)))
    o = rt.gen_opts(rng, spec)
    o["file_scheme"] = rng.choice(["simple", "simple", "hive", "drill"])
    if n > 300:
        o["page_size"] = rng.choice([None, 1000, 4096])
    return spec, _cap_row_groups(spec, o)


def _maybe_partition(rng, spec, o):
    if o["file_scheme"] != "simple" and spec["n"] > 0 and spec["cols"] and rng.random() < 0.35:
        o["partition"] = {"name": "pkey", "kind": rng.choice(["str", "int"]), "k": rng.choice([1, 2, 3])}
        if isinstance(o["has_nulls"], list) and rng.random() < 0.5:
            o["has_nulls"] = o["has_nulls"] + ["pkey"]
    return o


def _cap_row_groups(spec, o):
    """at most ~64 row groups per dataset (a row group per row of an 8193-row frame costs minutes and adds nothing)"""
    rgo, n = o["row_group_offsets"], spec["n"]
    if isinstance(rgo, int) and rgo > 0 and n // rgo > 64:
        o["row_group_offsets"] = n // 64 + 1
    return o


def gen_jobs(ctx):
    from harness import rt
    rng = ctx.rng
    jobs = []
    import glob
    for fn in sorted(glob.glob(os.path.join(C.VERIF, "corpus", "C02", "*.json"))):      # minimised past failures first
        c = json.load(open(fn))
        jobs.append((c["spec"], c["opts"]))
    # deterministic block (identical on every run): every dtype kind with default options, and every timezone-aware /
    # naive datetime unit in several zones and both `times` modes - the annotations of the schema are compared for each
    base = {"compression": None, "row_group_offsets": None, "has_nulls": True, "page_size": None, "dpv": 1, "stats": True,
            "times": "int64", "object_encoding": "infer", "file_scheme": "simple", "write_index": None}
    for k in F.KINDS:
        tzs = ZONES if k.startswith("dttz") else [None]
        for tz in tzs:
            for times in (["int64", "int96"] if k.startswith("dt") else ["int64"]):
                cs = {"name": "c0_%s" % k, "kind": k, "nulls": "some", "seed": 12345}
                if tz:
                    cs["tz"] = tz
                if k.startswith("cat_"):
                    cs["ncat"] = 5
                jobs.append(({"n": 9, "cols": [cs], "index": None}, dict(base, times=times, dpv=1 if tz != "UTC" else 2)))
    sizes_small = [0, 1, 2, 7, 8, 9, 63, 64, 65, 127, 128, 129]
    sizes_big = [255, 256, 257, 8191, 8192, 8193]
    if ctx.quick():
        for k in F.KINDS:
            for n in rng.sample(sizes_small, 4) + rng.sample(sizes_big, 2):
                jobs.append(_one(rng, k, n))
    else:
        for k in F.KINDS:
            for n in sizes_small + sizes_big:
                for _ in range(3):
                    jobs.append(_one(rng, k, n))
    for _ in range(440 if ctx.quick() else 6000):
        spec = _zones(rng, F.gen_spec(rng, n=rng.choice(sizes_small + ([257, 8193] if rng.random() < 0.1 else []))))
        o = rt.gen_opts(rng, spec)
        o["file_scheme"] = rng.choice(["simple", "simple", "hive", "drill"])
        jobs.append((spec, _maybe_partition(rng, spec, _cap_row_groups(spec, o))))
    return jobs


def classify(spec, o, res):
    stage, text = res["problems"][0]
    cls = {"stage": stage, "dpv": o["dpv"], "file_scheme": o["file_scheme"],
           "compression": "percol" if isinstance(o["compression"], dict) else o["compression"],
           "has_nulls": "list" if isinstance(o["has_nulls"], list) else o["has_nulls"], "times": o["times"],
           "multi_page": bool(o["page_size"]), "kind": None, "nulls": None, "n": spec["n"],
           "why": re.sub(r"\d+", "#", text)[:160]}
    for c in spec["cols"]:
        if ("column %s" % c["name"]) in text:
            cls["kind"], cls["nulls"] = c["kind"], c["nulls"]
            break
    else:
        if len(spec["cols"]) == 1:
            cls["kind"], cls["nulls"] = spec["cols"][0]["kind"], spec["cols"][0]["nulls"]
    # a categorical column with missing cells that the options make REQUIRED (has_nulls False / 'infer' /
    # a list without it): there is no dictionary index for "missing"
    hn = o["has_nulls"]
    cls["required_categorical_with_missing"] = any(
        c["kind"].startswith("cat_") and c["nulls"] != "none" and spec["n"] > 0 and
        (hn is False or hn == "infer" or (isinstance(hn, list) and c["name"] not in hn))
        for c in spec["cols"])
    return cls


def run(ctx):
    global _SCRATCH
    _SCRATCH = ctx.scratch
    C.coq_lib()
    ctx.trusted = TRUSTED
    ctx.coq_file(os.path.join(C.COQ, "props", "C02.v"))
    ctx.coq_file(os.path.join(C.COQ, "props", "C02_pages.v"))      # every page kind of the writer through the specification decoder
    ctx.coq_file(os.path.join(C.COQ, "props", "C02_file.v"))       # the whole file of the writer model: dec_file / valid_file
    bad = C.hygiene()
    ctx.obligation("hygiene: no Admitted/Axiom/Parameter/... in coq/", not bad, "; ".join(bad))
    C.shadow()
    C.pqref()
    ctx.rule = ("(frame spec, option tuple) pairs: every dtype kind x framing sizes {0,1,2,7,8,9,63,64,65,127,128,129,255,256,257,"
                "8191,8192,8193} x null patterns x options from one PRNG (compression incl. per-column, row_group_offsets None/int/list, "
                "has_nulls True/False/'infer'/list, MAX_PAGE_SIZE, DATAPAGE_VERSION 1/2, stats, times int64/int96, object_encoding, "
                "file_scheme simple/hive/drill incl. _metadata/_common_metadata, partition_on a key column with 1..3 values, write_index); every written file -> pqref fmt_validate "
                "+ fmt_decode; trivial = the write raised (allowed outcome); distinct = distinct (spec, options)")
    jobs = gen_jobs(ctx)
    hists = gen_histories(ctx) + gen_multi_histories(ctx) + gen_renumber_histories(ctx)
    allres = C.pmap(_any_job, jobs + hists, init=_init, nproc=min(8, os.cpu_count() or 4), job_timeout=300)
    results, hres = allres[:len(jobs)], allres[len(jobs):]
    run_histories(ctx, hists, hres)
    files = lenient = 0
    decomp = {}
    wm = {"compared": 0, "differ": 0, "first": None}
    cmw = {"chunks": 0, "bytes_equal": 0, "raw_equal": 0, "cat_chunks": 0, "reader": 0, "differ": 0, "first": None, "cat_read": 0, "cat_real": 0}
    for (spec, o), res in zip(jobs, results):
        case = {"spec": spec, "opts": o}
        if "__crashed__" in res:
            res = {"outcome": "fails", "problems": [("crash", "the writing/validating process died or hung: %s" % res["__crashed__"])],
                   "files": 0, "lenient": 0}
        ctx.case(case, trivial=(res["outcome"] == "write-raised"))
        ctx.count("outcome", res["outcome"])
        ctx.count("rows", spec["n"])
        ctx.count("dpv", o["dpv"])
        ctx.count("file_scheme", o["file_scheme"])
        ctx.count("partition_on", (o.get("partition") or {}).get("kind"))
        ctx.count("compression", "percol" if isinstance(o["compression"], dict) else o["compression"])
        ctx.count("has_nulls", "list" if isinstance(o["has_nulls"], list) else o["has_nulls"])
        for k in sorted(set(c["kind"] for c in spec["cols"])):
            ctx.count("kind", k)
        if res["outcome"] == "harness-error":
            ctx.broken.append({"kind": "harness-error", "name": "check_dataset", "detail": res["err"]})
            continue
        if res["outcome"] == "write-raised":
            continue
        files += res["files"]
        lenient += res["lenient"]
        for k, v in (res.get("decomp") or {}).items():
            decomp[k] = max(decomp.get(k, 0), v)
        invalid = [p for p in res["problems"] if p[0] == "validate"]
        known = False
        if res["problems"]:
            known = not ctx.fail(classify(spec, o, res), case, "; ".join("%s: %s" % p for p in res["problems"])[:1500])
        # byte equality of the deterministic writer model with the code is INFORMATION (DESIGN 4.2): a harmless rewrite of
        # the writer (other padding, other run choice) must not alarm; the obligation is valid_file/dec_file on the real bytes
        wm["compared"] += res.get("model_pages", 0)
        wm["differ"] += len(res.get("model_bad", []))
        if res.get("model_bad") and not wm["first"]:
            wm["first"] = res["model_bad"][0]
        cm = res.get("chunk_model")
        if cm:
            for k in ("chunks", "bytes_equal", "raw_equal", "cat_chunks", "reader", "cat_read", "cat_real"):
                cmw[k] += cm.get(k, 0)
            cmw["differ"] += len(cm["differ"])
            if cm["differ"] and not cmw["first"]:
                cmw["first"] = cm["differ"][0]
            if not known and cm.get("bk"):
                ctx.correspondence("ColumnMetaData of every real chunk = Format/ChunkLayout.wr_bookkeeping over the pages written (Impl/WFile.w_cmd)",
                                   case, "equal", "equal" if not cm.get("bk_bad") else cm["bk_bad"][0])
            if not known and cm["reader"]:
                ctx.correspondence("reader model with the selfmade shortcuts (Impl/RSelf.rd_chunk_sm, C01_chunk_roundtrip_partial) on "
                                   "the chunks write_column wrote = specification decoder", case,
                                   "equal", "equal" if not cm["reader_bad"] else cm["reader_bad"][0])
        if not known:      # a known finding is accounted for by its own entry, not by the correspondence
            ctx.correspondence("valid_file (spec validator) accepts every file the writer produced", case,
                               "Valid", "Valid" if not invalid else invalid[0][1])
    ctx.extra["files_validated"] = files
    ctx.extra["files_needing_leniency_short_final_bitpacked_group"] = lenient
    ctx.extra["decompression"] = decomp
    ctx.extra["writer_model_Impl_WPagesFmt_pages_compared"] = wm["compared"]
    ctx.extra["writer_model_pages_not_byte_equal"] = wm["differ"]
    if wm["first"]:
        ctx.notes.append("writer model (information only): first page whose bytes differ from Impl/WPagesFmt: %s" % wm["first"])
    ctx.extra["writer_model_Impl_WChunk_chunks_compared"] = cmw["chunks"]
    ctx.extra["writer_model_chunks_categorical"] = cmw["cat_chunks"]
    ctx.extra["writer_model_chunks_byte_equal_incl_page_headers"] = cmw["bytes_equal"]
    ctx.extra["writer_model_chunks_equal_before_compression_only"] = cmw["raw_equal"]
    ctx.extra["writer_model_chunks_not_equal"] = cmw["differ"]
    ctx.extra["reader_model_selfmade_chunks_read"] = cmw["reader"]
    ctx.extra["reader_model_categorical_chunks_read_as_codes"] = cmw["cat_read"]
    ctx.extra["reader_model_categorical_columns_compared_with_real_codes"] = cmw["cat_real"]
    if cmw["first"]:
        ctx.notes.append("writer chunk model (information only): first chunk whose bytes differ from Impl/WChunk: %s" % cmw["first"])


def classify_history(h, res):
    stage, text = res["problems"][0] if res["problems"] else ("crash", "")
    st = h["steps"][res["at_step"] - 1] if res.get("at_step") else None
    return {"stage": stage, "history": True, "after_failed_step": bool(res.get("after_failure")),
            "step_failed_itself": bool(st and st.get("fail")), "via": st["via"] if st else "write",
            "dpv": h["opts"]["dpv"], "file_scheme": h["opts"]["file_scheme"], "kinds": sorted(set(c["kind"] for c in h["spec"]["cols"])),
            "why": re.sub(r"\d+", "#", text)[:160]}


def run_histories(ctx, hists, hres):
    nfiles = nfailed = 0
    for h, res in zip(hists, hres):
        case = {"history": h}
        if "__crashed__" in res:
            res = {"outcome": "fails", "problems": [("crash", "the process running the history died or hung: %s" % res["__crashed__"])],
                   "at_step": None, "after_failure": False, "files": 0, "failed_steps": 0}
        ctx.case(case, trivial=(res["outcome"] == "write-raised"))
        ctx.count("history_outcome", res["outcome"])
        ctx.count("history_steps", len(h["steps"]))
        ctx.count("history_scheme", h["opts"]["file_scheme"])
        for st in h["steps"]:
            ctx.count("history_step", "%s/%s" % (st["via"], (st.get("fail") or {}).get("kind", "succeeds")))
        if res["outcome"] == "harness-error":
            ctx.broken.append({"kind": "harness-error", "name": "history", "detail": res["err"]})
            continue
        nfiles += res.get("files", 0)
        nfailed += res.get("failed_steps", 0)
        if res["outcome"] == "fails":
            invalid = [p for p in res["problems"] if p[0] == "validate"]
            known = not ctx.fail(classify_history(h, res), case, "after step %s of the history: %s" % (
                res["at_step"], "; ".join("%s: %s" % tuple(p) for p in res["problems"])[:1400]))
            if not known:
                ctx.correspondence("valid_file (spec validator) accepts the file after every step of a history on one handle", case,
                                   "Valid", "Valid" if not invalid else invalid[0][1])
        elif res["outcome"] == "ok":
            ctx.correspondence("valid_file (spec validator) accepts the file after every step of a history on one handle", case, "Valid", "Valid")
    ctx.extra["history_file_states_validated"] = nfiles
    ctx.extra["history_steps_that_raised"] = nfailed


def replay(rep):
    warnings.filterwarnings("ignore")
    if rep.get("kind") == "no-failing-input-found" or ("spec" not in rep.get("case", {}) and "history" not in rep.get("case", {})):
        print(json.dumps(rep, indent=1)[:6000])
        return 1
    _init()
    if "history" in rep.get("case", {}):
        res = _hist_job(rep["case"]["history"])
        print("outcome:", res["outcome"], res.get("err") or "", "at step", res.get("at_step"))
        for p in res["problems"]:
            print("  %s: %s" % tuple(p))
        return 1 if res["outcome"] in ("fails", "harness-error") else 0
    res = _job((rep["case"]["spec"], rep["case"]["opts"]))
    print("outcome:", res["outcome"], res.get("err") or "")
    for p in res["problems"]:
        print("  %s: %s" % p)
    return 1 if res["outcome"] in ("fails", "harness-error") else 0
