"""C13 — row-level filtering returns exactly the rows that satisfy the predicate. DESIGN.md section 6, C13."""
import json
import os
import shutil
import sys
import tempfile
import warnings

from harness import common as C
from harness import filt as FL

TRUSTED = [
    "Coq 8.16.1 kernel + coqc; vm_compute for the closed Example/witnesses and for running the models in the correspondences; no native_compute",
    "translators/py2coq.py + Base/PyVal.v prelude for the leaf decision used by the first pass (C05's tie re-proves it on the regenerated text)",
    "hand-written impl models Impl/RowFilter.v (page loop of core.read_col with a mask; _column_filter; two-pass read) tied by the two "
    "correspondences of this check; the decoding of a page into (definition levels, values) is C03/C11's subject and enters as the page's cells",
    "pandas/numpy: Series.isin, ==, <, ... on the cells that hold a value, boolean indexing a[m], slice assignment - modelled by select/scatter/filter on lists",
    "hypotheses of C13_complete: C05's (statistics are valid bounds, partition values parse back) and num_rows = number of rows of a row group",
    "numbers enter the model as integers (x4 scaling of quarter-step floats, timestamps as integer ns, bool as 0/1)",
    "Python glue: dataset/program/mask generators, three-valued brute-force oracle (rows whose deciding cell is NULL/NaN under != / not in are free)",
]


def _init():
    warnings.filterwarnings("ignore")
    C.use_shadow()


def cells_equal(a, b):
    if FL.is_null(a) or FL.is_null(b):
        return FL.is_null(a) and FL.is_null(b)
    try:
        return bool(a == b)
    except Exception:     # noqa
        return False


# three-valued meaning of a program on a row: True / False / None (free)
RANKS = {}      # per dataset: ordered categorical column -> {label: position in the category order}


def cond3(cell, op, const, rank=None):
    if cell is None:
        return None if op in ("!=", "not in", "~") else False
    if rank is not None and op in ("<", "<=", ">", ">="):
        # an ORDERED categorical compares category positions, not label text; a constant that is no category raises
        if const not in rank or cell not in rank:
            return None
        return FL.sat_cond(rank[cell], op, rank[const])
    return FL.sat_cond(cell, op, const)        # None when the comparison raises


def prog3(row, dnf):
    anyfree = False
    for grp in dnf:
        v = True
        for name, op, const in grp:
            c = cond3(row[name], op, const, RANKS.get(name))
            if c is False:
                v = False
                break
            if c is None:
                v = None
        if v is True:
            return True
        if v is None:
            anyfree = True
    return None if anyfree else False


def frame_to_rows(df):
    return FL.frame_rows(flat(df))


def flat(df):
    """a written index column comes back as the index: look at it as a column again"""
    if df.index.name is not None:
        return df.reset_index()
    return df


def check_rows(got_rows, full_rows, cols):
    """every returned row equals the row of the full read with the same rid, for the requested columns"""
    by = {r["rid"]: r for r in full_rows}
    for g in got_rows:
        f = by.get(g["rid"])
        if f is None:
            return "rid %r not in the dataset" % g["rid"]
        for c in cols:
            if not cells_equal(g[c], f[c]):
                return "row rid=%r column %s: %r, full read has %r" % (g["rid"], c, g[c], f[c])
    return None


def resolve_mask(m, sizes):
    """a mask given as data: an explicit list, or {"rg_only": k} / {"rg_off": k} = select / unselect the whole row groups
    with index % 2 == k (resolved against the row-group sizes of the written dataset)"""
    if isinstance(m, dict):
        out = []
        for i, s in enumerate(sizes):
            hit = (i % 2 == m.get("rg_only", m.get("rg_off")))
            out += [hit if "rg_only" in m else not hit] * s
        if m.get("hole") is not None and out:
            out[m["hole"] % len(out)] = not out[m["hole"] % len(out)]
        return out
    return list(m)


def judge_prog(got, rows, dnf, order):
    """row-filtered result (flattened frame or None = nothing yielded) against the three-valued meaning of the program"""
    want = [prog3(r, dnf) for r in rows]
    must = [r["rid"] for r, w in zip(rows, want) if w is True]
    free = set(r["rid"] for r, w in zip(rows, want) if w is None)
    if got is None:
        return "nothing was returned, rows %s satisfy the program" % must if must else None
    if "rid" not in got.columns:
        n = len(got)
        return None if len(must) <= n <= len(must) + len(free) else "%d rows returned, %d satisfy the program (%d free)" % (n, len(must), len(free))
    grow = frame_to_rows(got)
    ids = [int(r["rid"]) for r in grow]
    gs = set(ids)
    lost = [x for x in must if x not in gs]
    extra = [x for x in ids if x not in set(must) and x not in free]
    if lost:
        return "rows %s satisfy the program but are missing from %s" % (lost, ids)
    if extra:
        return "rows %s do not satisfy the program but were returned (%s)" % (extra, ids)
    if len(gs) != len(ids):
        return "rows returned twice: %s" % ids
    if [x for x in order if x in gs] != ids:
        return "rows come back in the order %s" % ids
    return check_rows(grow, rows, list(got.columns))


def describe_op(op):
    k = op[0]
    if k in ("mask", "mask+cols"):
        return "to_pandas(row_filter=mask %s, columns=%s)" % (op[1], op[2])
    if k == "prog":
        return "to_pandas(filters=%s, row_filter=True, columns=%s)" % (FL.prog_to_filters(op[1]), op[2])
    if k == "iter":
        return "iter_row_groups(filters=%s, row_filter=True, columns=%s)" % (FL.prog_to_filters(op[1]), op[2])
    if k == "count":
        return "count(filters=%s, row_filter=True)" % (FL.prog_to_filters(op[1]),)
    if k == "pruned":
        return "to_pandas(filters=%s)" % (FL.prog_to_filters(op[1]),)
    if k == "rgfile":
        return "read_row_group_file(row_groups[%d %% n], row_filter=%s)" % (op[2], FL.prog_to_filters(op[1]))
    return {"plain": "to_pandas()", "countplain": "count()", "len": "row_groups of the handle"}[k]


def run_seq(spec, path, seq, rows, sizes, order):
    """several masked / row-filtered reads and counts IN SEQUENCE ON ONE HANDLE, each compared with the specification
    computed from the full read; -> {"bad": None | text, "step": k}"""
    import numpy as np
    import pandas as pd
    from fastparquet import ParquetFile
    pf = ParquetFile(path)
    for k, op in enumerate(seq):
        kind = op[0]
        bad = None
        prog = op[1] if kind in ("prog", "iter", "count", "pruned", "rgfile") else None
        try:
            if prog is not None:
                filters = FL.prog_to_filters(prog)
                dnf = [filters] if prog["flat"] else filters
            if kind == "mask":
                m = resolve_mask(op[1], sizes)
                got = flat(pf.to_pandas(row_filter=np.array(m, dtype=bool), columns=None if op[2] is None else list(op[2])))
                want_rows = [r for r, b in zip(rows, m) if b]
                grow = frame_to_rows(got)
                if len(grow) != len(want_rows):
                    bad = "returned %d rows, the mask selects %d" % (len(grow), len(want_rows))
                else:
                    for g, w in zip(grow, want_rows):
                        for c in got.columns:
                            if not cells_equal(g[c], w[c]):
                                bad = "column %s: got %r where the masked full read has %r (rid %r)" % (c, g[c], w[c], w["rid"])
                                break
                        if bad:
                            break
            elif kind == "prog":
                got = flat(pf.to_pandas(filters=filters, row_filter=True, columns=None if op[2] is None else list(op[2])))
                bad = judge_prog(got, rows, dnf, order)
            elif kind == "iter":
                parts = [flat(d) for d in pf.iter_row_groups(filters=filters, row_filter=True, columns=None if op[2] is None else list(op[2]))]
                bad = judge_prog(pd.concat(parts, ignore_index=True) if parts else None, rows, dnf, order)
            elif kind == "rgfile":
                gi = op[2] % len(pf.row_groups)
                rg = pf.row_groups[gi]
                a = sum(sizes[:gi])
                got = flat(pf.read_row_group_file(rg, pf.columns + list(pf.cats), None, index=pf._get_index(None), row_filter=[list(c) for c in filters] if prog["flat"] else
                                                  [[list(c) for c in g] for g in filters], partition_meta=pf.partition_meta))
                bad = judge_prog(got, rows[a:a + sizes[gi]], dnf, order)
            elif kind == "count":
                want = [prog3(r, dnf) for r in rows]
                lo, hi = sum(1 for w in want if w is True), sum(1 for w in want if w is not False)
                c = int(pf.count(filters=filters, row_filter=True))
                if not lo <= c <= hi:
                    bad = "returned %d, %d rows satisfy the program%s" % (c, lo, "" if lo == hi else " (%d more are free)" % (hi - lo))
            elif kind == "pruned":
                got = flat(pf.to_pandas(filters=filters))
                ids = [int(x) for x in got["rid"].tolist()]
                must = [r["rid"] for r in rows if prog3(r, dnf) is True]
                if [x for x in must if x not in set(ids)]:
                    bad = "rows %s satisfy the program but are missing from %s" % ([x for x in must if x not in set(ids)], ids)
                elif [x for x in order if x in set(ids)] != ids:
                    bad = "rows come back as %s" % ids
            elif kind == "plain":
                ids = [int(x) for x in flat(pf.to_pandas())["rid"].tolist()]
                if ids != order:
                    bad = "returned rids %s, the dataset holds %s" % (ids, order)
            elif kind == "countplain":
                c = int(pf.count())
                if c != len(rows):
                    bad = "returned %d, the dataset holds %d rows" % (c, len(rows))
            elif kind == "len":
                now = [rg.num_rows for rg in pf.row_groups]
                if now != sizes:
                    bad = "the handle now lists row groups of sizes %s, the dataset has %s" % (now, sizes)
        except Exception as e:      # noqa
            if prog is not None and has_wrong_type(spec, prog):
                continue
            bad = "raised %s: %s" % (type(e).__name__, str(e)[:160])
        if bad:
            return {"step": k, "bad": "step %d of %d on one handle, %s: %s" % (k + 1, len(seq), describe_op(op), bad)}
    return {"bad": None, "step": None}


def run_dataset(job):
    spec, progs, masks, want_model = job[:4]
    seqs = job[4] if len(job) > 4 else []
    import numpy as np
    from fastparquet import ParquetFile
    from harness import pqfile
    tmp = tempfile.mkdtemp(prefix="verif-C13w-", dir="/tmp")
    out = {"error": None, "progs": [], "masks": []}
    try:
        try:
            if spec.get("prelude"):
                # a dataset of identical shape but other values is row-filtered FIRST in this process (state kept outside the handle)
                pre = os.path.join(tmp, "pre")
                os.mkdir(pre)
                ppf = ParquetFile(FL.write_dataset(spec["prelude"], pre))
                for prog, _ in progs:
                    try:
                        ppf.to_pandas(filters=FL.prog_to_filters(prog), row_filter=True)
                    except Exception:      # noqa
                        pass
            main = os.path.join(tmp, "main")
            os.mkdir(main)
            path = FL.write_dataset(spec, main)
            pf = ParquetFile(path)
            full = flat(pf.to_pandas())
        except Exception as e:    # noqa
            out["error"] = "%s: %s" % (type(e).__name__, e)
            return out
        rows = frame_to_rows(full)
        RANKS.clear()
        RANKS.update({n_: {lab: i for i, lab in enumerate(c_["categories"])} for n_, c_ in spec["cols"].items()
                      if c_["kind"] == "cat" and c_.get("ordered")})
        allcols = list(full.columns)
        out["sizes"] = [rg.num_rows for rg in pf.row_groups]
        out["nrows"] = len(rows)
        out["order"] = [int(r["rid"]) for r in rows]
        # page structure of every chunk (rows per data page), for the distribution and the page-loop model
        files = {}
        npages = []
        chunk_pages = {}
        for gi, rg in enumerate(pf.row_groups):
            for col in rg.columns:
                fp = col.file_path
                if isinstance(fp, bytes):
                    fp = fp.decode()
                fn = os.path.join(path, fp) if fp else path
                if fn not in files:
                    files[fn] = open(fn, "rb").read()
                pages, _, _ = pqfile.chunk_pages(files[fn], col.meta_data)
                dp = [p["num_values"] for p in pages if p["type"] in (0, 3)]
                npages.append(len(dp))
                chunk_pages[(gi, ".".join(col.meta_data.path_in_schema))] = dp
        out["max_pages"] = max(npages) if npages else 0
        # ---------------- programs with row_filter=True
        for prog, cols in progs:
            o = {}
            filters = FL.prog_to_filters(prog)
            dnf = [filters] if prog["flat"] else filters
            want = [prog3(r, dnf) for r in rows]
            o["must"] = [r["rid"] for r, w in zip(rows, want) if w is True]
            o["free"] = [r["rid"] for r, w in zip(rows, want) if w is None]
            try:
                pf2 = ParquetFile(path)
                got = flat(pf2.to_pandas(filters=filters, row_filter=True, columns=None if cols is None else list(cols)))
                grow = frame_to_rows(got)
                o["got"] = [int(r["rid"]) for r in grow] if "rid" in got.columns else None
                o["ncols"] = len(got.columns)
                o["len"] = len(got)
                o["count"] = int(pf2.count(filters=filters, row_filter=True))
                if "rid" in got.columns:
                    o["misaligned"] = check_rows(grow, rows, [c for c in got.columns])
            except Exception as e:      # noqa
                o["raised"] = type(e).__name__
                o["raised_msg"] = str(e)[:200]
            if want_model and "raised" not in o and cols is None:
                try:
                    pf3 = ParquetFile(path)
                    rg_txt, tbl = FL.model_rowgroups(pf3, dnf, rows=rows, with_cells=sorted({n for g in dnf for n, _, _ in g}))
                    known = "[%s]" % "; ".join(FL.coq_str(c) for c in pf3.columns + list(pf3.cats.keys()))
                    o["model"] = "two_pass_ids filter_val %s %s\n %s\n %s" % (tbl, known, rg_txt, FL.model_filters(prog))
                except FL.NotRepresentable as e:
                    o["model_skip"] = "not representable: %s" % str(e)[:40]
                except Exception as e:      # noqa
                    o["model_skip"] = "glue raised %s: %s" % (type(e).__name__, str(e)[:100])
            out["progs"].append(o)
        # ---------------- a caller mask together with filters: the mask runs over the rows of the kept row groups
        out["fm"] = []
        from fastparquet import api
        for (prog, cols), o in list(zip(progs, out["progs"]))[:4]:
            if "raised" in o:
                continue
            filters = FL.prog_to_filters(prog)
            try:
                pf2 = ParquetFile(path)
                kept = [int(i) for i in api.filter_row_groups(pf2, filters, as_idx=True)]
                starts = [sum(out["sizes"][:i]) for i in range(len(out["sizes"]))]
                krows = [r for i in kept for r in rows[starts[i]:starts[i] + out["sizes"][i]]]
                m = [(j * 7 + len(krows)) % 3 != 0 for j in range(len(krows))]
                fo = {"prog": prog, "kept": kept, "mask": m}
                if krows:
                    got = flat(pf2.to_pandas(filters=filters, row_filter=np.array(m, dtype=bool)))
                    want_rows = [r for r, b in zip(krows, m) if b]
                    grow = frame_to_rows(got)
                    bad = None
                    if [g["rid"] for g in grow] != [w["rid"] for w in want_rows]:
                        bad = "returned rids %s, the mask over the kept row groups selects %s" % ([g["rid"] for g in grow], [w["rid"] for w in want_rows])
                    else:
                        bad = check_rows(grow, rows, list(got.columns))
                    fo["bad"] = bad
                    out["fm"].append(fo)
            except Exception as e:     # noqa
                out["fm"].append({"prog": prog, "raised": type(e).__name__, "raised_msg": str(e)[:200]})
        # ---------------- caller-supplied masks
        for mask, cols in masks:
            o = {}
            mask = resolve_mask(mask, out["sizes"])
            m = np.array(mask, dtype=bool)
            try:
                pf2 = ParquetFile(path)
                got = flat(pf2.to_pandas(row_filter=m, columns=None if cols is None else list(cols)))
                grow = frame_to_rows(got)
                want_rows = [r for r, b in zip(rows, mask) if b]
                bad = None
                if len(grow) != len(want_rows):
                    bad = "returned %d rows, mask selects %d" % (len(grow), len(want_rows))
                else:
                    for g, w in zip(grow, want_rows):
                        for c in got.columns:
                            if not cells_equal(g[c], w[c]):
                                bad = "column %s: got %r where the masked full read has %r (rid %r)" % (c, g[c], w[c], w["rid"])
                                break
                        if bad:
                            break
                o["bad"] = bad
                o["ncols"] = len(got.columns)
            except Exception as e:      # noqa
                o["raised"] = type(e).__name__
                o["raised_msg"] = str(e)[:200]
            # page-loop model input for one column of one multi-page chunk
            if want_model and "raised" not in o:
                a = 0
                pm = []
                for gi, n in enumerate(out["sizes"]):
                    sl = mask[a:a + n]
                    if 0 < sum(sl) < n:
                        for (g2, cname), dp in chunk_pages.items():
                            if g2 == gi and len(dp) > 1 and cname in allcols and (cols is None or cname in cols) and sum(dp) == n:
                                cellsv = [rows[a + i][cname] for i in range(n)]
                                pm.append({"col": cname, "rg": gi, "pages": dp, "mask": [bool(x) for x in sl],
                                           "kind": "V2" if spec.get("v2") else ("V1nodefi" if spec["cols"].get(cname, {}).get("kind") in ("int", "bool", "uint") else "V1defi"),
                                           "nulls": [c is None for c in cellsv]})
                    a += n
                o["page_models"] = pm[:8]
                # what the real read produced for those chunks (as null flags + original row index)
                if pm and "raised" not in o:
                    a2 = 0
                    start_out = 0
                    outs = {}
                    for gi, n in enumerate(out["sizes"]):
                        sl = mask[a2:a2 + n]
                        k = sum(sl)
                        outs[gi] = (start_out, k, a2)
                        start_out += k
                        a2 += n
                    for p_ in o["page_models"]:
                        so, k, a3 = outs[p_["rg"]]
                        vals = [FL.pyval(x) for x in got[p_["col"]].tolist()[so:so + k]]
                        # encode each produced cell as the index (within the row group) of a row holding an equal
                        # cell at the position the mask selects, else as the raw repr
                        sel_idx = [i for i, b in enumerate(p_["mask"]) if b]
                        enc = []
                        for j, v in enumerate(vals):
                            src = rows[a3 + sel_idx[j]][p_["col"]] if j < len(sel_idx) else None
                            if v is None:
                                enc.append("N")
                            elif j < len(sel_idx) and cells_equal(v, src):
                                enc.append(sel_idx[j])
                            else:
                                enc.append("?%r" % (v,))
                        p_["impl"] = enc
            out["masks"].append(o)
        # ---------------- call sequences on one handle
        out["seqs"] = [run_seq(spec, path, seq, rows, out["sizes"], out["order"]) for seq in seqs]
        return out
    finally:
        shutil.rmtree(tmp, ignore_errors=True)


def classify(spec, prog, outcome, cols):
    d = {"component": "row-filter", "outcome": outcome, "pages": "v2" if spec.get("v2") else "v1",
         "multi_page": bool(spec.get("page_size")), "scheme": spec["scheme"],
         "columns": "all" if cols is None else "subset"}
    if prog is not None:
        d["ops"] = sorted({op for g in prog["groups"] for _, op, _ in g})
        d["coltypes"] = sorted({col_kind(spec, n) for g in prog["groups"] for n, _, _ in g})
        d["shape"] = "flat" if prog["flat"] else "dnf"
    else:
        d["mask"] = True
    return d


def col_kind(spec, n):
    if n in spec.get("partition_on", []):
        return "part-" + spec["cols"][n]["kind"]
    return spec["cols"][n]["kind"] if n in spec["cols"] else "?"


def has_wrong_type(spec, prog):
    for g in prog["groups"]:
        for n, op, c in g:
            k = spec["cols"][n]["kind"]
            cs = c if isinstance(c, list) else [c]
            for x in cs:
                if FL.text_kind(k) and not isinstance(x, (str, dict)):
                    return True
                if not FL.text_kind(k) and isinstance(x, str):
                    return True
            if k == "cat" and op in ("<", "<=", ">", ">="):
                if not spec["cols"][n].get("ordered") or c not in spec["cols"][n]["categories"]:
                    return True    # pandas refuses to order an unordered categorical / to compare with a label that is no category
    return False


def gen_job(rng, v2=False, want_model=True, nprog=20, nmask=6, nseq=3, flavour=None):
    spec = FL.gen_dataset(rng, sizes=[1, 2, 3, 5, 8, 12], cat=(rng.random() < 0.3)) if flavour is None else FL.gen_dataset_w3(rng, flavour)
    if "c" in spec["cols"]:
        # ORDERED categoricals whose category order is not the label sort order (generator shuffles the categories): ordering
        # operators then mean category positions
        spec["cols"]["c"]["ordered"] = rng.random() < 0.6
        # categorical statistics are C04's open defect: keep them out of the pruning
        spec["stats"] = [c for c in spec["cols"] if c != "c" and c not in spec["partition_on"]] if spec["stats"] is not False else False
    spec["page_size"] = rng.choice([None, 16, 24, 40, 64]) if flavour != "long" else None
    spec["compression"] = rng.choice([None, None, "SNAPPY", "GZIP", "ZSTD"])
    cand = [c for c in spec["cols"] if c != "rid" and c not in spec["partition_on"] and spec["cols"][c]["kind"] == "str"
            and all(v is not None for v in spec["cols"][c]["values"])]
    spec["index"] = rng.choice(cand) if (cand and rng.random() < 0.2) else None
    spec["v2"] = v2
    offs = spec["offsets"] + [spec["n"]]
    ch = {name: [c["values"][offs[i]:offs[i + 1]] for i in range(len(offs) - 1)] for name, c in spec["cols"].items()}
    names = [c for c in spec["cols"] if c != "rid"]
    progs = []
    for _ in range(nprog):
        prog = FL.gen_program(rng, spec, ch, wrong_type=0.02, tilde=0.25)
        r = rng.random()
        cols = None if r < 0.5 else (["rid"] if r < 0.7 else ["rid"] + rng.sample(names, rng.randrange(1, len(names) + 1)))
        progs.append((prog, cols))
    masks = []
    for _ in range(nmask):
        kind = rng.choice(["rand", "rand", "first-off", "last-off", "alt", "one", "all", "none", "block"])
        n = spec["n"]
        if rng.random() < 0.15:
            # whole row groups selected / unselected (resolved against the written row groups)
            r = rng.random()
            masks.append(({rng.choice(["rg_only", "rg_off"]): rng.randrange(2), "hole": rng.randrange(n) if rng.random() < 0.3 else None},
                          None if r < 0.6 else ["rid"] + rng.sample(names, rng.randrange(1, len(names) + 1))))
            continue
        if kind == "rand":
            p = rng.choice([0.2, 0.5, 0.8])
            m = [rng.random() < p for _ in range(n)]
        elif kind == "first-off":
            k = rng.randrange(0, n + 1)
            m = [i >= k for i in range(n)]
        elif kind == "last-off":
            k = rng.randrange(0, n + 1)
            m = [i < k for i in range(n)]
        elif kind == "alt":
            m = [i % 2 == 0 for i in range(n)]
        elif kind == "one":
            k = rng.randrange(n)
            m = [i == k for i in range(n)]
        elif kind == "block":
            a = rng.randrange(n)
            b = rng.randrange(a, n + 1)
            m = [a <= i < b for i in range(n)]
        else:
            m = [kind == "all"] * n
        r = rng.random()
        cols = None if r < 0.6 else ["rid"] + rng.sample(names, rng.randrange(1, len(names) + 1))
        masks.append((m, cols))
    # call sequences on ONE handle: 4-6 masked / row-filtered reads, counts and plain reads
    seqs = []
    twin_cols = [c for c in ("i", "n", "f", "rid") if c in spec["cols"] and c not in spec["partition_on"] and c != spec.get("index")]
    for _ in range(nseq):
        seq = []
        if twin_cols and rng.random() < 0.4:
            # DIFFERENT programs in a row on one handle whose constants are containers that print alike: numpy arrays /
            # pandas Index / long lists with the deciding values in the abbreviated middle, floats that differ in the 12th digit
            cname = rng.choice(twin_cols)
            present = sorted({v for v in spec["cols"][cname]["values"] if v is not None})
            isf = spec["cols"][cname]["kind"] == "float"
            a = rng.choice(present) if present else 1
            b = rng.choice([x for x in present if x != a] or [a + 1])
            form = rng.choice(["np", "np", "index", "list", "tuple"])
            if isf and rng.random() < 0.5:
                va, vb, pad = [a, 77.0], [a + 1e-12, 77.0], 0          # differ after the 8th significant digit
            else:
                va, vb, pad = [a], [b], rng.choice([0, 150, 1100, 1100])
            mk = lambda vals: {"flat": True, "groups": [[[cname, rng.choice(["in", "in", "not in"]), {"arr": {"form": form, "vals": vals, "pad": pad, "float": isf}}]]]}
            pa, pb = mk(va), mk(vb)
            pb["groups"][0][0][1] = pa["groups"][0][0][1]
            for pr in (pa, pb, pa):
                kind = rng.choice(["prog", "prog", "count", "iter"])
                r = rng.random()
                cols = None if r < 0.6 else ["rid"] + rng.sample(names, rng.randrange(1, len(names) + 1))
                seq.append([kind, pr, cols] if kind != "count" else [kind, pr])
        for _ in range(rng.choice([4, 5, 6])):
            kind = rng.choice(["mask", "mask", "mask", "prog", "prog", "iter", "count", "count", "pruned", "plain", "countplain", "len", "rgfile"])
            r = rng.random()
            cols = None if r < 0.6 else ["rid"] + rng.sample(names, rng.randrange(1, len(names) + 1))
            if kind == "mask":
                seq.append(["mask", masks[rng.randrange(len(masks))][0] if masks and rng.random() < 0.5 else
                            {rng.choice(["rg_only", "rg_off"]): rng.randrange(2), "hole": rng.randrange(spec["n"]) if rng.random() < 0.3 else None}, cols])
            elif kind in ("prog", "iter"):
                seq.append([kind, FL.gen_program(rng, spec, ch, wrong_type=0, tilde=0.25), cols])
            elif kind in ("count", "pruned"):
                seq.append([kind, FL.gen_program(rng, spec, ch, wrong_type=0)])
            elif kind == "rgfile":
                seq.append([kind, FL.gen_program(rng, spec, ch, wrong_type=0), rng.randrange(8)])
            else:
                seq.append([kind])
        seqs.append(seq)
    return spec, progs, masks, want_model, seqs


def run(ctx):
    C.coq_lib()
    ctx.trusted = TRUSTED
    quick = ctx.quick()
    ctx.coq_file(os.path.join(C.COQ, "props", "C13.v"))
    bad = C.hygiene()
    ctx.obligation("hygiene: no Admitted/Axiom/Parameter/... in coq/", not bad, "; ".join(bad))
    if not quick:
        # independent re-check of the compiled theorems and everything they depend on
        rc, o = C.run(["coqchk", "-o", "-silent", "-Q", os.path.join(C.COQ, "theories"), "Pq", "C13.vo"],
                      cwd=os.path.join(C.COQ, "props"), timeout=1200)
        ctx.obligation("coqchk -o props/C13.vo: checked, Axioms: <none>", rc == 0 and "Axioms: <none>" in o, o[-1500:])
        ctx.checker_cmds.append("coqchk -o -silent -Q coq/theories Pq coq/props/C13.vo")
    # the leaf decision of the first pass: regenerated text when the translator accepts api.py
    sys.path.insert(0, os.path.join(C.VERIF, "translators"))
    import py2coq
    req = ("From Coq Require Import ZArith List String.\nFrom Pq Require Import Base.PyVal Impl.Filter Impl.RowFilter.\n"
           "Import ListNotations.\nOpen Scope Z_scope.\n")
    extra_q = []
    for f in os.listdir(ctx.gen_dir):
        if f.startswith("GenFilter"):
            os.unlink(os.path.join(ctx.gen_dir, f))
    try:
        text = py2coq.translate(os.path.join(C.REPO, "fastparquet", "api.py"), ["filter_val", "filter_in", "filter_not_in", "_handle_np_array"])
        open(os.path.join(ctx.gen_dir, "GenFilter.v"), "w").write(text)
        ok, o = C.coqc(os.path.join(ctx.gen_dir, "GenFilter.v"), extra_q=[(ctx.gen_dir, "PqGen")])
        if not ok:
            raise py2coq.Unsupported("generated text does not type-check")
        req += "From PqGen Require Import GenFilter.\n"
        extra_q = [(ctx.gen_dir, "PqGen")]
        ctx.extra["translator"] = {"status": "ok (leaf decision of the first pass; re-proved by C05)"}
    except py2coq.Unsupported as e:
        req += "From Pq Require Import Impl.FilterLeaf.\n"
        ctx.extra["translator"] = {"status": "translator_fallback", "reason": str(e)[:300]}
        ctx.notes.append("translator_fallback: " + str(e)[:300])

    # -------- inventory (regenerated from the source on every run): the three parsers of partition-directory text (labels in
    # api._path_to_cats, cells in core.read_row_group, what a filter constant is compared with in api.filter_out_cats) apply the same
    # decoding to the raw text before typing it; fail closed (nothing claimed) when a parser's text variable is not found
    try:
        dd = py2coq.dirtext_decoders(os.path.join(C.REPO, "fastparquet", "api.py"), os.path.join(C.REPO, "fastparquet", "core.py"))
        ctx.extra["directory_text_decoders"] = dd
        if all(v is not None for v in dd.values()):
            ctx.obligation("gen:directory_text_decoders_agree (labels / cells / filter apply the same decoding to a directory name)",
                           dd["labels"] == dd["cells"] == dd["filter"], json.dumps(dd))
        else:
            ctx.notes.append("directory_text_decoders: not located for %s (oracle stream `oddpart` only)" % [k for k, v in dd.items() if v is None])
    except SyntaxError as e:
        ctx.obligation("gen:directory_text_decoders_agree", False, "source does not parse: %s" % e)
    C.use_shadow()
    warnings.filterwarnings("ignore")
    rng = ctx.rng
    ctx.rule = ("datasets of C05 with row groups of 1-12 rows, chunks split into several data pages (MAX_PAGE_SIZE 8-40 bytes), NULLs/NaN, categoricals, "
                "partitions, v1 and v2 data pages, compression none/SNAPPY/GZIP/ZSTD, a written index column in 20%; programs of C05 with row_filter=True, output columns all / rid only / "
                "subsets with or without the filter columns; caller masks: random densities, first/last k rows off, alternating, single row, "
                "block, all, none; a mask over the rows of the kept row groups together with filters. trivial = wrong-typed constant (read raises), or nothing selected and nothing returned; "
                "distinct = distinct (dataset, program|mask, columns)")
    n_ds = 90 if quick else 700
    jobs = []
    cdir = os.path.join(C.VERIF, "corpus", "C13")
    if os.path.isdir(cdir):
        for f in sorted(os.listdir(cdir)):
            if f.endswith(".json"):
                d = json.load(open(os.path.join(cdir, f)))
                jobs.append((d["spec"], [(p, c) for p, c in d.get("progs", [])], [(m, c) for m, c in d.get("masks", [])], True))
    ncorpus = len(jobs)
    for _ in range(n_ds):
        jobs.append(gen_job(rng, v2=(rng.random() < 0.35), nprog=20 if quick else 40, nmask=6 if quick else 10))
    # wave-3 datasets of C05 (tz-aware timestamps against constants in other zones, partition keys at integer representation
    # boundaries, one-sided / foreign statistics, long text) under row-level filtering
    for flavour, cnt in (("tz", 10 if quick else 60), ("bigpart", 6 if quick else 40), ("onesided", 8 if quick else 40), ("long", 4 if quick else 30),
                         ("oddpart", 8 if quick else 40)):
        for _ in range(cnt):
            jobs.append(gen_job(rng, v2=(rng.random() < 0.35), nprog=16 if quick else 40, nmask=3, nseq=2, flavour=flavour))
    # two datasets of identical shape but shifted values, row-filtered one after the other in one process (both orders)
    for _ in range(8 if quick else 50):
        a = gen_job(rng, v2=(rng.random() < 0.35), nprog=10 if quick else 30, nmask=0, nseq=0)
        sa = a[0]
        sb = FL.shifted_spec(sa, rng.choice([3, 5, -4, 7]))
        for first, second in ((sa, sb), (sb, sa)):
            spec = dict(second, prelude=FL.shifted_spec(first, 0), flavour="twin-after-prelude")
            offs = spec["offsets"] + [spec["n"]]
            ch = {name: [c["values"][offs[i]:offs[i + 1]] for i in range(len(offs) - 1)] for name, c in spec["cols"].items()}
            jobs.append((spec, [(FL.gen_program(rng, spec, ch, wrong_type=0), None) for _ in range(10 if quick else 30)], [], False, []))
    results = C.pmap(run_dataset, jobs, init=_init, nproc=min(8, os.cpu_count() or 4), job_timeout=300)

    mexprs, mmeta = [], []
    pexprs, pmeta = [], []
    for job, res in zip(jobs, results):
        spec, progs, masks, want_model = job[:4]
        seqs = job[4] if len(job) > 4 else []
        if "__crashed__" not in res:
            ctx.count("dataset.pages", ("v2" if spec.get("v2") else "v1") + ("/multi" if (res.get("max_pages") or 0) > 1 else "/single"))
        if "__crashed__" in res:
            ctx.fail({"component": "row-filter", "outcome": "crashed", "pages": "v2" if spec.get("v2") else "v1", "scheme": spec["scheme"]},
                     {"spec": spec, "progs": progs, "masks": masks}, "row-filtered reads of this dataset did not complete: " + res["__crashed__"])
            continue
        if res["error"]:
            ctx.count("dataset.write_or_full_read_raised", res["error"][:60])
            ctx.case({"spec": spec, "error": res["error"]}, trivial=True)
            continue
        ctx.count("dataset.scheme", spec["scheme"] + ("+parts" if spec["partition_on"] else ""))
        ctx.count("dataset.flavour", spec.get("flavour", "random"))
        for (prog, cols), o in zip(progs, res["progs"]):
            case = {"spec": spec, "prog": prog, "columns": cols}
            for g in prog["groups"]:
                for n_, op, _ in g:
                    ctx.count("cond.op", op)
                    ctx.count("cond.column", col_kind(spec, n_))
            ctx.count("prog.shape", ("flat" if prog["flat"] else "dnf") + "%dx%d" % (len(prog["groups"]), max(len(g) for g in prog["groups"])))
            ctx.count("prog.columns", "all" if cols is None else ("rid" if cols == ["rid"] else "subset"))
            if "raised" in o:
                ctx.count("read.raised", o["raised"])
                ctx.case(case, trivial=True)
                if not has_wrong_type(spec, prog):
                    ctx.fail(classify(spec, prog, "raised:" + o["raised"], cols), case,
                             "to_pandas(filters, row_filter=True) raised %s: %s" % (o["raised"], o["raised_msg"]))
                continue
            ctx.case(case, trivial=(not o["must"] and not o["got"]))
            ctx.count("read.selected", "0" if not o["got"] else ("all" if len(o["got"]) == res["nrows"] else "some"))
            ctx.count("read.free_rows", bool(o["free"]))
            got = o["got"]
            problems = []
            if got is not None:
                gs = set(got)
                lost = [x for x in o["must"] if x not in gs]
                extra = [x for x in got if x not in set(o["must"]) and x not in set(o["free"])]
                if len(gs) == len(got) and [x for x in res["order"] if x in gs] != got:
                    problems.append(("order-differs", "rows come back in the order %s, the full read has them as %s" % (got, [x for x in res["order"] if x in gs])))
                if lost:
                    problems.append(("lost-rows", "rows %s satisfy the program but are missing from %s" % (lost, got)))
                if extra:
                    problems.append(("extra-rows", "rows %s do not satisfy the program but were returned (%s)" % (extra, got)))
                if len(gs) != len(got):
                    problems.append(("duplicate-rows", "rows returned twice: %s" % got))
                if o.get("misaligned"):
                    problems.append(("misaligned", o["misaligned"]))
            if o["count"] != o["len"]:
                problems.append(("count-differs", "count(filters, row_filter=True) = %s but the read returned %s rows" % (o["count"], o["len"])))
            if problems:
                ctx.fail(classify(spec, prog, problems[0][0], cols), case, "; ".join(p[1] for p in problems))
            if "model" in o and any(op in ("<", "<=", ">", ">=") and spec["cols"].get(n_, {}).get("ordered") for g in prog["groups"] for n_, op, _ in g):
                ctx.count("model.skipped", "ordering on an ordered categorical (positions; oracle only)")
            elif "model" in o and has_wrong_type(spec, prog):
                # a constant of another type than the column (text against an integer-valued directory level, ...): how the
                # code types such a pair is not modelled row-wise (C08's typing rules decide); outside the grammar
                ctx.count("model.skipped", "wrong-typed constant, read did not raise")
            elif "model" in o:
                mexprs.append(o["model"])
                mmeta.append((case, got, o["count"]))
            elif "model_skip" in o:
                ctx.count("model.skipped", o["model_skip"][:40])
        for fo in res.get("fm", []):
            case = {"spec": spec, "prog": fo["prog"], "kept_mask": fo.get("mask")}
            ctx.case({"fm": case}, trivial=False)
            ctx.count("filters+mask", "raised" if "raised" in fo else ("bad" if fo.get("bad") else "ok"))
            if "raised" in fo:
                if not has_wrong_type(spec, fo["prog"]):
                    ctx.fail(classify(spec, fo["prog"], "filters+mask raised:" + fo["raised"], None), case, "to_pandas(filters, row_filter=mask) raised %s: %s" % (fo["raised"], fo["raised_msg"]))
            elif fo.get("bad"):
                ctx.fail(classify(spec, fo["prog"], "filters+mask wrong-rows", None), case, fo["bad"])
        for seq, o in zip(seqs, res.get("seqs", [])):
            case = {"spec": spec, "seq": seq}
            ctx.case(case, trivial=False)
            ctx.count("sequence.length", len(seq))
            for op in seq:
                ctx.count("sequence.op", op[0] + ("/container constant" if len(op) > 1 and isinstance(op[1], dict) and "groups" in op[1]
                                                  and any(isinstance(c[2], dict) and "arr" in c[2] for g in op[1]["groups"] for c in g) else ""))
            if o["bad"]:
                d = classify(spec, None, "sequence-on-one-handle", None)
                d["step_kind"] = seq[o["step"]][0]
                ctx.fail(d, case, o["bad"])
        for (mask, cols), o in zip(masks, res["masks"]):
            case = {"spec": spec, "mask": mask, "columns": cols}
            mask = resolve_mask(mask, res["sizes"])
            ctx.count("mask.density", "0" if not any(mask) else ("1" if all(mask) else "partial"))
            ctx.case(case, trivial=(not any(mask)))
            if "raised" in o:
                ctx.fail(classify(spec, None, "raised:" + o["raised"], cols), case, "to_pandas(row_filter=mask) raised %s: %s" % (o["raised"], o["raised_msg"]))
                continue
            if o["bad"]:
                ctx.fail(classify(spec, None, "wrong-rows", cols), case, o["bad"])
            for p_ in o.get("page_models") or []:
                if "impl" not in p_:
                    continue
                pages = []
                a = 0
                for n in p_["pages"]:
                    cellsv = ["None" if p_["nulls"][a + i] else "(Some %d)" % (a + i) for i in range(n)]
                    pages.append("(%s, [%s])" % (p_["kind"], "; ".join(cellsv)))
                    a += n
                pexprs.append("read_col_masked Z [%s] [%s]" % ("; ".join("true" if b else "false" for b in p_["mask"]), "; ".join(pages)))
                pmeta.append(({"spec": spec, "mask": mask, "chunk": {k: p_[k] for k in ("col", "rg", "pages")}}, p_["impl"]))

    # -------- correspondence 1: two-pass model vs to_pandas(filters, row_filter=True)
    lim = 1200 if quick else 10000
    if len(mexprs) > lim:
        keep = sorted(rng.sample(range(len(mexprs)), lim))
        mexprs = [mexprs[i] for i in keep]
        mmeta = [mmeta[i] for i in keep]
    res = C.vm_eval(req, mexprs, "res (list Z)", os.path.join(ctx.scratch, "tp"), tag="tp", shard=150, extra_q=extra_q)
    for (case, got, cnt), m in zip(mmeta, res):
        mo = C.parse_coq(m) if m is not None else None
        mo_n = ["Ok", list(mo[1])] if (isinstance(mo, tuple) and mo[0] == "Ok") else ["Err" if isinstance(mo, tuple) else "?"]
        ctx.correspondence("two_pass model ~ to_pandas(filters, row_filter=True) (row ids, in order)", case, mo_n, ["Ok", got])
    # -------- correspondence 2: page loop model vs what read_col wrote for a multi-page chunk under a mask
    lim = 2000 if quick else 8000
    if len(pexprs) > lim:
        keep = sorted(rng.sample(range(len(pexprs)), lim))
        pexprs = [pexprs[i] for i in keep]
        pmeta = [pmeta[i] for i in keep]
    res = C.vm_eval(req, pexprs, "option (list (slot Z))", os.path.join(ctx.scratch, "pg"), tag="pg", shard=300, extra_q=extra_q)
    for (case, impl), m in zip(pmeta, res):
        mo = C.parse_coq(m) if m is not None else None
        enc = None
        if isinstance(mo, tuple) and mo[0] == "Some":
            enc = []
            for s in mo[1]:
                if s == ("Uninit",):
                    enc.append("U")
                elif isinstance(s, tuple) and s[0] == "W":
                    enc.append("N" if s[1] is None else s[1][1])
                else:
                    enc.append(repr(s))
        ctx.correspondence("read_col_masked model ~ core.read_col(row_filter) on multi-page chunks (v1 and v2 pages)", case, enc, impl)
    ctx.extra["corpus_cases"] = ncorpus


def replay(rep):
    if rep.get("kind") == "no-failing-input-found" or "case" not in rep or "spec" not in rep["case"]:
        print(json.dumps(rep, indent=1)[:6000])
        return 1
    _init()
    case = rep["case"]
    spec = case["spec"]
    if "seq" in case:
        res = run_dataset((spec, [], [], False, [case["seq"]]))
        if res["error"]:
            print("dataset could not be written/read:", res["error"])
            return 1
        print("row-group sizes:", res["sizes"])
        for k, op in enumerate(case["seq"]):
            print("  step %d: %s" % (k + 1, describe_op(op)[:300]))
        o = res["seqs"][0]
        print("PROPERTY FAILS: " + o["bad"] if o["bad"] else "property holds on this case")
        return 1 if o["bad"] else 0
    if "prog" in case:
        res = run_dataset((spec, [(case["prog"], case.get("columns"))], [], False))
    else:
        res = run_dataset((spec, [], [(case["mask"], case.get("columns"))], False))
    if res["error"]:
        print("dataset could not be written/read:", res["error"])
        return 1
    print("row-group sizes:", res["sizes"], "max data pages per chunk:", res["max_pages"], "v2" if spec.get("v2") else "v1")
    if "kept_mask" in case:
        fo = (res.get("fm") or [{}])[0]
        print("filters:", FL.prog_to_filters(case["prog"]), "kept row groups:", fo.get("kept"), "mask over their rows:", fo.get("mask"))
        if "raised" in fo:
            print("PROPERTY FAILS: raised", fo["raised"], fo["raised_msg"])
            return 1
        print("PROPERTY FAILS: " + fo["bad"] if fo.get("bad") else "property holds on this case")
        return 1 if fo.get("bad") else 0
    if "prog" in case:
        o = res["progs"][0]
        print("filters:", FL.prog_to_filters(case["prog"]), "columns:", case.get("columns"))
        if "raised" in o:
            print("PROPERTY FAILS: raised", o["raised"], o["raised_msg"])
            return 1
        print("must be returned:", o["must"], " free (NULL under != / not in):", o["free"])
        print("returned:", o["got"], " count():", o["count"], " misaligned:", o.get("misaligned"))
        gs = set(o["got"] or [])
        bad = [x for x in o["must"] if x not in gs] or [x for x in (o["got"] or []) if x not in o["must"] and x not in o["free"]] \
            or o.get("misaligned") or o["count"] != o["len"]
        print("PROPERTY FAILS" if bad else "property holds on this case")
        return 1 if bad else 0
    o = res["masks"][0]
    print("mask:", case["mask"], "columns:", case.get("columns"))
    if "raised" in o:
        print("PROPERTY FAILS: raised", o["raised"], o["raised_msg"])
        return 1
    print("PROPERTY FAILS: " + o["bad"] if o["bad"] else "property holds on this case")
    return 1 if o["bad"] else 0
