"""C19 — an append interrupted before its metadata update leaves the old dataset intact (DESIGN.md section 6, C19).

Tie (validated relation, DESIGN 4.2): the call trace of the REAL append is recorded through wrappers passed as
open_with / mkdirs (+ an audit hook for anything that bypasses them) and the extracted, proved-sound checker
`check_safe_trace refs trace` is evaluated on it; the file-system model's `run` is replayed on the recorded trace
(with the written data) and compared with the directory the real run left.
Search / oracle: real fault injection for EVERY k of every scenario.
"""
import json
import os
import shutil
import tempfile
import traceback

from harness import common as C
from harness import dsfs

TRUSTED = [
    "Coq 8.16.1 kernel + coqc; no native_compute",
    "extraction: ExtrOcamlBasic only, no Extract Constant; ocaml/driver.ml s-expression I/O",
    "OS file semantics as modelled in Dataset/FS.v: open 'wb' creates/truncates, sequential writes append, rename/remove atomic per call, "
    "no call changes a file it does not name (the fs_run correspondence compares the model's replay of the recorded trace with the real directory)",
    "a fresh open of a hive dataset reads _metadata and exactly the files it references (checked on every scenario: the read-opens of the fresh open are recorded)",
    "the recording: wrappers passed as open_with/mkdirs + interpreter audit events (open for writing, os.rename, os.remove, os.rmdir, os.truncate, shutil.rmtree) below the dataset root; "
    "changes made by native code without audit events would be seen only by the directory comparison",
    "thrift parsing of _metadata and page decoding are arbitrary functions in the theorems (parse_md, decode: C10/C01/C03)",
    "Python glue: scenario generator, path normalisation relative to the dataset root, value canonicalisation of frames, fault injector",
]

NPROC = 8
READ_TIMEOUT = 15.0
VARIANTS = {"open": ["pre", "post"], "write": ["pre", "short", "post"], "close": ["post"], "mkdir": ["pre", "post"]}


# ---------------------------------------------------------------------------------------------
# scenarios (pure data, so that a replay does not depend on generator code)
# ---------------------------------------------------------------------------------------------
def make_frame(cols, n, rng, kvals, jvals):
    d = {}
    for c in cols:
        if c == "k":
            d[c] = [rng.choice(kvals) for _ in range(n)]
        elif c == "j":
            d[c] = [rng.choice(jvals) for _ in range(n)]
        elif c == "x":
            d[c] = [rng.randrange(-1000, 1000) for _ in range(n)]
        elif c == "s":
            d[c] = [rng.choice(["a", "bb", "", "é", "zzz"]) + str(rng.randrange(10)) for _ in range(n)]
        elif c == "f":
            d[c] = [rng.choice([0.5, -1.25, 3.0, None]) for _ in range(n)]
    return d


def offsets(n, parts):
    """row_group_offsets list giving exactly `parts` non-empty row groups of n rows (parts <= n)."""
    base = [i * n // parts for i in range(parts)]
    return sorted(set(base))


def gen_scenario(rng, sid):
    npart = rng.choice([0, 1, 1, 2])
    pcols = ["k", "j"][:npart] if npart < 2 or rng.random() < 0.7 else ["j", "k"]
    cols = ["x", "s", "f"][:rng.choice([1, 2, 3])] + ["k", "j"][:npart]
    kvals = rng.choice([[0, 1], [0, 1, 2], [7]])
    jvals = rng.choice([["a", "b"], ["u"], ["a", "b", "c"]])
    n0 = rng.choice([1, 3, 6, 10])
    old_rgs = min(n0, rng.choice([1, 2, 3]))
    if rng.random() < 0.25:                 # part numbers with two digits (10, 11, ...): numeric vs textual ordering
        n0 = rng.choice([11, 12, 13])
        old_rgs = n0 - rng.choice([0, 0, 1])
    new_parts = rng.choice([1, 2, 3, 4])
    n1 = new_parts * rng.choice([1, 2, 3])
    sc = {"id": sid, "partition_on": pcols, "columns": cols,
          "frame0": make_frame(cols, n0, rng, kvals, jvals), "offsets0": offsets(n0, old_rgs),
          "prior": [], "frame1": make_frame(cols, n1, rng, kvals + ([5] if rng.random() < 0.3 else []), jvals + (["n"] if rng.random() < 0.3 else [])),
          "offsets1": offsets(n1, new_parts), "new_parts": new_parts,
          "compression": rng.choice([None, None, "GZIP"]), "stats": rng.choice(["auto", True, False]),
          # how the dataset is ADDRESSED by the append (absolute path / relative to the working directory / './' / 'file://' URL) and
          # what open_with is: the recorder's plain callables, or the bound open() of an fsspec file system object
          "addr": rng.choice(["abs", "abs", "rel", "dot", "url"]), "opener": rng.choice(["callable", "fs"])}
    # EMPTY base datasets (zero row groups): created from a 0-row frame, or emptied by remove_row_groups - _metadata then references
    # nothing, and whatever an interrupted append leaves in the directory must stay invisible
    sc["empty_base"] = rng.choice([None, None, None, "zero_frame", "emptied"])
    for _ in range(0 if sc["empty_base"] else rng.choice([0, 0, 1, 2])):          # earlier successful appends: part numbers beyond the first write's
        m = rng.choice([1, 2, 4])
        sc["prior"].append({"frame": make_frame(cols, m, rng, kvals, jvals), "offsets": offsets(m, min(m, rng.choice([1, 2])))})
    if not sc["empty_base"] and rng.random() < 0.4:
        # an earlier pf.write_row_groups(..., sort_key=..., sort_pnames=False) left the row groups in an order in which the LAST one is
        # not the highest part number (files are not renamed): the next part number must still be beyond every existing one
        sc["reorder"] = {"frame": make_frame(cols, 2, rng, kvals, jvals), "key": rng.choice(["part_desc", "rows"])}
    return sc


def to_df(frame, cols):
    import pandas as pd
    import numpy as np
    d = {}
    for c in cols:
        v = frame[c]
        if c in ("x", "k"):
            d[c] = np.array(v, dtype="int64")
        elif c == "f":
            d[c] = np.array([np.nan if x is None else x for x in v], dtype="float64")
        else:
            d[c] = pd.Series(v, dtype=object)
    return pd.DataFrame(d)


def do_write(root, sc, frame, offs, append, rec=None):
    from fastparquet import write
    kw = {}
    if rec is not None:
        kw = {"open_with": rec.open_with, "mkdirs": rec.mkdirs}
        if sc.get("opener") == "fs":
            kw["open_with"] = dsfs.rec_fs(rec).open
    addr = sc.get("addr", "abs") if rec is not None else "abs"
    cwd = os.getcwd()
    try:
        if addr in ("rel", "dot"):
            os.chdir(os.path.dirname(root))
            target = os.path.basename(root) if addr == "rel" else "./" + os.path.basename(root)
        elif addr == "url" and sc.get("opener") == "fs":
            target = "file://" + root
        else:
            target = root
        write(target, to_df(frame, sc["columns"]), file_scheme="hive", partition_on=list(sc["partition_on"]),
              row_group_offsets=(list(offs) if offs is not None else None), append=append, compression=sc["compression"], stats=sc["stats"], **kw)
    finally:
        os.chdir(cwd)


def fresh_read(root, rec=None):
    from fastparquet import ParquetFile
    if rec is not None:
        pf = ParquetFile(root, open_with=rec.open_with)
    else:
        pf = ParquetFile(root)
    return pf, dsfs.values(pf.to_pandas())



# ---------------------------------------------------------------------------------------------
# function-against-function tie of Dataset/FsPaths.v (part names) with api.PART_ID / writer.find_max_part
# ---------------------------------------------------------------------------------------------
def gen_path(rng):
    """mostly part-file-like ASCII paths, with the boundary shapes of the regular expression"""
    r = rng.random()
    num = rng.choice(["0", "7", "12", "007", "123456789012", "", "1a", "9"])
    sep1 = rng.choice([".", ".", ".", "", "-", "0", "x", "/"])
    sep2 = rng.choice([".", ".", ".", "", "_", "5"])
    d = rng.choice(["", "", "k=1/", "k=1/j=u/", "part.3.parquet/", "apart/", "a b/", "k=part.9.parquet/"])
    tail = rng.choice(["parquet", "parquet", "parquet", "parquet ", "parq", "parquet.gz", "PARQUET"])
    stem = rng.choice(["part", "part", "part", "par", "xpart", "partpart", "Part"])
    if r < 0.1:
        return rng.choice(["_metadata", "_common_metadata", "", "part", "part..parquet", "part.1.parquet\n", "a\npart.1.parquet", ".parquet"])
    return d + stem + sep1 + num + sep2 + tail


def real_part_id(path):
    from fastparquet.api import PART_ID
    m = PART_ID.match(path)
    return [] if m is None else [int(m["i"])]


def real_find_max_part(paths):
    import types
    from fastparquet.writer import find_max_part
    rgs = [types.SimpleNamespace(columns=[types.SimpleNamespace(file_path=p)]) for p in paths]
    try:
        return [find_max_part(rgs)]
    except TypeError:
        return []


def blocks_of(trace):
    """recorded fault-free trace -> (partitioned, row groups as [[dir, [chunks]] ...], md chunks, cmd chunks, normalised trace)"""
    files, order, mk = {}, [], False
    norm = []
    closed = set()
    for c in trace:
        if c[0] == "mkdir":
            mk = True
            norm.append(["mkdir", c[1].encode()])
        elif c[0] == "openw":
            files[c[1]] = []
            order.append(c[1])
            closed.discard(c[1])
            norm.append(["openw", c[1].encode(), 1 if c[2] else 0])
        elif c[0] == "write":
            files[c[1]].append(bytes(c[2]))
            norm.append(["write", c[1].encode(), bytes(c[2])])
        elif c[0] == "close":
            if c[1] not in closed:              # a second close of the same handle is a no-op
                norm.append(["close", c[1].encode()])
            closed.add(c[1])
        else:
            norm.append(list(c))
    rgs, last = [], None
    for f in order:
        if f in (dsfs.MD, dsfs.CMD):
            continue
        d, _, name = f.rpartition("/")
        if name != last:
            rgs.append([])
            last = name
        rgs[-1].append([d.encode(), files[f]])
    return mk, rgs, files.get(dsfs.MD, []), files.get(dsfs.CMD, []), norm

# ---------------------------------------------------------------------------------------------
def run_scenario(arg):
    """Worker: everything that touches the real code for one scenario.  Returns plain data."""
    sc, scratch, tier, only = arg
    out = {"id": sc["id"], "runs": [], "error": None}
    try:
        base = os.path.join(scratch, "s%d" % sc["id"])
        pristine, work, alone = (os.path.join(base, x) for x in ("pristine", "work", "alone"))
        os.makedirs(base)
        if sc.get("empty_base") == "zero_frame":
            do_write(pristine, sc, {c: [] for c in sc["columns"]}, None, False)      # (0 rows with explicit offsets [0] crash the unchanged tree's write_multi: notes)
        else:
            do_write(pristine, sc, sc["frame0"], sc["offsets0"], False)
            if sc.get("empty_base") == "emptied":
                from fastparquet import ParquetFile
                pfe = ParquetFile(pristine)
                pfe.remove_row_groups(pfe.row_groups)
        pf0, old_vals = fresh_read(pristine)
        if sc.get("empty_base") and (len(pf0.row_groups) or (old_vals and len(old_vals[0][1]))):
            raise RuntimeError("harness: the base dataset should be empty")
        for i, pr in enumerate(sc["prior"]):
            # the earlier appends are appends under test, too (fault-free): each must add exactly its rows
            al = os.path.join(base, "alone%d" % i)
            do_write(al, sc, pr["frame"], pr["offsets"], False)
            _, pv = fresh_read(al)
            want = dsfs.cat_values(old_vals, pv)
            raised = None
            try:
                do_write(pristine, sc, pr["frame"], pr["offsets"], True)
            except BaseException as e:            # noqa
                raised = "%s: %s" % (type(e).__name__, str(e)[:200])
            st, val = dsfs.guarded(lambda: fresh_read(pristine)[1], READ_TIMEOUT)
            if raised is not None or st != "ok" or val != want:
                out["setup_failure"] = {"step": i, "raised": raised,
                                        "read": ("other" if st == "ok" else st), "read_detail": (None if st == "ok" else val),
                                        "rows_expected": len(want[0][1]), "rows_read": (len(val[0][1]) if st == "ok" and val else None)}
                return out
            old_vals = want
        if sc.get("reorder"):
            from fastparquet import ParquetFile
            from fastparquet.api import PART_ID
            pfr_ = ParquetFile(pristine)
            key = (lambda rg: -int(PART_ID.match(rg.columns[0].file_path)["i"])) if sc["reorder"]["key"] == "part_desc" else (lambda rg: rg.num_rows)
            pfr_.write_row_groups(to_df(sc["reorder"]["frame"], sc["columns"]), [0], sort_key=key, sort_pnames=False,
                                  compression=sc["compression"], stats=sc["stats"])
            nbefore = len(old_vals[0][1])
            _, old_vals = fresh_read(pristine)          # (the ORDER after a sorted write is C09's subject; here: the rows are all there)
            if len(old_vals[0][1]) != nbefore + 2:
                out["setup_failure"] = {"step": 98, "raised": None, "read": "other", "read_detail": None,
                                        "rows_expected": nbefore + 2, "rows_read": len(old_vals[0][1])}
                return out
        pf0, _ = fresh_read(pristine)
        refs = dsfs.refs_of(pf0)
        do_write(alone, sc, sc["frame1"], sc["offsets1"], False)
        _, new_vals = fresh_read(alone)
        empty = bool(sc.get("empty_base"))
        # (an empty partitioned dataset reads without its partition columns: it is compared by its number of rows, 0)
        want_new = new_vals if empty else dsfs.cat_values(old_vals, new_vals)
        snap0 = dsfs.snapshot(pristine)
        out.update(refs=refs, nold=len(old_vals[0][1]), nnew=len(new_vals[0][1]), files0=sorted(snap0))

        def handle_append(pf, rec_):
            pf.write_row_groups(to_df(sc["frame1"], sc["columns"]), list(sc["offsets1"]), compression=sc["compression"], stats=sc["stats"],
                                open_with=rec_.open_with, mkdirs=rec_.mkdirs)

        def one(k, variant, keep_data, after_failed=None, rk=None, same_handle=False):
            dsfs.restore(pristine, work)
            pf_h, handle_note = None, None
            if after_failed is not None and same_handle:
                # class "failed operation, then CONTINUED use of the same handle": the failing append and its retry go through ONE
                # ParquetFile; after the reported failure the handle's metadata must equal a fresh open's
                from fastparquet import ParquetFile
                pf_h = ParquetFile(work)
                rec0 = dsfs.Recorder(work, fail_at=after_failed[0], variant=after_failed[1])
                failed0 = None
                with rec0:
                    try:
                        handle_append(pf_h, rec0)
                    except BaseException as e:        # noqa
                        failed0 = "%s: %s" % (type(e).__name__, str(e)[:120])
                if failed0 is not None:
                    def cmp_():
                        fr = ParquetFile(work)
                        return [dsfs.refs_of(fr), int(fr.fmd.num_rows), len(fr.row_groups)]
                    st_, fresh_ = dsfs.guarded(cmp_, READ_TIMEOUT)
                    mine = [[rg.columns[0].file_path for rg in pf_h.fmd.row_groups], int(pf_h.fmd.num_rows), len(pf_h.row_groups)]
                    if st_ == "ok" and mine != fresh_:
                        handle_note = "after the failed append (%s) the handle's metadata lists %d row groups / num_rows %d / %d row_groups attribute, a fresh open %d / %d / %d" % (
                            failed0, len(mine[0]), mine[1], mine[2], len(fresh_[0]), fresh_[1], fresh_[2])
            elif after_failed is not None:
                # fault sequence: an append that failed in call after_failed[0] came first (its debris - unreferenced part
                # files, directories - is still there); the append judged here is the retry
                rec0 = dsfs.Recorder(work, fail_at=after_failed[0], variant=after_failed[1])
                with rec0:
                    try:
                        do_write(work, sc, sc["frame1"], sc["offsets1"], True, rec0)
                    except BaseException:        # noqa
                        pass
            rec = dsfs.Recorder(work, fail_at=k, variant=variant, keep_data=keep_data, fail_read_at=rk)
            raised = None
            with rec:
                try:
                    if pf_h is not None:
                        handle_append(pf_h, rec)
                    else:
                        do_write(work, sc, sc["frame1"], sc["offsets1"], True, rec)
                except BaseException as e:       # noqa
                    raised = "%s: %s" % (type(e).__name__, str(e)[:200])
            r = {"k": k, "variant": variant, "raised": raised, "fired": rec.fired, "ncalls": rec.n, "same_handle": bool(same_handle), "handle_note": handle_note,
                 "trace": rec.trace, "kinds": rec.kinds, "bypassed": rec.bypassed, "fired_at": rec.fired_at,
                 "after_failed": list(after_failed) if after_failed else None,
                 "read_k": rk, "nreads": rec.rn, "rkinds": rec.rkinds}
            def reader():
                rr = dsfs.Recorder(work)
                with rr:
                    pf, vals = fresh_read(work, rr)
                return vals, dsfs.refs_of(pf), sorted(set(x for x in rr.reads if x not in ("",)))

            if raised is not None and rec.fired is not None and dsfs.summaryish(rec.fired[2]) and dsfs.md_open_index(rec.trace) is not None:
                # _metadata was write-opened and the failing call names it: the summary IS being rewritten (outside the
                # property) and may be torn; nothing is claimed about such a state, so it is not opened
                r["read"] = "not-read(fault inside the rewrite of _metadata)"
            else:
                # the native readers can spin forever on torn files (notes/C19.md): read in a child that can be killed
                st, val = dsfs.guarded(reader, READ_TIMEOUT)
                if st == "ok":
                    vals, refs_after, read_opens = val
                    nrows_ = len(vals[0][1]) if vals else 0
                    r["read"] = "old" if (vals == old_vals or (empty and nrows_ == 0)) else ("new" if vals == want_new else "other")
                    if r["read"] == "other":
                        r["read_detail"] = {"rows": len(vals[0][1]) if vals else 0, "refs": refs_after[-6:]}
                    r["read_opens"] = read_opens
                    r["refs_after"] = refs_after
                else:
                    r["read"] = "unreadable" if st == "exc" else st
                    r["read_detail"] = val
            snap1 = dsfs.snapshot(work)
            r["changed_old"] = sorted(p for p in snap0 if p not in (dsfs.MD, dsfs.CMD) and snap1.get(p) != snap0[p])
            r["md_same"] = snap1.get(dsfs.MD) == snap0[dsfs.MD]
            if keep_data:
                r["snap0"] = snap0
                r["snap1"] = snap1
            return r

        if only is not None:                      # replay of one run
            out["runs"].append(one(only[0], only[1], False, only[2] if len(only) > 2 else None, only[3] if len(only) > 3 else None,
                                   only[4] if len(only) > 4 else False))
            return out
        b = one(None, "pre", True)
        out["runs"].append(b)
        n = b["ncalls"]
        kinds = b["kinds"]
        hangs = 0
        for k in range(1, n + 1):
            for v in VARIANTS[kinds[k - 1]]:
                # every 23rd interrupted run is recorded WITH the written data, so that the FS model (incl. what a failing call
                # leaves behind: nothing / everything / a short write) is compared with the real directory on interrupted traces too
                out["runs"].append(one(k, v, (k * 31 + len(v)) % 23 == 0))
                hangs += out["runs"][-1]["read"] in ("hang", "died")
            if hangs >= 3:          # every one of them is reported; do not spend the budget waiting for more of the same
                out["cut_short_after_hangs"] = k
                break
        # READ side of the append (wave 3): the k-th open-for-reading / read call the append issues (opening the existing
        # _metadata, parsing its footer) fails - before it has an effect, or after it was performed
        for rk in range(1, b["nreads"] + 1):
            for v in ("pre", "post"):
                out["runs"].append(one(None, v, False, None, rk))
        # fault sequences: a failed append (at about 1/4, 1/2, 3/4 of the calls before _metadata) followed by a retry -
        # fault-free, and failing once more at the same call
        mdi = dsfs.md_open_index(b["trace"])
        nb = sum(1 for c in b["trace"][:mdi] if c[0] in ("mkdir", "openw", "write", "close")) if mdi else n
        for k0 in sorted(set(max(1, nb * j // 4) for j in (1, 2, 3))):
            v0 = "short" if kinds[k0 - 1] == "write" else VARIANTS[kinds[k0 - 1]][-1]
            out["runs"].append(one(None, "pre", False, (k0, v0)))
            out["runs"].append(one(k0, v0, False, (k0, v0)))
            out["runs"].append(one(None, "pre", False, (k0, v0), None, True))        # the retry on the SAME handle
        # ... and after a failure right behind each completed part file (close of the 1st, 2nd, ... new part): retry on the same handle
        closes = [i_ + 1 for i_, kd in enumerate(kinds[:nb]) if kd == "close"]
        for k0 in closes[:3]:
            if k0 + 1 <= nb:
                out["runs"].append(one(None, "pre", False, (k0 + 1, "pre"), None, True))
    except BaseException:                         # noqa
        out["error"] = traceback.format_exc()[-3000:]
    finally:
        shutil.rmtree(os.path.join(scratch, "s%d" % sc["id"]), ignore_errors=True)
    return out


def judge(sc, res, r):
    """The property's own text on one run.  Returns (phase, problems)."""
    problems = []
    tr = r["trace"]
    mdi = dsfs.md_open_index(tr)
    # the summary "starts being rewritten" with the first effective write-open of _metadata
    phase = "before_md" if mdi is None else "md_started"
    old_files = set(res["files0"]) - {dsfs.MD, dsfs.CMD}
    opened = [c[1] for c in tr if c[0] == "openw" and c[1] in old_files]
    if opened:
        problems.append(("opened-existing-data-file", "existing data file(s) opened for writing: %s" % opened[:3]))
    renamed = [c for c in tr if c[0] in ("rename", "remove") and any(p in old_files for p in c[1:])]
    if renamed:
        problems.append(("renamed-or-removed-existing-data-file", "%s" % renamed[:3]))
    if r.get("handle_note"):
        problems.append(("handle-metadata-differs-after-failed-append", r["handle_note"]))
    if r["raised"] is None:
        if r["read"] != "new":
            problems.append(("returned-but-not-new-content",
                             "append returned normally but a fresh open reads %s content (%s)" % (r["read"], r.get("read_detail"))))
    elif phase == "before_md" or (r["fired"] and not dsfs.summaryish(r["fired"][2])):
        # the failing call came before any write-open of _metadata, or it names a part file / directory (the append was
        # still writing data, so by "parts first, summary last" the summary must not have been touched yet)
        if phase != "before_md":
            if r.get("fired_at") is not None and mdi >= r["fired_at"]:
                problems.append(("summary-rewritten-after-the-failure",
                                 "call %s on %s failed, and _metadata was opened for writing afterwards although the append reports failure" % (
                                     r["fired"][1], r["fired"][2])))
            else:
                problems.append(("data-call-after-summary-rewrite-started",
                                 "call %s on %s was issued after _metadata had been opened for writing" % (r["fired"][1], r["fired"][2])))
        if r["read"] != "old":
            problems.append(("failed-before-metadata-but-content-changed",
                             "append raised (%s) while it was still writing part files / before _metadata was opened for writing, but a fresh open reads %s (%s)" % (
                                 r["raised"], r["read"], r.get("read_detail"))))
        if r["changed_old"] or not r["md_same"]:
            problems.append(("failed-before-metadata-but-bytes-changed", "changed: %s, _metadata same: %s" % (r["changed_old"][:3], r["md_same"])))
    return phase, problems


def run(ctx):
    C.coq_lib()
    ctx.trusted = TRUSTED
    ctx.coq_file(os.path.join(C.COQ, "props", "C19.v"))
    bad = C.hygiene()
    ctx.obligation("hygiene: no Admitted/Axiom/Parameter/... in coq/", not bad, "; ".join(bad))
    dsfs.partnames_translator(ctx)
    chk = dsfs.coqchk_start(C.COQ, "C19") if not ctx.quick() else None
    C.use_shadow()
    C.pqref()
    rng = ctx.rng
    nsc = 18 if ctx.quick() else 150
    ctx.rule = ("scenario = hive dataset (0..2 partition columns, 1..3 or 10..13 row groups, 0..2 earlier appends, codec/stats varied) + an append of 1..4 new "
                "row groups; for EVERY k = 1..N (N = number of mkdir/open-for-write/write/close calls the fault-free append issues) and every variant "
                "(fail before the call has an effect / after it / short write) the real append runs with the k-th call failing, then a fresh open; "
                "plus READ-side faults: every open-for-reading / read call the append issues (existing _metadata) failing before / after it is performed; "
                "plus fault SEQUENCES: a failed append (at 1/4, 1/2, 3/4 of the calls) followed by a retry, fault-free and failing again at the same call; "
                "a case is (scenario, k, variant[, preceding failure]); the fault-free run of a scenario is the only trivial one")
    scs = [gen_scenario(rng, i) for i in range(nsc)]
    # corpus of past disagreements first
    cdir = os.path.join(C.VERIF, "corpus", "C19")
    if os.path.isdir(cdir):
        for i, f in enumerate(sorted(os.listdir(cdir))):
            sc = json.load(open(os.path.join(cdir, f)))["scenario"]
            sc["id"] = 100000 + i
            scs.insert(0, sc)
    args = [(sc, ctx.scratch, ctx.tier, None) for sc in scs]
    # crash-proof parallel map: a scenario whose worker dies or hangs is a reported failure, not a hung check
    results = C.pmap(run_scenario, args, nproc=NPROC, job_timeout=900 if ctx.quick() else 2400)
    for sc, res in zip(scs, list(results)):
        if isinstance(res, dict) and "__crashed__" in res:
            ctx.case({"sc": sc["id"], "k": None, "v": "crashed", "f": sc["frame1"], "p": sc["partition_on"]})
            ctx.fail({"component": "write_multi.append", "symptom": "process-crashed-or-hung", "phase": None, "fault_kind": None, "variant": None},
                     {"scenario": sc, "k": None, "variant": "pre"}, "the process running this scenario on the real code %s" % res["__crashed__"])
    results = [r for r in results if not (isinstance(r, dict) and "__crashed__" in r)]
    pq = C.Pqref()
    by_id = {sc["id"]: sc for sc in scs}
    # ---- FsPaths.part_id / find_max_part against api.PART_ID / writer.find_max_part
    npaths = 600 if ctx.quick() else 6000
    paths = sorted(set(gen_path(rng) for _ in range(npaths)))
    mo = pq.batch([("part_id", p.encode()) for p in paths])
    for p_, m in zip(paths, mo):
        ctx.correspondence("FsPaths.part_id ~ api.PART_ID.match(path)['i']", {"path": p_}, m, real_part_id(p_))
    ctx.count("part_id_paths", len(paths))
    good = [p_ for p_ in paths if real_part_id(p_)]
    lists = [[rng.choice(good) for _ in range(rng.choice([0, 1, 2, 5]))] + ([rng.choice(paths)] if rng.random() < 0.2 else [])
             for _ in range(100 if ctx.quick() else 1000)]
    # (repo fix 59b66a8: api.part_ids ignores references that are not named part.<i>.parquet -> FsPaths.find_max_part_skip;
    #  on lists of matching names it is FsPaths.find_max_part, theorem C19_find_max_part_skip_agrees)
    mo = pq.batch([("find_max_part_skip", [p_.encode() for p_ in l]) for l in lists])
    for l, m in zip(lists, mo):
        ctx.correspondence("FsPaths.find_max_part_skip ~ writer.find_max_part", {"paths": l}, m, real_find_max_part(l))
    good_lists = [l for l in lists if all(real_part_id(p_) for p_ in l)]
    mo = pq.batch([("find_max_part", [p_.encode() for p_ in l]) for l in good_lists])
    for l, m in zip(good_lists, mo):
        ctx.correspondence("FsPaths.find_max_part ~ writer.find_max_part (references all named part.<i>.parquet)", {"paths": l}, m, real_find_max_part(l))
    model_trace = {"equal": 0, "different": 0, "examples": []}
    strict = {"true": 0, "false": 0}
    sym_info = {"true": 0, "false": 0}
    gen_seen = {}
    cmds, meta = [], []
    for res in results:
        sc = by_id[res["id"]]
        if res["error"]:
            raise RuntimeError("scenario %d failed in the harness:\n%s" % (res["id"], res["error"]))
        if res.get("setup_failure"):
            sf = res["setup_failure"]
            ctx.case({"sc": sc["id"], "k": None, "v": "prior-append", "f": sc["frame1"], "p": sc["partition_on"]})
            ctx.fail({"component": "write_multi.append", "symptom": "returned-but-not-new-content" if sf["raised"] is None else "fault-free-append-raised",
                      "phase": "fault-free", "fault_kind": None, "variant": "prior-append"},
                     {"scenario": sc, "k": None, "variant": "prior-append", "observed": sf},
                     "fault-free append number %d of the scenario %s, and a fresh open then reads %s (%s rows, expected %s) %s" % (
                         sf["step"] + 1, "raised " + sf["raised"] if sf["raised"] else "returned normally", sf["read"], sf["rows_read"],
                         sf["rows_expected"], sf["read_detail"] or ""))
            continue
        ctx.count("addressing", "%s/%s" % (sc.get("addr", "abs"), sc.get("opener", "callable")))
        ctx.count("base_dataset", sc.get("empty_base") or "non-empty")
        ctx.count("row_groups_reordered_by_an_earlier_sorted_write", (sc.get("reorder") or {}).get("key", "no"))
        ctx.count("partition_columns", len(sc["partition_on"]))
        ctx.count("new_row_groups", sc["new_parts"])
        ctx.count("prior_appends", len(sc["prior"]))
        ctx.count("calls_per_append", (res["runs"][0]["ncalls"] // 20) * 20)
        refs = res["refs"]
        for r in res["runs"]:
            case = {"scenario": sc, "k": r["k"], "variant": r["variant"], "after_failed": r.get("after_failed"), "read_k": r.get("read_k"),
                    "same_handle": r.get("same_handle", False)}
            short = {"scenario": sc["id"], "k": r["k"], "variant": r["variant"], "fired": r["fired"], "raised": r["raised"],
                     "after_failed": r.get("after_failed"), "read_k": r.get("read_k"), "same_handle": r.get("same_handle", False)}
            ctx.case({"sc": sc["id"], "k": r["k"], "v": r["variant"], "f": sc["frame1"], "p": sc["partition_on"], "af": r.get("after_failed"), "rk": r.get("read_k"),
                      "sh": r.get("same_handle", False)},
                     trivial=(r["k"] is None and not r.get("after_failed") and r.get("read_k") is None))
            if r.get("read_k") is not None:
                ctx.count("fault_kind", "%s/%s" % (r["fired"][1] if r["fired"] else "not-reached", r["variant"]))
                ctx.count("read_side_fault_outcome", "%s/%s" % ("raised" if r["raised"] else "returned", r["read"]))
                if r["fired"] is None:
                    ctx.obligation("fault injector reached read-side call %s of scenario %s" % (r["read_k"], sc["id"]), False, "the k-th read-side call was never issued")
            if r.get("after_failed"):
                ctx.count("fault_sequence", "failed append, then %s%s" % ("fault-free retry" if r["k"] is None else "retry failing again",
                                                                         " on the SAME handle" if r.get("same_handle") else ""))
            if r["k"] is not None:
                ctx.count("fault_kind", "%s/%s" % (r["fired"][1] if r["fired"] else "not-reached", r["variant"]))
            phase, problems = judge(sc, res, r)
            ctx.count("outcome", "%s/%s/%s" % ("raised" if r["raised"] else "returned", phase, r["read"]))
            for sym, text in problems:
                ctx.fail({"component": "write_multi.append", "symptom": sym, "phase": phase,
                          "fault_kind": r["fired"][1] if r["fired"] else None, "variant": r["variant"]},
                         {**case, "trace": dsfs.trace_json(r["trace"]), "observed": {"raised": r["raised"], "read": r["read"],
                                                                                   "read_detail": r.get("read_detail")}}, text)
            if r["k"] is not None and r["fired"] is None:
                ctx.obligation("fault injector reached call %s of scenario %s" % (r["k"], sc["id"]), False, "the k-th call was never issued")
            # tie 1: the checker on the recorded (possibly interrupted) trace
            cmds.append(("safe_trace_sym", [p.encode() for p in refs], dsfs.sx_trace([(c[0], c[1], b"") if c[0] == "write" else c for c in r["trace"]])))
            meta.append(("safe", short, r))
            cmds.append(("safe_trace", [p.encode() for p in refs], dsfs.sx_trace([(c[0], c[1], b"") if c[0] == "write" else c for c in r["trace"]])))
            meta.append(("strict", short, r))
            cmds.append(("safe_trace_gen", [p.encode() for p in refs], dsfs.sx_trace([(c[0], c[1], b"") if c[0] == "write" else c for c in r["trace"]])))
            meta.append(("gen", short, r))
            # tie 2: what the fresh open opened for reading
            if "read_opens" in r:
                allowed = set(r["refs_after"]) | {dsfs.MD}
                extra = sorted(set(r["read_opens"]) - allowed)
                ctx.correspondence("fresh open reads only _metadata and the files it references", short, [], extra)
            # tie 3: FS model replay of the recorded trace vs the real directory (runs recorded with data)
            if "snap0" in r and r["raised"] is None:
                # information (DESIGN 4.2): is the deterministic model trace exactly what the code did?
                pt, rgs, mdc, cmdc, norm = blocks_of(r["trace"])
                cmds.append(("append_trace", [p.encode() for p in refs], 1 if pt else 0, rgs, mdc, cmdc))
                meta.append(("model", short, norm))
            if "snap0" in r:
                cmds.append(("fs_run", [[k.encode(), v] for k, v in sorted(r["snap0"].items())], dsfs.sx_trace(r["trace"])))
                meta.append(("fs", short, r))
    outs = pq.batch(cmds)
    if len(outs) != len(cmds):
        raise RuntimeError("pqref answered %d of %d commands" % (len(outs), len(cmds)))
    order = sorted(range(len(meta)), key=lambda i_: 0 if meta[i_][0] == "gen" else 1)
    for (kind, short, r), o in [(meta[i_], outs[i_]) for i_ in order]:
        if kind == "model":
            mt = [[bytes(x) if isinstance(x, (bytes, bytearray)) else x for x in c] for c in o[0]] if isinstance(o, list) and o else o
            same = mt == [[x.encode() if isinstance(x, str) else x for x in c] for c in r]
            model_trace["equal" if same else "different"] += 1
            if not same and len(model_trace["examples"]) < 3:
                model_trace["examples"].append({"scenario": short["scenario"], "model": str(mt)[:600], "recorded": str(r)[:600]})
            continue
        if kind == "strict":
            # information: the stricter relation `safe_trace` (_metadata before _common_metadata), which the code implements today
            strict["true" if o == 1 else "false"] += 1
            continue
        if kind == "gen":
            # the GENERAL commit-point relation (Dataset/CrashGen.v; C19_gen_* theorems): what the property needs; a code change
            # that stays inside it (e.g. _metadata written to a temporary file and renamed) keeps this correspondence
            ok = ctx.correspondence("check_safe_gen(recorded trace of the real append) = true", short, 1, o)
            if not ok and len(ctx.broken) and "trace" not in ctx.broken[-1]:
                ctx.broken[-1]["trace"] = dsfs.trace_json(r["trace"], 200)
            gen_seen[(short["scenario"], short["k"], short["variant"], str(short.get("after_failed")), short.get("read_k"), short.get("same_handle"))] = o
            continue
        if kind == "safe":
            # today's code is also inside the stricter relation (summary files written in place, in either order); information,
            # and a run-time check that the general relation contains it (sym accepted => gen accepted)
            sym_info["true" if o == 1 else "false"] += 1
            g = gen_seen.get((short["scenario"], short["k"], short["variant"], str(short.get("after_failed")), short.get("read_k"), short.get("same_handle")))
            if o == 1 and g != 1:
                ctx.correspondence("check_safe_trace_sym accepted => check_safe_gen accepted (the general relation contains the strict one)", short, 1, g)
            continue
        if kind == "safe_old":
            ok = ctx.correspondence("check_safe_trace_sym(recorded trace of the real append) = true", short, 1, o)
            if not ok and len(ctx.broken) and "trace" not in ctx.broken[-1]:
                ctx.broken[-1]["trace"] = dsfs.trace_json(r["trace"], 200)
        else:
            model = {bytes(k).decode(): dsfs.hashes({"x": bytes(v)})["x"] for k, v in o} if isinstance(o, list) else o
            ctx.correspondence("FS model run(recorded trace) = directory left by the real append", short,
                               dict(sorted(model.items())) if isinstance(model, dict) else model,
                               dict(sorted(dsfs.hashes(r["snap1"]).items())))
    pq.close()
    ctx.extra["strict_safe_trace_on_recorded_traces"] = strict
    ctx.extra["safe_trace_sym_on_recorded_traces"] = sym_info
    ctx.extra["model_trace_vs_recorded_fault_free_trace"] = model_trace
    ctx.notes.append("Ops.append_trace (witness of the relation) equals the recorded fault-free call trace in %d of %d scenarios (information, not an obligation)" % (
        model_trace["equal"], model_trace["equal"] + model_trace["different"]))

    if chk is not None:
        dsfs.coqchk_finish(ctx, chk, "C19")


def replay(rep):
    """Re-execute a recorded (scenario, k, variant) on the real code and report what the property observes."""
    if rep.get("kind") == "no-failing-input-found":
        print(json.dumps(rep, indent=1)[:6000])
        return 1
    C.use_shadow()
    case = rep["case"]
    sc = case["scenario"]
    tmp = tempfile.mkdtemp(prefix="verif-C19-replay-", dir="/tmp")
    try:
        res = run_scenario((sc, tmp, "quick", (case["k"], case["variant"], case.get("after_failed"), case.get("read_k"), case.get("same_handle", False))))
        if res["error"]:
            print(res["error"])
            return 1
        if res.get("setup_failure"):
            print("PROPERTY FAILS in a fault-free append while building the scenario: %s" % json.dumps(res["setup_failure"]))
            return 1
        r = res["runs"][0]
        phase, problems = judge(sc, res, r)
        print("scenario: partition_on=%s, %d old rows in %d files, append of %d rows in %d row groups" % (
            sc["partition_on"], res["nold"], len(res["refs"]), res["nnew"], sc["new_parts"]))
        if r.get("after_failed"):
            print("first an append failing in call %s (%s); judged is the retry%s:" % (tuple(r["after_failed"]) + (" through the SAME ParquetFile handle" if r.get("same_handle") else "",)))
        print("fault: k=%s read-side k=%s variant=%s fired=%s" % (r["k"], r.get("read_k"), r["variant"], r["fired"]))
        print("append: %s" % ("raised " + r["raised"] if r["raised"] else "returned normally"))
        print("fresh open reads: %s %s   (phase: %s)" % (r["read"], r.get("read_detail", ""), phase))
        for sym, text in problems:
            print("PROPERTY FAILS: %s: %s" % (sym, text))
        return 1 if problems else 0
    finally:
        shutil.rmtree(tmp, ignore_errors=True)
