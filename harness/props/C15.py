"""C15 — LIST and MAP columns are assembled into the right per-row lists and dicts (DESIGN.md section 6, C15; notes/C15.md).

Obligations : coq/props/C15.v (spec round trip both ways, page-split theorem for the impl model of _assemble_objects +
              read_col's carried row index, its exact guard, v2 theorems, MAP theorems, struct-nested level fold, the
              full statement for the model of the proposed .pyx repair, refuted theorems for the defects), hygiene,
              .pyx-vs-.c staleness of _assemble_objects, extraction = kernel on 20 sampled commands, coqchk (thorough).
Ties        : (a) direct calls of the real cencoding._assemble_objects on arrays with guard zones against the extracted
              impl model (single calls with arbitrary state; read_col v1 / read_data_page_v2 call sequences over every
              cut of short streams); (b) schema.py level / shape functions and core._nested_levels against their
              models and the spec shapes; (c) nested Parquet files written by the spec-level writer
              (harness/nestedfile.py, levels cross-checked against the proved Coq `shred`), read by
              ParquetFile(...).to_pandas() in a subprocess, compared with the impl model run on the same page
              streams; (d) third-party nested files of the repository's test data through the proved spec decoder.
Oracle      : to_pandas() of every written file equals the generated rows (the property's own text); for third-party
              files: equals assemble_spec of the stored levels and values.
"""
import json
import os
import subprocess
import sys

from harness import common as C
from harness import nestedfile as NF

TRUSTED = [
    "Coq 8.16.1 kernel + coqc (vm_compute for the computed witnesses of the _refuted theorems and the closed Example); no native_compute",
    "extraction: ExtrOcamlBasic only, no Extract Constant; ocaml/driver.ml s-expression I/O (cross-checked on every run: 20 sampled pqref commands re-evaluated by vm_compute in coqc, Example extract_agrees_k)",
    "impl model Impl/CAssemble.v is a hand transcription of cencoding.pyx _assemble_objects and of the call sites in core.py (tie: correspondence on every run, .pyx-vs-.c staleness check)",
    "the spec-level nested file writer harness/nestedfile.py (hybrid RLE / PLAIN / dictionary page payloads written from Encodings.md in Python; shred cross-checked against the proved Coq shred on every file); page headers and footer serialised with fastparquet's own thrift classes (C10)",
    "everything below record assembly when a file is read (level and value decoding, thrift parsing, pandas allocation of the object column) is exercised, not modelled here (C03/C11/C10)",
    "out-of-bounds behaviour of the compiled _assemble_objects is observed through guard zones around the output array (direct calls) and through process crashes (file reads in a subprocess), not proved",
    "Python glue: generators, value <-> index tables, canonicalisation of cells (numpy scalars -> Python), classifier of page splits",
]

SHAPES = [(True, True), (True, False), (False, True), (False, False)]

# VERIF_C15_REPAIRED=1 runs the stream that keeps the proposed .pyx repair validated (stage_pyx_repair) in the quick tier
# too; the thorough tier always runs it.
FX = os.environ.get("VERIF_C15_REPAIRED") == "1"


# ---------------------------------------------------------------------------------------------
# subprocess worker
# ---------------------------------------------------------------------------------------------

class Worker:
    """One subprocess running harness/c15_worker.py.  Every wait has a timeout: a worker that hangs is killed and
    the call returns {"crash": "timeout ..."} (an observation for the caller, never a hung check)."""

    def __init__(self, repo=None):
        self.p = None
        self.crashes = 0
        self.buf = b""
        self.repo = repo or C.REPO

    def _readline(self, timeout):
        import select
        import time
        end = time.time() + timeout
        fd = self.p.stdout.fileno()
        while b"\n" not in self.buf:
            left = end - time.time()
            if left <= 0:
                return None
            r, _, _ = select.select([fd], [], [], min(left, 5.0))
            if not r:
                continue
            chunk = os.read(fd, 1 << 20)
            if not chunk:
                line, self.buf = self.buf, b""
                return line if line.endswith(b"\n") else b""      # EOF: the process is gone
            self.buf += chunk
        line, _, self.buf = self.buf.partition(b"\n")
        return line + b"\n"

    def _kill(self):
        try:
            self.p.kill()
            self.p.wait(timeout=10)
        except Exception:       # noqa
            pass
        self.p = None
        self.buf = b""

    def _start(self):
        env = dict(os.environ)
        env["VERIF_REPO"] = self.repo
        env["PYTHONDONTWRITEBYTECODE"] = "1"
        self.buf = b""
        self.p = subprocess.Popen([C.PY, "-m", "harness.c15_worker"], cwd=C.VERIF, env=env, bufsize=0,
                                  stdin=subprocess.PIPE, stdout=subprocess.PIPE, stderr=subprocess.DEVNULL)
        line = self._readline(600)
        if not line:
            self._kill()
            raise RuntimeError("C15 worker did not start")
        self.ready = json.loads(line)

    def call(self, task, timeout=300):
        if self.p is None or self.p.poll() is not None:
            self._start()
        try:
            self.p.stdin.write((json.dumps(task) + "\n").encode())
            self.p.stdin.flush()
            line = self._readline(timeout)
        except (BrokenPipeError, OSError):
            line = b""
        if line is None:
            self._kill()
            self.crashes += 1
            return {"crash": "timeout after %d s (worker killed)" % timeout}
        if not line:
            try:
                rc = self.p.wait(timeout=30)
            except Exception:       # noqa
                rc = "no exit status"
                self._kill()
            self.p = None
            self.buf = b""
            self.crashes += 1
            return {"crash": rc}
        return json.loads(line)

    def close(self):
        if self.p is not None:
            try:
                self.p.stdin.close()
                self.p.wait(timeout=10)
            except Exception:       # noqa
                self.p.kill()
            self.p = None


def isolated(task):
    """Run one task in a process of its own (known-bad region: the process may die)."""
    w = Worker()
    try:
        return w.call(task)
    finally:
        w.close()


# ---------------------------------------------------------------------------------------------
# generators
# ---------------------------------------------------------------------------------------------

def pool(ptype):
    if ptype == "utf8":
        return ["", "a", "bb", "ccc", "é", "x" * 9, "key", "zz"]
    if ptype == "double":
        return [0.0, 1.5, -2.25, 3.0, 1e10, 7.0, 0.125, -0.5]
    if ptype == "float":
        return [0.0, 1.5, -2.25, 3.0, 1024.0, 7.0, 0.125, -0.5]       # exact in float32
    if ptype == "boolean":
        return [True, False]
    if ptype == "int32":
        return [0, 1, 2, 3, -5, 7, 2147483647, -2147483648]
    return [0, 1, 2, 3, -5, 7, 9, 2 ** 40]


def gen_rows(rng, ro, eo, nrows, maxlen, ptype, p_null_row=0.2, p_empty=0.2, p_null_el=0.3):
    pl = pool(ptype)
    rows = []
    for _ in range(nrows):
        x = rng.random()
        if ro and x < p_null_row:
            rows.append(None)
        elif x < p_null_row + p_empty:
            rows.append([])
        else:
            n = rng.randint(1, maxlen)
            rows.append([None if (eo and rng.random() < p_null_el) else rng.choice(pl) for _ in range(n)])
    return rows


def gen_map_rows(rng, ro, eo, nrows, maxlen, kptype, ptype):
    kp, vp = pool(kptype), pool(ptype)
    rows = []
    for _ in range(nrows):
        x = rng.random()
        if ro and x < 0.2:
            rows.append(None)
        elif x < 0.4:
            rows.append([])
        else:
            n = rng.randint(1, min(maxlen, len(kp)))
            ks = rng.sample(kp, n)
            if n > 1 and rng.random() < 0.15:
                ks[rng.randrange(1, n)] = ks[0]           # a repeated key: dict(zip(k, v)) keeps the LAST value
            rows.append([[k, None if (eo and rng.random() < 0.3) else rng.choice(vp)] for k in ks])
    return rows


def classify_v1_pages(pages, max_def):
    """Which known-bad regions of _assemble_objects does a v1 page sequence touch?
    pages: list of (rep, de).  A page that does not start with rep == 0 continues a row:
      cont_only_page        it holds no rep == 0 at all and is not the last page  (row index shifts)
      null_only_continuation its entries before the first rep == 0 hold no non-null value
    This is exactly the complement of Proofs/CAssembleProofs.v good_split."""
    out = set()
    for k, (rep, de) in enumerate(pages):
        if not rep or rep[0] == 0:
            continue
        if 0 not in rep:
            if k != len(pages) - 1:
                out.add("cont_only_page")
            continue
        first0 = rep.index(0)
        if not any(d == max_def for d in de[:first0]):
            out.add("null_only_continuation")
    return sorted(out)


def row_boundaries(rep):
    return [k for k in range(1, len(rep)) if rep[k] == 0]


# value <-> index tables (the model works on naturals)
class VTable:
    def __init__(self):
        self.t = {}
        self.back = []

    @staticmethod
    def key(v):
        # scalars are keyed by (type, value) (True / 1 / 1.0 stay distinct); anything else by its JSON text
        return (type(v).__name__, v) if isinstance(v, (bool, int, float, str)) else json.dumps(v)

    def idx(self, v):
        k = self.key(v)
        if k not in self.t:
            self.t[k] = len(self.back)
            self.back.append(v)
        return self.t[k]

    def get(self, v):
        return self.t.get(self.key(v), -1)


def m_rows(rows, vt):
    """rows -> s-expression-ready model rows (() = None, (x) = Some x)."""
    return [None if r is None else [[None if e is None else [vt.idx(e)] for e in r]] for r in rows]


def m_rows_back(mr):
    """model rows as parsed from pqref -> Python rows of indices."""
    return [None if r == [] else [None if e == [] else e[0] for e in r[0]] for r in mr]


def i_rows(cells, vt):
    """canonical implementation cells -> rows of indices (or a marker for anything that is not a list)."""
    out = []
    for c in cells:
        if c is None:
            out.append(None)
        elif isinstance(c, list):
            out.append([None if e is None else vt.get(e) for e in c])
        else:
            out.append({"not-a-list": c})
    return out


def m_page(rep, de, vals, vt):
    return [[[r, d] for r, d in zip(rep, de)], [vt.idx(v) for v in vals]]


def m_result(res):
    """pqref (ok X) / (err kind [i]) -> python"""
    if res and res[0] == b"ok":
        return ("ok", res[1])
    if res and res[0] == b"err":
        return ("err", res[1].decode(), res[2] if len(res) > 2 else None)
    if res and res[0] == b"error":
        raise RuntimeError("pqref: %r" % (res,))
    return ("?", res)


def gallina_sx(x):
    """Python value (as sent to / parsed from pqref) -> Gallina term of type Sx.sx"""
    if isinstance(x, bool):
        return "SZ %d%%Z" % (1 if x else 0)
    if isinstance(x, int):
        return "SZ (%d)%%Z" % x
    if isinstance(x, (bytes, bytearray)):
        return "SB [%s]" % "; ".join("%d%%N" % b for b in x)
    if isinstance(x, str):
        return 'S_ "%s"' % x
    if x is None:
        return "SL []"
    return "SL [%s]" % "; ".join(gallina_sx(e) for e in x)


def extraction_agrees(ctx, samples):
    """DESIGN 3.2: the extracted binary and the kernel (vm_compute) agree on sampled commands:
    Example extract_agrees_k : Cmd.run input_k = output_k, output_k = what pqref printed."""
    path = os.path.join(ctx.gen_dir, "ExtractAgreesC15.v")
    with open(path, "w") as f:
        f.write("From Coq Require Import NArith ZArith List String.\n"
                "From Pq Require Import Base.Bytes Extract.Sx Extract.Cmd.\n"
                "Import ListNotations.\nOpen Scope string_scope.\n")
        for k, (cmd, out) in enumerate(samples):
            f.write("Example extract_agrees_%d : Cmd.run (%s) = (%s).\nProof. vm_compute. reflexivity. Qed.\n"
                    % (k, gallina_sx(list(cmd)), gallina_sx(out)))
    ctx.coq_file(path)


# ---------------------------------------------------------------------------------------------
# the check
# ---------------------------------------------------------------------------------------------

def run(ctx):
    C.coq_lib()
    ctx.trusted = TRUSTED
    ctx.coq_file(os.path.join(C.COQ, "props", "C15.v"))
    bad = C.hygiene()
    ctx.obligation("hygiene: no Admitted/Axiom/Parameter/... in coq/", not bad, "; ".join(bad))
    stale = stale_assemble()
    ctx.obligation("cencoding.pyx _assemble_objects is the source embedded in cencoding.c (DESIGN 4.5)", not stale,
                   "source and compiled code differ; the property is shown for the compiled code only: %r" % (stale[:5],))
    if not ctx.quick():
        # thorough tier: the independent checker re-verifies the compiled C15 proof files (DESIGN 4.6)
        rc, out = C.run("ulimit -v 8000000; exec coqchk -silent -o -Q %s Pq Pq.Proofs.CAssembleFixedProofs "
                        "Pq.Proofs.CAssembleV2Proofs Pq.Proofs.NestedMapProofs Pq.Proofs.NestedInvProofs" % os.path.join(C.COQ, "theories"),
                        timeout=1500, cwd=C.COQ)
        ctx.obligation("coqchk -o on the C15 proof files: no axioms, no type-in-type, no assumed positivity / guardedness",
                       rc == 0 and "Axioms: <none>" in out and out.count("<none>") >= 4, out[-1500:])
    C.use_shadow()          # the parent only uses the thrift classes (file writer); all reads/calls happen in workers
    pq = C.Pqref()
    w = Worker()
    rng = ctx.rng
    ctx.rule = ("A: direct calls of _assemble_objects (guard zones) - random single calls with arbitrary array state/prev_i/"
                "levels (also ill-formed), and read_col v1 / read_data_page_v2 call sequences over shredded rows cut at every "
                "position; B: schema level/shape functions on the 4 LIST + 4 MAP shapes and the whole lattice of repetition types; "
                "E: core._nested_levels on every shape x {top level, required struct, optional struct}; D: third-party nested files "
                "of the repository test data (decoded page streams -> spec decoder and impl model vs to_pandas()); C: nested files "
                "(LIST/MAP, required/optional at both levels, optionally inside a struct / next to a flat column / legacy names, "
                "6 value types, PLAIN/dictionary (both ids), v1/v2, none/SNAPPY/GZIP, 1..3 row groups, level streams as "
                "rle/bit-packed/mixed runs, long columns): corpus, lattice = every 1-cut and 2-cut of short streams per shape, "
                "fixed MAP files, then random files; known-bad splits (null-only continuation, continuation-only page) go to a "
                "capped confirmation stream in isolated processes.  trivial = a stream in one page with a single row / an empty "
                "call; distinct = distinct case dicts")
    try:
        stage_schema(ctx, pq, w)
        stage_struct_levels(ctx, pq, w)
        stage_refusal(ctx, pq, w)
        stage_two_level(ctx, pq, w)
        stage_py_dict(ctx, pq)
        stage_fixtures(ctx, pq, w)
        stage_direct(ctx, pq, w)
        stage_files(ctx, pq, w)
        stage_hybrid_spec(ctx, pq)
        if FX or not ctx.quick():
            stage_pyx_repair(ctx, pq)
    finally:
        pq.close()
        w.close()
    ctx.extra["worker_crashes_outside_confirmation_stream"] = w.crashes


def stale_assemble():
    """lines of _assemble_objects whose .pyx text differs from what Cython embedded in the .c file"""
    pyx = os.path.join(C.REPO, "fastparquet", "cencoding.pyx")
    lines = open(pyx, encoding="utf-8").read().split("\n")
    start = end = None
    for i, l in enumerate(lines, 1):
        if l.startswith("def _assemble_objects("):
            start = i
        elif start and end is None and i > start and l and not l[0].isspace() and not l.startswith(")"):
            end = i - 1
    if start is None:
        return [("cencoding", 0, "def _assemble_objects not found", "")]
    return [d for d in C.pyx_vs_c() if d[0] == "cencoding" and (d[1] == 0 or start <= d[1] <= (end or 10 ** 9))]


# ---- B: schema.py --------------------------------------------------------------------------

def stage_schema(ctx, pq, w):
    REQ, OPT, REP = 0, 1, 2
    for kind in ("list", "map"):
        for ro, eo in SHAPES:
            col = dict(name="c", kind=kind, row_opt=ro, elem_opt=eo, ptype="int64", key_ptype="utf8")
            leaves = NF.leaf_columns(col)
            res = w.call({"op": "schema", "cols": [col], "paths": [l["path"] for l in leaves]})
            case = {"stage": "schema", "kind": kind, "row_opt": ro, "elem_opt": eo}
            ctx.case(case)
            if "ok" not in res:
                ctx.fail({"component": "schema", "kind": kind}, case, "schema functions raised: %r" % (res,))
                continue
            for leaf, r in zip(leaves, res["ok"]):
                path_types = [OPT if ro else REQ, REP, OPT if leaf["elem_opt"] else REQ]
                m = pq.call("sch", path_types)               # impl model of schema.py
                s = pq.call("shape_levels", ro, leaf["elem_opt"])   # spec
                impl = [r["max_rep"], r["max_def"], int(r["is_required"]), int(r["null"])]
                ctx.correspondence("sch_max_rep/sch_max_def/sch_is_required ~ schema.py SchemaHelper", {**case, "leaf": leaf["which"]},
                                   [int(x) for x in m], impl)
                problems = []
                if [r["max_rep"], r["max_def"]] != [int(s[0]), int(s[1])]:
                    problems.append("max levels (%d,%d) differ from the specification's (%d,%d)" % (r["max_rep"], r["max_def"], s[0], s[1]))
                if r["null"] != ro:
                    problems.append("null flag %r but the column is %s" % (r["null"], "optional" if ro else "required"))
                if kind == "list" and not (r["is_list_like"] and not r["is_map_like"]):
                    problems.append("standard LIST shape not recognised as list-like")
                if kind == "map" and not (r["is_map_like"] and not r["is_list_like"]):
                    problems.append("standard MAP shape not recognised as map-like")
                if problems:
                    ctx.fail({"component": "schema", "kind": kind, "row_opt": ro, "elem_opt": eo}, {**case, "leaf": leaf["which"], "impl": r},
                             "; ".join(problems))
    # shapes that are NOT the standard one-level LIST / MAP must not be sent through the one-level assembly:
    # the whole lattice of repetition types on the LIST (3 levels) and MAP (top, key_value, key, value) shapes,
    # plus a missing annotation.  LogicalTypes.md: outer group optional|required, middle group repeated, element /
    # value optional|required, key required.  A REPEATED outer group is not a legal LIST/MAP; fastparquet accepts it
    # (max_rep = 2 through a one-level assembly) - outside the property's quantifier, counted, not judged.
    import itertools
    neg = [("list", [[1, "converted_type", None]], "no LIST annotation", True),
           ("map", [[1, "converted_type", None]], "no MAP annotation", True)]
    names = {0: "required", 1: "optional", 2: "repeated"}
    for top, mid, leaf in itertools.product([0, 1, 2], repeat=3):
        std = top != 2 and mid == 2 and leaf != 2
        if not std:
            neg.append(("list", [[1, "repetition_type", top], [2, "repetition_type", mid], [3, "repetition_type", leaf]],
                        "%s LIST { %s group { %s element } }" % (names[top], names[mid], names[leaf]), not (mid == 2 and leaf != 2)))
    for top, mid, k, v in itertools.product([0, 1, 2], repeat=4):
        std = top != 2 and mid == 2 and k == 0 and v != 2
        if not std:
            neg.append(("map", [[1, "repetition_type", top], [2, "repetition_type", mid], [3, "repetition_type", k], [4, "repetition_type", v]],
                        "%s MAP { %s group { %s key, %s value } }" % (names[top], names[mid], names[k], names[v]),
                        not (mid == 2 and k == 0 and v != 2)))
    for kind, mut, what, must_reject in neg:
        col = dict(name="c", kind=kind, row_opt=True, elem_opt=True, ptype="int64", key_ptype="utf8")
        leaves = NF.leaf_columns(col)
        res = w.call({"op": "schema", "cols": [col], "paths": [l["path"] for l in leaves], "mutate": mut})
        case = {"stage": "schema-negative", "kind": kind, "perturbation": what}
        ctx.case(case)
        if "ok" not in res:
            ctx.fail({"component": "schema", "kind": kind, "negative": True}, case, "schema functions raised: %r" % (res,))
            continue
        types = {m[0]: m[2] for m in mut if m[1] == "repetition_type"}
        for leaf, r in zip(leaves, res["ok"]):
            if len(types) >= 3:
                # the level functions of schema.py agree with their model on every combination of repetition types
                pth = [types[1], types[2], types[3] if leaf["which"] != "value" else types[4]]
                m = pq.call("sch", pth)
                ctx.correspondence("sch_max_rep/sch_max_def/sch_is_required ~ schema.py SchemaHelper", {**case, "leaf": leaf["which"]},
                                   [int(x) for x in m], [r["max_rep"], r["max_def"], int(r["is_required"]), int(r["null"])])
        if kind == "list":
            # model of schema._is_list_like (Impl/CShapes.v) on the same facts: 3-name path, annotation, one child each, the two types
            annot = 0 if "annotation" in what else 1
            mid_t, leaf_t = types.get(2, 2), types.get(3, 1)
            for r in res["ok"]:
                ctx.correspondence("is_list_like ~ schema._is_list_like", case, int(pq.call("is_list_like", 3, annot, 1, 1, mid_t, leaf_t)),
                                   int(r["is_list_like"]))
                if len(types) >= 3:
                    ctx.correspondence("refuses ~ max_repetition_level(path) > 1 (the NotImplementedError test of core._nested_levels)", case,
                                       int(pq.call("refuses", [types[1], types[2], types[3]])), int(r["max_rep"] > 1))
        for r in res["ok"]:
            accepted = (kind == "list" and r["is_list_like"]) or (kind == "map" and r["is_map_like"])
            if accepted and must_reject:
                ctx.fail({"component": "schema", "kind": kind, "negative": True}, {**case, "impl": r},
                         "a non-standard shape (%s) is accepted as one-level %s" % (what, kind.upper()))
            elif accepted:
                ctx.count("schema.accepted_nonstandard", what)


# ---- E: core._nested_levels (LIST / MAP groups below a struct group) ----------------------------

def stage_struct_levels(ctx, pq, w):
    for kind in ("list", "map"):
        for ro, eo in SHAPES:
            for st in (None, {"name": "s", "opt": False}, {"name": "s", "opt": True}):
                col = dict(name=("s.c" if st else "c"), kind=kind, row_opt=ro, elem_opt=eo, ptype="int64", key_ptype="utf8")
                if st:
                    col["struct"] = st
                leaves = NF.leaf_columns(col)
                res = w.call({"op": "nested_levels", "cols": [col], "paths": [l["path"] for l in leaves]})
                case = {"stage": "nested-levels", "kind": kind, "row_opt": ro, "elem_opt": eo, "struct": st}
                ctx.case(case)
                if "ok" not in res:
                    ctx.fail({"component": "_nested_levels", "kind": kind}, case, "core._nested_levels raised: %r" % (_trim(res),))
                    continue
                for leaf, r in zip(leaves, res["ok"]):
                    m = pq.call("nested_levels", r["path_types"], r["defi"], r["max_def"])
                    ctx.correspondence("nested_levels ~ core._nested_levels", {**case, "leaf": leaf["which"]},
                                       [bool(int(m[0])), [int(x) for x in m[1]], int(m[2]), "uint8", True],
                                       [r["null"], r["defi_out"], r["max_def_out"], r["dtype"], r["none_passthrough"]])


# ---- H: the proposed .pyx repair stays validated (thorough tier / VERIF_C15_REPAIRED=1) ------------------

PYX_PATCH = [
    ("        __pyx_t_1 = (__pyx_v_vali > 0);\n",
     "        __pyx_t_1 = (PyList_GET_SIZE(__pyx_v_part) > 0);   /* repair: if part: */\n"),
    ("  /*else*/ {\n    __pyx_t_7 = (__pyx_v_i - 1);\n    __pyx_t_9 = (PyObject *) *((PyObject * *) ( /* dim=0 */ (__pyx_v_assign.data + __pyx_t_7 * __pyx_v_assign.strides[0]) ));",
     "  /*else*/ { if (PyList_GET_SIZE(__pyx_v_part) > 0) {   /* repair: if part: */\n    __pyx_t_7 = (__pyx_v_i - 1);\n    __pyx_t_9 = (PyObject *) *((PyObject * *) ( /* dim=0 */ (__pyx_v_assign.data + __pyx_t_7 * __pyx_v_assign.strides[0]) ));"),
    ("    __Pyx_DECREF(__pyx_t_2); __pyx_t_2 = 0;\n  }\n  __pyx_L12:;",
     "    __Pyx_DECREF(__pyx_t_2); __pyx_t_2 = 0;\n  } __pyx_v_i = (__pyx_v_i - 1);   /* repair: return i - 1 */\n  }\n  __pyx_L12:;"),
]


def stage_pyx_repair(ctx, pq):
    """notes/C15.md proposes a patch of cencoding.pyx _assemble_objects (`if part:` instead of `if vali > 0:`; a page
    that starts no row returns i - 1).  It cannot be compiled from the .pyx here, so its C equivalent is applied to a
    scratch copy of the generated cencoding.c, built, and tied to the model of the repaired loop (Impl/CAssembleFixed.v,
    C15_pages_full_repaired): single calls with arbitrary state, and the OLD read_col call shape (row_idx = 1 + returned,
    every page handed to the function) over every cut of the lattice must give the rows."""
    import shutil
    root = os.path.join(ctx.scratch, "repo_pyx_repair")
    shutil.copytree(os.path.join(C.REPO, "fastparquet"), os.path.join(root, "fastparquet"),
                    ignore=shutil.ignore_patterns("*.so", "__pycache__", "test"))
    cpath = os.path.join(root, "fastparquet", "cencoding.c")
    src = open(cpath).read()
    for old, new in PYX_PATCH:
        if src.count(old) != 1:
            ctx.extra["proposed_pyx_repair"] = "skipped: the generated cencoding.c no longer has the expected text"
            return
        src = src.replace(old, new, 1)
    open(cpath, "w").write(src)
    w = Worker(repo=root)
    rng = ctx.rng
    bad = []
    try:
        n1 = 1500
        tasks, cmds, cases = [], [], []
        for _ in range(n1):
            task, args, case = gen_single_call(rng)
            tasks.append(task), cmds.append(("assemble_page_fx",) + args), cases.append(case)
        outs = pq.batch(cmds)
        agree1 = 0
        for task, case, mo in zip(tasks, cases, outs):
            res = w.call(task)
            m = m_result(mo)
            if "crash" in res:
                bad.append({"single": case, "got": "process died"})
                continue
            if m[0] == "ok":
                want = [m_rows_back(m[1][0]), m[1][1]]
                got = [res["arr"], res["ret"] + 1] if (res.get("exc") is None and not res.get("oob_written")) else ["exc/oob", res.get("exc"), res.get("oob_written")]
            else:
                want, got = cmp_direct(m, res, case["n"])
            if want == got:
                agree1 += 1
            else:
                bad.append({"single": case, "model": want, "patched binary": got})
        # old read_col call shape over every cut
        nseq = okseq = 0
        bases = lattice_bases()
        for ro, eo in SHAPES:
            _, _, max_def = NF.levels_of_shape(ro, eo)
            for rows in bases[(ro, eo)]:
                rep, de, vals = NF.shred(rows, ro, eo)
                L = len(rep)
                for cuts in [[]] + [[a] for a in range(1, L)] + [[a, b] for a in range(1, L) for b in range(a + 1, L)]:
                    pages = NF.chunk_pages(rep, de, vals, max_def, cuts)
                    vt = VTable()
                    task = {"op": "seq", "mode": "v1", "n": len(rows), "guard": L + 4, "arr": None, "null": ro, "max_defi": max_def,
                            "pages": [{"rep": p[0], "def": (None if all(d == max_def for d in p[1]) else p[1]),
                                       "vals": [vt.idx(x) for x in p[2]], "num_rows": p[3]} for p in pages]}
                    res = w.call(task)
                    want_rows = [None if r is None else [None if e is None else vt.idx(e) for e in r] for r in rows]
                    nseq += 1
                    if res.get("exc") is None and not res.get("oob_written") and res.get("arr") == want_rows:
                        okseq += 1
                    else:
                        bad.append({"rows": rows, "cuts": cuts, "patched binary": res})
    finally:
        w.close()
    ctx.extra["proposed_pyx_repair"] = {"single_calls_agree_with_repaired_model": "%d/%d" % (agree1, n1),
                                        "old_read_col_call_shape_every_cut_gives_rows": "%d/%d" % (okseq, nseq),
                                        "first_disagreements": bad[:3]}
    ctx.obligation("proposed .pyx repair: the C equivalent built from a scratch cencoding.c agrees with Impl/CAssembleFixed.v and assembles every cut",
                   not bad, json.dumps(bad[:3], default=repr)[:1500])


def gen_single_call(rng):
    """one call of _assemble_objects with arbitrary array state / prev_i / levels (ill-formed included)"""
    n = rng.randint(1, 4)
    null = rng.random() < 0.5
    max_defi = rng.choice([1, 2, 2, 3, 3])
    arr = []
    for _k in range(n):
        x = rng.random()
        arr.append(None if x < 0.35 else [rng.choice([None, 1, 2, 3]) for _j in range(rng.randint(0, 3))])
    prev_i = rng.choice([0, 0, 1, 1, 2, n, n + 1])
    ne = rng.choice([0, 1, 1, 2, 3, 4, 5, 8])
    rep = [0 if rng.random() < 0.45 else 1 for _k in range(ne)]
    if rng.random() < 0.6 and ne and prev_i == 0:
        rep[0] = 0
    de = [rng.randint(0, max_defi) if rng.random() < 0.8 else max_defi for _k in range(ne)]
    nv = sum(1 for d in de if d == max_defi)
    vals = [rng.randint(0, 9) for _k in range(nv)]
    if vals and rng.random() < 0.07:
        vals = vals[:-1]                    # one value short: IndexError expected
    defi = None if (ne and all(d == max_defi for d in de) and rng.random() < 0.7) else de
    task = {"op": "seq", "mode": "one", "n": n, "guard": ne + 4, "arr": arr, "null": null, "max_defi": max_defi,
            "prev_i": prev_i, "pages": [{"rep": rep, "def": defi, "vals": vals}]}
    m_arr = [None if r is None else [[None if e is None else [e] for e in r]] for r in arr]
    args = (null, max_defi, m_arr, prev_i, [[[r, d] for r, d in zip(rep, de)], vals])
    case = {"stage": "direct-one", "n": n, "null": null, "max_defi": max_defi, "arr": arr, "prev_i": prev_i,
            "rep": rep, "def": de, "defi_none": defi is None, "vals": vals}
    return task, args, case


# ---- G: Python's dict(pairs) against the model py_dict ---------------------------------------------

def stage_py_dict(ctx, pq):
    rng = ctx.rng
    cmds, cases = [], []
    for _ in range(200):
        n = rng.randint(0, 8)
        pairs = [[rng.randint(0, 4), rng.randint(0, 9)] for _k in range(n)]
        cmds.append(("py_dict", pairs))
        cases.append(pairs)
    outs = pq.batch(cmds)
    for pairs, o in zip(cases, outs):
        case = {"stage": "py-dict", "pairs": pairs}
        ctx.case(case, trivial=len(pairs) < 2)
        real = [[k, v] for k, v in dict((k, v) for k, v in pairs).items()]
        ctx.correspondence("py_dict ~ Python dict(pairs) (iteration order, last value wins)", case, [[int(a), int(b)] for a, b in o], real)
        ctx.correspondence("harness py_dict_items ~ Python dict(pairs)", case, py_dict_items(pairs), real)


# ---- F: files the one-level reader cannot represent: it must refuse, not mis-assemble ------------------

def stage_refusal(ctx, pq, w):
    lay1 = dict(cuts=[], version=1, dictionary=False, level_style="mixed", codec=None)
    rows = [[1, None], None, [], [2, 3]]
    cases = []
    # (a) LIST / MAP below a REPEATED group: two repetition levels
    for kind in ("list", "map"):
        col = dict(name="r.c", kind=kind, row_opt=True, elem_opt=True, ptype="int64", key_ptype="utf8",
                   structs=[{"name": "r", "opt": False, "rep": True}])
        r = rows if kind == "list" else [[["a", 1], ["b", None]], None, [], [["c", 3]]]
        layout = {"r.c/elem": lay1} if kind == "list" else {"r.c/key": lay1, "r.c/value": lay1}
        cases.append(("%s below a repeated group (max repetition level 2)" % kind.upper(), col, r, layout, ["NotImplementedError"]))
        col2 = dict(name="c", kind=kind, row_opt=True, elem_opt=True, ptype="int64", key_ptype="utf8", top_rep=True)
        layout2 = {"c/elem": lay1} if kind == "list" else {"c/key": lay1, "c/value": lay1}
        cases.append(("%s group itself declared repeated (max repetition level 2)" % kind.upper(), col2, r, layout2, ["NotImplementedError"]))
    # (a') nested collections of depth 2: LIST<LIST<int64>> and LIST<MAP<utf8, int64>> (C15_nested_collection_refused)
    for kind in ("list", "map"):
        col = dict(name="a.list.element", kind=kind, row_opt=True, elem_opt=True, ptype="int64", key_ptype="utf8",
                   structs=[{"name": "a", "opt": True, "annot": "LIST"}, {"name": "list", "opt": False, "rep": True}])
        r = rows if kind == "list" else [[["a", 1], ["b", None]], None, [], [["c", 3]]]
        layout = {"a.list.element/elem": lay1} if kind == "list" else {"a.list.element/key": lay1, "a.list.element/value": lay1}
        cases.append(("LIST<%s> (nested collection of depth 2)" % ("LIST<int64>" if kind == "list" else "MAP<utf8, int64>"), col, r, layout,
                      ["NotImplementedError"]))
    # (b) a v2 page that starts inside a row (v2 pages hold whole rows)
    col = dict(name="c", kind="list", row_opt=True, elem_opt=True, ptype="int64")
    for dictionary in (False, True):
        cases.append(("DataPageV2 cut inside a row", col, rows, {"c/elem": dict(lay1, version=2, cuts=[1], dictionary=dictionary)}, ["ValueError"]))
    # (c) the chunk's first v1 page starts inside a row (stream does not begin with rep = 0): written by dropping the first entry
    for name, col, r, layout, want in cases:
        path = os.path.join(ctx.scratch, "refuse.parquet")
        case = {"stage": "refusal", "what": name, "cols": [col], "rgs": [{"rows": {col["name"]: r}, "layout": layout}]}
        ctx.case(case)
        NF.write_file(path, [col], case["rgs"])
        res = isolated({"op": "read", "path": path, "cols": [col["name"]]})
        exc = str(res.get("exc", ""))
        absent = isinstance(res.get("ok"), dict) and res["ok"].get(col["name"]) == "missing column"
        ctx.count("refusal.outcome", "%s -> %s" % (name, "column not exposed by to_pandas()" if absent else
                                                     (exc.split(":")[0] if exc else ("crash" if "crash" in res else "rows returned"))))
        if not absent and not any(exc.startswith(x) for x in want):
            ctx.fail({"component": "refusal", "what": name}, {**case, "replay": {"kind": "file"}},
                     "a file the one-level assembly cannot represent was not refused: %s" % _trim(res))


# ---- two-level legacy lists (LogicalTypes.md backward-compatibility rule 1): a LIST<required primitive> whose repeated field is
# the element itself.  schema._is_list_like recognises only the three-level shape: the column is exposed, never read, and every
# row comes back None (C15_two_level_list_refuted; open finding) - small confirmation stream, both outer repetition types ----

def stage_two_level(ctx, pq, w):
    for ro in (True, False):
        for ptype in ("int64", "utf8"):
            pl = pool(ptype)
            col = dict(name="c", kind="list", row_opt=ro, elem_opt=False, ptype=ptype, legacy2=True)
            rows = [[pl[1], pl[2]], None if ro else [], [], [pl[3]], [pl[0], pl[1], pl[2]]]
            lay = dict(cuts=[2], version=1, dictionary=False, level_style="mixed", codec=None)
            case = {"stage": "two-level-list", "cols": [col], "rgs": [{"rows": {"c": rows}, "layout": {"c/elem": lay}}], "replay": {"kind": "file"}}
            ctx.case(case)
            path = os.path.join(ctx.scratch, "two-level.parquet")
            NF.write_file(path, [col], case["rgs"])
            sres = w.call({"op": "schema", "cols": [col], "paths": [NF.leaf_columns(col)[0]["path"]]})
            if "ok" in sres:
                ctx.correspondence("is_list_like ~ schema._is_list_like", {"stage": "two-level-list", "row_opt": ro},
                                   int(pq.call("is_list_like", 2, 1, 1, 0, 2, 2)), int(sres["ok"][0]["is_list_like"]))
            res = isolated({"op": "read", "path": path, "cols": ["c"]})
            want = {"c": expected_cells(col, rows)}
            ctx.count("two_level_list.outcome", "rows" if res.get("ok") == want else
                      ("all None" if isinstance(res.get("ok"), dict) and res["ok"].get("c") == [None] * len(rows) else _trim(res)[:60]))
            if res.get("ok") != want:
                ctx.fail({"component": "read nested column", "shape": "two-level-list", "row_opt": ro,
                          "outcome": "all-none" if (isinstance(res.get("ok"), dict) and res["ok"].get("c") == [None] * len(rows)) else "other"},
                         case, "a two-level LIST<required %s> (legal, older writers) reads as %s, rows written %s" % (ptype, _trim(res)[:300], json.dumps(rows)))


# ---- D: nested files written by others (repository test data) --------------------------------

FIXTURES = ["map_array.parq", "map-test.snappy.parquet", "test-map-last-row-split.parquet", "nested.parq",
            "nested1.parquet", "datapage_v2.snappy.parquet", "repeated_no_annotation.parquet"]


def stage_fixtures(ctx, pq, w):
    """Third-party nested files: the page streams (levels, dereferenced values) as fastparquet's own page reader
    decodes them -> proved spec decoder assemble_spec (what the rows ARE) and impl model run_v1 (what the loop does)
    against ParquetFile.to_pandas().  Only v1 chunks of the three-level LIST / MAP shapes at top level."""
    for fn in FIXTURES:
        if ctx.quick() and fn == "map-test.snappy.parquet":
            continue        # 2 x 190 000 entries; the quick tier keeps the sibling file whose last row is split across pages
        path = os.path.join(C.REPO, "test-data", fn)
        if not os.path.exists(path):
            ctx.count("fixture.missing", fn)
            continue
        res = w.call({"op": "fixture", "path": path})
        case0 = {"stage": "fixture", "file": fn}
        if "ok" not in res:
            ctx.case(case0)
            ctx.fail({"component": "fixture", "file": fn}, case0, "reading the fixture failed: %r" % (_trim(res),))
            continue
        starts = [0]
        for n in res["row_groups"]:
            starts.append(starts[-1] + n)
        leaves = {}
        for rec in res["ok"]:
            pt = rec["path_types"]
            in_struct = len(pt) > 3 and all(t != 2 for t in pt[:-3])       # LIST/MAP group below struct groups
            if rec["skipped"] or len(pt) < 3 or pt[-2] != 2 or pt[-3] == 2 or pt[-1] == 2 or rec["max_rep"] != 1 \
                    or (len(pt) > 3 and not in_struct):
                ctx.count("fixture.leaf_skipped", "%s:%s (%s)" % (fn, ".".join(rec["path"]), rec["skipped"] or "not a one-level LIST/MAP leaf (top level or below structs)"))
                continue
            ro, eo = pt[-3] == 1, pt[-1] == 1
            vt = VTable()
            mp, ents, vals = [], [], []
            for pg in rec["pages"]:
                rep = pg["rep"]
                de = pg["def"] if pg["def"] is not None else [rec["max_def"]] * len(rep)
                if in_struct:
                    nl = pq.call("nested_levels", pt, de, rec["max_def"])      # model of core._nested_levels
                    ro, de = bool(int(nl[0])), [int(x) for x in nl[1]]
                mp.append(m_page(rep, de, pg["vals"], vt))
                ents += [[r, d] for r, d in zip(rep, de)]
                vals += [vt.idx(v) for v in pg["vals"]]
            n = rec["num_rows"]
            spec = pq.call("assemble_spec", ro, eo, ents, vals)
            if rec["pages"] and all(pg.get("v2") for pg in rec["pages"]):
                mp2 = [[p, pg["num_rows"]] for p, pg in zip(mp, rec["pages"])]
                model = m_result(pq.call("run_v2", False, ro, eo, n, mp2))
                guard = [bool(int(x)) for x in pq.call("v2_guard", ro, eo, mp2)]
            elif any(pg.get("v2") for pg in rec["pages"]):
                ctx.count("fixture.leaf_skipped", "%s:%s (v1 and v2 pages in one chunk)" % (fn, ".".join(rec["path"])))
                continue
            else:
                model = m_result(pq.call("run_v1_py", ro, eo, n, mp))
                guard = [bool(int(x)) for x in pq.call("split_guard", ro, eo, mp)]
            case = {**case0, "rg": rec["rg"], "leaf": ".".join(rec["path"]), "pages": len(mp), "entries": len(ents), "rows": n}
            ctx.case(case)
            ctx.count("fixture.leaf", "%s:%s pages=%d good_split=%s" % (fn, ".".join(rec["path"]), len(mp), guard))
            if spec == []:
                ctx.fail({"component": "fixture", "file": fn, "what": "stream rejected by the spec decoder"}, case,
                         "the decoded level/value stream is not a valid one-level stream for this shape")
                continue
            srows = [[None if e is None else vt.back[e] for e in r] if r is not None else None for r in m_rows_back(spec[0])]
            mrows = None
            if model[0] == "ok":
                mrows = [[None if e is None else vt.back[e] for e in r] if r is not None else None for r in m_rows_back(model[1])]
            leaves[(rec["rg"], rec["name"], rec["leaf"])] = (rec["kind"], srows, mrows, case, guard)
        # compare per column and row group
        done = set()
        for (gi, name, leaf), (kind, srows, mrows, case, guard) in sorted(leaves.items()):
            if (gi, name) in done:
                continue
            cells = res["cells"].get(name)
            got = cells[starts[gi]:starts[gi + 1]] if isinstance(cells, list) else cells
            if kind == "list":
                want, pred = srows, mrows
            else:
                k, v = leaves.get((gi, name, "key")), leaves.get((gi, name, "value"))
                if k is None or v is None:
                    continue

                def zipd(ks, vs):
                    if ks is None or vs is None:
                        return None
                    out = []
                    for a, b in zip(ks, vs):
                        if a is None:
                            out.append(None)
                        else:
                            d = {}
                            for x, y in zip(a, b):          # Python dict semantics of dict(zip(k, v))
                                d[json.dumps(x)] = [x, y]
                            out.append({"dict": list(d.values())})
                    return out
                want, pred = zipd(k[1], v[1]), zipd(k[2], v[2])
                guard = [k[4][0] and v[4][0], k[4][1] and v[4][1]]
            done.add((gi, name))
            ccase = {**case, "column": name}
            ccase.pop("leaf", None)
            if pred is not None:
                ctx.correspondence("run_v1 / run_v2 (+ dict(zip)) on the decoded page streams of a third-party file ~ to_pandas()", ccase,
                                   sha_cells(pred), sha_cells(got))
            if guard == [True, True]:
                ctx.correspondence("model on a good split = assemble_spec of the stream (instance of C15_pages_partial / C15_v2_pages_whole, third-party file)",
                                   ccase, sha_cells(pred), sha_cells(want))
            if got != want:
                bad = [i for i in range(min(len(got), len(want))) if got[i] != want[i]][:3] if isinstance(got, list) else []
                ctx.fail({"component": "fixture", "file": fn, "good_split": guard[1]}, {**ccase, "replay": {"kind": "fixture"}},
                         "to_pandas() differs from record assembly of the stored levels/values at rows %r: got %s, assembly gives %s" % (
                             bad, json.dumps([got[i] for i in bad])[:400] if bad else _trim(got)[:300],
                             json.dumps([want[i] for i in bad])[:400]))


def sha_cells(cells):
    """big columns are compared by digest (keeps the evidence small)"""
    s = json.dumps(cells, sort_keys=False)
    return cells if len(s) < 2000 else {"sha256": C.sha(s), "rows": len(cells) if isinstance(cells, list) else None}


# ---- A: direct calls -----------------------------------------------------------------------

def cmp_direct(model, impl, n):
    """canonical comparison of a model result with what the real call did (see c15_worker.do_seq)."""
    if model[0] == "ok":
        want = model[1]
        got = None
        if impl.get("exc") is None and not impl.get("oob_written"):
            got = impl["arr"]
        return want, got
    # errors: the model stops at the first fault; the compiled code goes on after an out-of-bounds write
    kind, i = model[1], model[2]
    if kind == "oob_write":
        ow = [k for k in impl.get("oob_written", []) if k >= n]
        return ["oob_write", i], (["oob_write", min(ow)] if ow else ["no oob write", impl.get("exc"), impl.get("arr")])
    return [kind], ([impl.get("exc")] if not impl.get("oob_written") else ["oob_write first", impl.get("oob_written")])


def stage_direct(ctx, pq, w):
    rng = ctx.rng
    # ---- A1: single calls, arbitrary state --------------------------------------------------
    n1 = 1000 if ctx.quick() else 20000
    tasks, cmds, cases = [], [], []
    for _ in range(n1):
        task, args, case = gen_single_call(rng)
        cmds.append(("assemble_page",) + args)
        tasks.append(task)
        cases.append(case)
    outs = pq.batch(cmds)
    for task, case, mo in zip(tasks, cases, outs):
        res = w.call(task)
        ctx.case(case, trivial=(len(case["rep"]) == 0))
        m = m_result(mo)
        ctx.count("direct.model_outcome", m[0] if m[0] == "ok" else m[1])
        if "crash" in res:
            ctx.correspondence("assemble_page ~ cencoding._assemble_objects (single call, any state)", case, repr(m), "process died rc=%r" % res["crash"])
            continue
        if m[0] == "ok":
            want = [m_rows_back(m[1][0]), m[1][1]]
            # the repaired model returns what read_col stores (1 + the returned int, which may be -1)
            got = [res["arr"], res["ret"]] if (res.get("exc") is None and not res.get("oob_written")) else \
                  ["exc/oob", res.get("exc"), res.get("oob_written")]
        else:
            want, got = cmp_direct(m, res, case["n"])
        ctx.correspondence("assemble_page ~ cencoding._assemble_objects (single call, any state)", case, want, got)

    # ---- A2: call sequences of read_col (v1) and read_data_page_v2 over shredded rows, every cut ------
    bases = lattice_bases()
    seq_cases = []
    for ro, eo in SHAPES:
        for rows in bases[(ro, eo)]:
            rep, de, vals = NF.shred(rows, ro, eo)
            L = len(rep)
            cutsets = [[]] + [[a] for a in range(1, L)] + [[a, b] for a in range(1, L) for b in range(a + 1, L)]
            if not ctx.quick():
                cutsets += [[a, b, c] for a in range(1, L) for b in range(a + 1, L) for c in range(b + 1, L)]
            for cuts in cutsets:
                seq_cases.append((ro, eo, rows, cuts, 1))
            rb = row_boundaries(rep)
            for cuts in [[]] + [[a] for a in rb] + [[a, b] for a in rb for b in rb if a < b]:
                seq_cases.append((ro, eo, rows, cuts, 2))
    # random longer ones
    for _ in range(400 if ctx.quick() else 10000):
        ro, eo = rng.choice(SHAPES)
        rows = gen_rows(rng, ro, eo, rng.randint(1, 6), 5, "int64")
        rep, de, vals = NF.shred(rows, ro, eo)
        L = len(rep)
        v = rng.choice([1, 1, 2])
        cand = list(range(1, L)) if v == 1 else row_boundaries(rep)
        cuts = sorted(rng.sample(cand, min(len(cand), rng.choice([0, 1, 2, 3, 4]))))
        seq_cases.append((ro, eo, rows, cuts, v))
    cmds, metas = [], []
    for ro, eo, rows, cuts, v in seq_cases:
        _, _, max_def = NF.levels_of_shape(ro, eo)
        rep, de, vals = NF.shred(rows, ro, eo)
        pages = NF.chunk_pages(rep, de, vals, max_def, cuts)
        vt = VTable()
        mp = [m_page(r, d, vv, vt) for (r, d, vv, _) in pages]
        if v == 1:
            cmds.append(("run_v1", ro, eo, len(rows), mp))
        else:
            cmds.append(("run_v2", False, ro, eo, len(rows), [[p, nr] for p, (_, _, _, nr) in zip(mp, pages)]))
        cmds.append(("shred", ro, eo, m_rows(rows, vt)))
        if v == 1:
            cmds.append(("split_guard", ro, eo, mp))
        else:
            cmds.append(("v2_guard", ro, eo, [[p, nr] for p, (_, _, _, nr) in zip(mp, pages)]))
        metas.append((ro, eo, rows, cuts, v, pages, vt, max_def))
    outs = pq.batch(cmds)
    small = [k for k in range(len(cmds)) if len(json.dumps(cmds[k], default=repr)) < 400]
    extraction_agrees(ctx, [(cmds[k], outs[k]) for k in sorted(rng.sample(small, min(20, len(small))))])
    conf_budget = {}
    for k, (ro, eo, rows, cuts, v, pages, vt, max_def) in enumerate(metas):
        m = m_result(outs[3 * k])
        sh = outs[3 * k + 1]
        guard = [bool(int(x)) for x in outs[3 * k + 2]]
        rep, de, vals = NF.shred(rows, ro, eo)
        case = {"stage": "direct-seq", "version": v, "row_opt": ro, "elem_opt": eo, "rows": rows, "cuts": cuts}
        ctx.case(case, trivial=(len(rows) == 1 and not cuts))
        # the proved Coq shred and the writer's Python shred agree (so files are written from proved levels)
        ctx.correspondence("Coq shred ~ harness/nestedfile.shred", case,
                           [[list(map(int, e)) for e in sh[0]], [int(x) for x in sh[1]]],
                           [[[r, d] for r, d in zip(rep, de)], [vt.idx(x) for x in vals]])
        classes = classify_v1_pages([(p[0], p[1]) for p in pages], max_def) if v == 1 else []
        if v == 2:
            # the v2 pages the harness cuts (row boundaries, num_rows = rows starting in the page) satisfy the
            # hypotheses of C15_v2_pages_whole
            ctx.correspondence("Coq pages_aligned/v2_cut_ok (hypotheses of C15_v2_pages_whole) hold for the v2 pages generated", case,
                               guard, [True, True])
        if v == 1:
            # the harness classifier of known-bad splits is the complement of the theorem's guard
            ctx.correspondence("Coq pages_aligned/good_split (hypotheses of C15_pages_partial) ~ harness split classifier", case,
                               guard, [True, not classes])
        ctx.count("seq.split_class", ",".join(classes) or ("row-boundary" if all(p[0][0] == 0 for p in pages) else "inside-row, non-null continuation"))
        task = {"op": "seq", "mode": "v1" if v == 1 else "v2", "n": len(rows), "guard": len(rep) + 4, "arr": None, "null": ro,
                "max_defi": max_def,
                "pages": [{"rep": p[0], "def": (None if all(d == max_def for d in p[1]) else p[1]),
                           "vals": [vt.idx(x) for x in p[2]], "num_rows": p[3]} for p in pages]}
        res = w.call(task)
        want_rows = [None if r is None else [None if e is None else vt.idx(e) for e in r] for r in rows]
        if "crash" in res:
            ctx.correspondence("run_v%d ~ _assemble_objects call sequence" % v, case, repr(m), "process died rc=%r" % res["crash"])
            continue
        if m[0] == "ok":
            want = m_rows_back(m[1])
            got = res["arr"] if (res.get("exc") is None and not res.get("oob_written")) else ["exc/oob", res.get("exc"), res.get("oob_written")]
        else:
            want, got = cmp_direct(m, res, len(rows))
        ctx.correspondence("run_v%d ~ _assemble_objects call sequence (read_col / read_data_page_v2 shape)" % v, case, want, got)
        if classes:
            # the guard is exact (C15_pages_exact): outside it the model never returns the rows
            ctx.count("seq.model_outside_guard", "wrong rows" if m[0] == "ok" else "fault:" + str(m[1]))
            ctx.correspondence("model outside the guard never returns the rows (instance of C15_pages_exact)", case,
                               (m[0] == "ok" and m_rows_back(m[1]) == want_rows), False)
        # theorem instance: on a good split the model returns the rows
        if not classes:
            ctx.correspondence("model on a good split = rows (instance of C15_pages_partial)", case,
                               m_rows_back(m[1]) if m[0] == "ok" else repr(m), want_rows)
        # property oracle on the real function
        ok = res.get("exc") is None and not res.get("oob_written") and res["arr"] == want_rows
        if classes:
            # a page that starts inside a row handed to the bare function: outside its (proved exact) guard; read_col does
            # not do that any more (fix 23664ac), so this is no failure of the property - it is counted
            ctx.count("seq.function_outside_guard", "wrong rows or fault" if not ok else "rows")
        elif not ok:
            cls = {"component": "_assemble_objects", "page_version": v, "split": ",".join(classes) or "good", "level": "direct"}
            ctx.fail(cls, {**case, "replay": {"kind": "seq", "task": task, "want": want_rows}},
                     "direct call sequence: got %r (exc=%r, out-of-bounds writes at %r), rows are %r" % (
                         res.get("arr"), res.get("exc"), res.get("oob_written"), want_rows))


def lattice_bases():
    """short row sets per shape whose every cut is enumerated (stream length <= 7)"""
    out = {}
    for ro, eo in SHAPES:
        N = None
        b = [
            [[1, 2, 3], [4]],
            [[1], [2, 3, 4], [5]],
            [[], [1, 2], [], [3]],
            [[1, 2, 3, 4, 5]],
        ]
        if eo:
            b += [[[N, N, N], [7]], [[1, N, 2], [N], [3]], [[N, 1], [2, N, N], []]]
        if ro:
            b += [[N, [1, 2], N, [3]], [[1, 2], N, N, [3, 4]]]
        if ro and eo:
            b += [[[N], N, [], [N, 1, N]]]
        out[(ro, eo)] = b
    return out


# ---- C: files ------------------------------------------------------------------------------

def expected_cells(col, rows):
    if col["kind"] == "flat":
        return [{"scalar": repr(v)} for v in rows]
    if col["kind"] == "list":
        return [None if NF.is_struct_null(r) else r for r in rows]
    return [None if (r is None or NF.is_struct_null(r)) else {"dict": py_dict_items(r)} for r in rows]


def py_dict_items(pairs):
    """items of dict(pairs) in iteration order (keys at their first occurrence, last value wins) - the semantics proved for
    the Coq py_dict (C15_dict_last_wins / C15_dict_keys_first_occurrence) and tied to Python's dict in stage G"""
    d = {}
    for k, v in pairs:
        kk = json.dumps(k)
        d[kk] = [d[kk][0] if kk in d else k, v]
    return list(d.values())


def file_case_classes(case):
    """known-bad regions touched by a file case (computed from the page structure, not from the model)"""
    classes = set()
    if True:
        # since the read_col fix (leading continuation appended in Python) every cut must read correctly from a file;
        # the two .pyx defects remain reachable only by calling _assemble_objects directly (stage A)
        return []
    for rg in case["rgs"]:
        for c in case["cols"]:
            for leaf in NF.leaf_columns(c):
                lay = rg["layout"][c["name"] + "/" + leaf["which"]]
                if lay["version"] != 1 or leaf["which"] == "flat":
                    continue
                lrows = NF.leaf_rows(c, leaf, rg["rows"][c["name"]])
                rep, de, vals = NF.shred_leaf(lrows, leaf)
                max_def = NF.max_def_leaf(leaf)
                pages = NF.chunk_pages(rep, de, vals, max_def, lay["cuts"])
                classes.update(classify_v1_pages([(p[0], p[1]) for p in pages], max_def))
    return sorted(classes)


def model_file(pq, case, written):
    """Run the impl model on the page streams of every leaf; returns per column the predicted cells
    (index space) or an error marker, plus the value tables."""
    cmds, idx = [], []
    vts = {}
    for gi, (rg, wrg) in enumerate(zip(case["rgs"], written)):
        for leaf in wrg:
            if leaf["which"] == "flat":
                continue            # no assembly: only the oracle looks at flat columns
            vt = vts.setdefault((leaf["col"], leaf["which"]), VTable())
            n = len(rg["rows"][leaf["col"]])
            ro_call = leaf["row_opt"]
            pages = leaf["pages"]
            if leaf.get("struct_opts") is not None:
                # LIST / MAP group below structs: the call parameters and levels read_col derives (model of _nested_levels)
                pt = [1 if o else 0 for o in leaf["struct_opts"]] + [1 if leaf["row_opt"] else 0, 2, 1 if leaf["elem_opt"] else 0]
                folded = []
                for (r, d, v) in pages:
                    nl = pq.call("nested_levels", pt, d, leaf["max_def"])
                    ro_call = bool(int(nl[0]))
                    folded.append((r, [int(x) for x in nl[1]], v))
                pages = folded
            mp = [m_page(r, d, v, vt) for (r, d, v) in pages]
            if leaf["version"] == 1:
                cmds.append(("run_v1_py", ro_call, leaf["elem_opt"], n, mp))
            else:
                # read_data_page_v2's branch for this leaf's pages (model of the if/elif chain): record assembly?
                br = pq.call("v2_branch", False, 1, 8 if leaf["dictionary"] else 0)
                if br != b"assemble":
                    cmds.append(("run_v2", False, ro_call, leaf["elem_opt"], 0, [[mp[0], 1]]))   # -> model error
                else:
                    cmds.append(("run_v2", False, ro_call, leaf["elem_opt"], n,
                                 [[p, sum(1 for x in r if x == 0)] for p, (r, _, _) in zip(mp, leaf["pages"])]))
            idx.append((gi, leaf["col"], leaf["which"]))
    outs = pq.batch(cmds) if len(cmds) > 3 else [pq.call(*c) for c in cmds]
    res = {}
    for (gi, col, which), o in zip(idx, outs):
        m = m_result(o)
        res[(gi, col, which)] = m_rows_back(m[1]) if m[0] == "ok" else {"model-error": [m[1], m[2]]}
    return res, vts


def predicted_cells(case, mres, vts):
    """model prediction of to_pandas() per column: lists of indices / dict items of indices"""
    out = {}
    for c in case["cols"]:
        cells = []
        if c["kind"] == "flat":
            out[c["name"]] = expected_cells(c, [r for rg in case["rgs"] for r in rg["rows"][c["name"]]])
            continue
        for gi, rg in enumerate(case["rgs"]):
            if c["kind"] == "list":
                r = mres[(gi, c["name"], "elem")]
                if isinstance(r, dict):
                    return None
                cells += r
            else:
                ks, vs = mres[(gi, c["name"], "key")], mres[(gi, c["name"], "value")]
                if isinstance(ks, dict) or isinstance(vs, dict):
                    return None
                for k, v in zip(ks, vs):
                    if k is None:
                        cells.append(None)
                    elif v is None:
                        return None             # dict(zip(k, None)) raises
                    else:
                        cells.append({"dict": py_dict_items(list(zip(k, v)))})     # zip_maps of the model, then dict()
        out[c["name"]] = cells
    return out


def impl_cells_idx(case, cells, vts):
    out = {}
    for c in case["cols"]:
        col = cells.get(c["name"])
        if not isinstance(col, list) or c["kind"] == "flat":
            out[c["name"]] = col
            continue
        if c["kind"] == "list":
            out[c["name"]] = i_rows(col, vts[(c["name"], "elem")])
        else:
            kt, vt = vts[(c["name"], "key")], vts[(c["name"], "value")]
            o = []
            for x in col:
                if x is None:
                    o.append(None)
                elif isinstance(x, dict) and "dict" in x:
                    o.append({"dict": [[kt.get(k), None if v is None else vt.get(v)] for k, v in x["dict"]]})
                else:
                    o.append({"not-a-dict": x})
            out[c["name"]] = o
    return out


HYB_SAMPLES = []


def write_case(case, path):
    NF.LEVEL_LOG = []
    try:
        return NF.write_file(path, case["cols"], case["rgs"])
    finally:
        if len(HYB_SAMPLES) < 4000:
            HYB_SAMPLES.extend(NF.LEVEL_LOG[:6])
        NF.LEVEL_LOG = None


def stage_hybrid_spec(ctx, pq):
    """the level / dictionary-index streams the spec-level writer put into the files are exactly what the proved spec
    encoder Codec/Hybrid.v hyb_enc (round trip hyb_roundtrip) produces for the same runs"""
    rng = ctx.rng
    picks = HYB_SAMPLES if len(HYB_SAMPLES) <= 600 else rng.sample(HYB_SAMPLES, 600)
    outs = pq.batch([("hyb_enc", w, [[r[0], r[1], r[2]] if r[0] == "rle" else [r[0], list(r[1])] for r in runs]) for (w, runs, b) in picks])
    for (w, runs, b), o in zip(picks, outs):
        case = {"stage": "hybrid-spec", "width": w, "runs": runs if len(json.dumps(runs)) < 300 else {"n_runs": len(runs)}}
        ctx.case(case)
        ctx.correspondence("Coq hyb_enc (spec, proved round trip) ~ harness/nestedfile.hybrid bytes in the written files", case,
                           o.hex() if isinstance(o, (bytes, bytearray)) else repr(o), b.hex())
    # and the spec DEcoder on the written bytes gives the levels back (instance of C15_page_payload_v1/_v2)
    sub = picks[:150]
    flat = [[v for r in runs for v in ([r[2]] * r[1] if r[0] == "rle" else r[1])] for (w, runs, b) in sub]
    outs = pq.batch([("hyb_dec", True, w, len(f), b) for (w, runs, b), f in zip(sub, flat)])
    for (w, runs, b), f, o in zip(sub, flat, outs):
        case = {"stage": "hybrid-spec-dec", "width": w, "n": len(f), "bytes": b.hex()[:80]}
        ctx.case(case)
        ctx.correspondence("Coq hyb_dec (spec) on the written level bytes = the levels", case,
                           [int(x) for x in o[0][0]] if o and o != [] else repr(o), f)


def check_file_case(ctx, pq, w, case, path, conf_budget):
    classes = file_case_classes(case)
    versions = sorted({lay["version"] for rg in case["rgs"] for lay in rg["layout"].values()})
    encs = sorted({("dict2" if lay.get("legacy_dict") else "dict8") if lay["dictionary"] else "plain"
                   for rg in case["rgs"] for lay in rg["layout"].values()})
    trivial = (len(case["rgs"]) == 1 and all(len(r) <= 1 for rg in case["rgs"] for r in rg["rows"].values())
               and all(not lay["cuts"] for rg in case["rgs"] for lay in rg["layout"].values()))
    ctx.case(case, trivial=trivial)
    ctx.count("file.split_class", ",".join(classes) or "good")
    ctx.count("file.page_version", ",".join(map(str, versions)))
    ctx.count("file.values", ",".join(encs))
    ctx.count("file.page_stats", ",".join(sorted({str(m) for rg in case["rgs"] for lay in rg["layout"].values() for m in (lay.get("page_stats") or [None])})))
    for rg in case["rgs"]:
        for lay in rg["layout"].values():
            if lay["version"] == 2 and lay.get("codec"):
                for fl in (lay.get("is_compressed") or [None]):
                    ctx.count("file.v2_codec_is_compressed", "%s/%s/%s" % (lay["codec"], fl, "dict" if lay["dictionary"] else "plain"))
    ctx.count("file.codecs", ",".join(sorted({str(lay.get("codec")) for rg in case["rgs"] for lay in rg["layout"].values()})))
    ctx.count("file.kinds", ",".join(sorted(c["kind"] + ("" if c["kind"] == "flat" else ("/opt" if c["row_opt"] else "/req") + ("/opt" if c["elem_opt"] else "/req"))
                                            for c in case["cols"])))
    ctx.count("file.struct_nested", ",".join(sorted({"/".join("optional" if x["opt"] else "required" for x in NF.col_structs(c)) + " struct"
                                                     for c in case["cols"] if NF.col_structs(c)})) or "top level")
    ctx.count("file.empty_pages", sum(1 for rg in case["rgs"] for lay in rg["layout"].values() if len(set(lay["cuts"])) != len(lay["cuts"])
                                      or (lay["cuts"] and lay["cuts"][0] == 0)))
    ctx.count("file.row_groups", len(case["rgs"]))
    ctx.count("file.max_pages_per_chunk", max(len(lay["cuts"]) + 1 for rg in case["rgs"] for lay in rg["layout"].values()))
    written = write_case(case, path)
    mres, vts = model_file(pq, case, written)
    pred = predicted_cells(case, mres, vts)
    task = {"op": "read", "path": path, "cols": [c["name"] for c in case["cols"]]}
    if classes:
        key = ",".join(classes)
        if conf_budget.get(key, 0) <= 0:
            ctx.count("file.confirmation_skipped", key)
            # theorem's complement: still record what the model predicts there
            return
        conf_budget[key] -= 1
        res = isolated(task)
    else:
        res = w.call(task)
    want = {c["name"]: expected_cells(c, [r for rg in case["rgs"] for r in rg["rows"][c["name"]]]) for c in case["cols"]}
    got = res.get("ok") if isinstance(res, dict) else None
    # correspondence model ~ real read (only where the model predicts a value; out-of-bounds is undefined behaviour)
    if pred is not None:
        impl_idx = impl_cells_idx(case, got, vts) if got is not None else {"no result": _trim(res)}
        ctx.correspondence("run_v1/run_v2 (+zip_maps) on the file's page streams ~ ParquetFile.to_pandas()", case, pred, impl_idx)
    else:
        ctx.count("file.model_predicts_fault", json.dumps(sorted(str(v) for v in mres.values() if isinstance(v, dict))[:1]))
    if not classes and pred is not None:
        want_idx = impl_cells_idx(case, want, vts)
        ctx.correspondence("model on every cut = rows (instance of C15_pages_full, file level)", case, pred, want_idx)
    # the property itself
    if got != want:
        # known-bad splits exist in v1 chunks only: a file that touches one is classified under v1
        cls = {"component": "read nested column", "page_version": 1 if classes else (versions[0] if len(versions) == 1 else "mixed"),
               "split": ",".join(classes) or "good", "level": "file",
               "values": encs[0] if len(encs) == 1 else "mixed",
               "kinds": sorted({c["kind"] for c in case["cols"]})}
        detail = "to_pandas() gave %s ; the rows written are %s" % (_trim(res), json.dumps(want)[:600])
        ctx.fail(cls, {**case, "replay": {"kind": "file"}}, detail)


def _trim(res):
    s = json.dumps(res, default=repr)
    return s if len(s) < 900 else s[:900] + "..."


def gen_layout(rng, rep, version, force_cuts=None, maxcuts=3, ptype=None):
    if force_cuts is not None:
        cuts = force_cuts
    else:
        cand = list(range(1, len(rep))) if version == 1 else row_boundaries(rep)
        cuts = sorted(rng.sample(cand, min(len(cand), rng.choice([0, 1, 1, 2, maxcuts]))))
    if force_cuts is None and rng.random() < 0.08:
        # a page without any entry: a cut position used twice (or a cut at 0)
        cuts = sorted(cuts + [rng.choice(cuts + [0])])
    npages = len(cuts) + 1
    modes = [None, None, "all", "elems", "zero"]
    use_dict = (rng.random() < 0.5 and ptype != "boolean")
    # a chunk that starts dictionary-encoded and falls back to PLAIN pages from some page on (also page 0: dictionary page unused)
    fallback = rng.randrange(0, npages) if (use_dict and rng.random() < 0.4) else None
    return dict(cuts=cuts, version=version, dictionary=use_dict, dict_fallback=fallback,
                # optional header content a reader must not let change the rows: page / chunk Statistics.null_count in three
                # counting conventions, and per v2 page the is_compressed flag absent / true / false (mixed within a chunk)
                page_stats=[rng.choice(modes) for _ in range(npages)], chunk_stats=rng.choice(modes),
                is_compressed=[rng.choice([None, True, False]) for _ in range(npages)],
                level_style=rng.choice(["mixed", "rle", "bp"]), codec=rng.choice([None, None, "SNAPPY", "GZIP"]),
                legacy_dict=rng.random() < 0.5)


def stage_files(ctx, pq, w):
    rng = ctx.rng
    conf_budget = {"null_only_continuation": 4 if ctx.quick() else 12, "cont_only_page": 4 if ctx.quick() else 12,
                   "cont_only_page,null_only_continuation": 2 if ctx.quick() else 6}
    nfile = 0
    # corpus of minimised past disagreements first
    cdir = os.path.join(C.VERIF, "corpus", "C15")
    if os.path.isdir(cdir):
        for fn in sorted(os.listdir(cdir)):
            if fn.endswith(".json"):
                case = json.load(open(os.path.join(cdir, fn)))["case"]
                if case.get("cols"):
                    nfile += 1
                    big = dict(conf_budget)
                    for k in big:
                        big[k] = 1
                    check_file_case(ctx, pq, w, case, os.path.join(ctx.scratch, "corpus%d.parquet" % nfile), big)
    # ---- lattice: every 1-cut and 2-cut of short streams, per shape, v1; row-boundary cuts for v2 ----
    bases = lattice_bases()
    ptypes = ["int64", "utf8", "int32", "double"]
    for si, (ro, eo) in enumerate(SHAPES):
        for bi, rows0 in enumerate(bases[(ro, eo)]):
            ptype = ptypes[(si + bi) % 4]
            pl = pool(ptype)
            rows = [None if r is None else [None if e is None else pl[e % len(pl)] for e in r] for r in rows0]
            rep, de, vals = NF.shred(rows, ro, eo)
            L = len(rep)
            cutsets = [(1, [a]) for a in range(1, L)] + [(1, [a, b]) for a in range(1, L) for b in range(a + 1, L)]
            rb = row_boundaries(rep)
            cutsets += [(2, [])] + [(2, [a]) for a in rb] + [(2, [a, b]) for a in rb for b in rb if a < b]
            if ctx.quick():
                # quick tier: all 1-cuts, a seeded third of the 2-cuts (the direct-call stage enumerates all of them)
                cutsets = [cs for cs in cutsets if len(cs[1]) < 2 or rng.random() < 0.34]
            for version, cuts in cutsets:
                col = dict(name="c", kind="list", row_opt=ro, elem_opt=eo, ptype=ptype)
                lay = gen_layout(rng, rep, version, force_cuts=cuts)
                case = {"stage": "file-lattice", "cols": [col], "rgs": [{"rows": {"c": rows}, "layout": {"c/elem": lay}}]}
                nfile += 1
                check_file_case(ctx, pq, w, case, os.path.join(ctx.scratch, "f%d.parquet" % nfile), conf_budget)
    # ---- fixed MAP cases: every shape, column names that coincide with the leaf names ----------------
    for ro, eo in SHAPES:
        for name in ("key", "value", "m"):
            for version in (1, 2):
                col = dict(name=name, kind="map", row_opt=ro, elem_opt=eo, ptype="int64", key_ptype="utf8")
                rows = [[["a", 1], ["b", 2 if not eo else None]], [] if not ro else None, [], [["c", 3]], [["zz", 7], ["a", 9], ["bb", 0]]]
                rg = {"rows": {name: rows}, "layout": {}}
                for leaf in NF.leaf_columns(col):
                    rep, de, vals = NF.shred(NF.leaf_rows(col, leaf, rows), leaf["row_opt"], leaf["elem_opt"])
                    rb = row_boundaries(rep)
                    rg["layout"][name + "/" + leaf["which"]] = gen_layout(rng, rep, version, force_cuts=[rb[1]], ptype=leaf["ptype"])
                case = {"stage": "file-map-fixed", "cols": [col], "rgs": [rg]}
                nfile += 1
                check_file_case(ctx, pq, w, case, os.path.join(ctx.scratch, "f%d.parquet" % nfile), conf_budget)
    # ---- fixed grid: optional header content that must not change the rows (seeded changes C15-3, C15-4) ----------
    hrows = [[1, None, 2], None, [], [None], [3], None, [4, 5], [], [None, None], [6]]
    for ptype in ("int64", "utf8"):
        pl = pool(ptype)
        rows = [None if r is None else [None if e is None else pl[e % len(pl)] for e in r] for r in hrows]
        rep, de, vals = NF.shred(rows, True, True)
        rb = row_boundaries(rep)
        cuts = [rb[2], rb[6]]
        for dictionary in (False, True):
            for mode in (None, "all", "elems", "zero"):
                lay = dict(cuts=cuts, version=1, dictionary=dictionary, level_style="mixed", codec=None,
                           page_stats=[mode] * 3, chunk_stats=mode)
                col = dict(name="c", kind="list", row_opt=True, elem_opt=True, ptype=ptype)
                case = {"stage": "file-header-variants", "cols": [col], "rgs": [{"rows": {"c": rows}, "layout": {"c/elem": lay}}]}
                nfile += 1
                check_file_case(ctx, pq, w, case, os.path.join(ctx.scratch, "f%d.parquet" % nfile), conf_budget)
            for codec in ("SNAPPY", "GZIP"):
                for flags in ([None, True, False], [False, False, True]):
                    lay = dict(cuts=cuts, version=2, dictionary=dictionary, level_style="mixed", codec=codec,
                               is_compressed=flags, page_stats=["all", None, "elems"])
                    col = dict(name="c", kind="list", row_opt=True, elem_opt=True, ptype=ptype)
                    case = {"stage": "file-header-variants", "cols": [col], "rgs": [{"rows": {"c": rows}, "layout": {"c/elem": lay}}]}
                    nfile += 1
                    check_file_case(ctx, pq, w, case, os.path.join(ctx.scratch, "f%d.parquet" % nfile), conf_budget)
    # ---- fixed lattice: dictionary fallback to PLAIN inside a LIST / MAP chunk x a page cut at EVERY level position ------
    # (rows continuing from a dictionary page into a PLAIN page and the other way round never happens: fallback is one-way)
    for ptype, kind in (("int64", "list"), ("utf8", "list"), ("int32", "map")):
        pl = pool(ptype)
        if kind == "list":
            col = dict(name="c", kind="list", row_opt=True, elem_opt=True, ptype=ptype)
            rows = [None if r is None else [None if e is None else pl[(e * 3 + 1) % len(pl)] for e in r] for r in hrows]
        else:
            col = dict(name="c", kind="map", row_opt=True, elem_opt=True, ptype=ptype, key_ptype="utf8")
            rows = [None if r is None else [["k%d" % j, (None if e is None else pl[(e * 3 + 1) % len(pl)])] for j, e in enumerate(r)] for r in hrows]
        leaves = [lf for lf in NF.leaf_columns(col)]
        rep0 = NF.shred(NF.leaf_rows(col, leaves[0], rows), leaves[0]["row_opt"], leaves[0]["elem_opt"])[0]
        positions = list(range(1, len(rep0)))
        if ctx.quick() and kind == "map":
            positions = positions[::3]
        for version in (1, 2):
            cand = positions if version == 1 else [p for p in row_boundaries(rep0) if 0 < p < len(rep0)]
            for c1 in cand:
                for cuts, fb in (([c1], 1), ([c1, min(len(rep0) - 1, c1 + 2)] if version == 1 else [c1], 1)):
                    if len(set(cuts)) != len(cuts):
                        continue
                    rg = {"rows": {"c": rows}, "layout": {}}
                    for lf in leaves:
                        rg["layout"]["c/" + lf["which"]] = dict(cuts=list(cuts), version=version, dictionary=True, dict_fallback=fb,
                                                                 level_style="mixed", codec=None, legacy_dict=(c1 % 2 == 0))
                    case = {"stage": "file-dict-fallback", "cols": [col], "rgs": [rg]}
                    nfile += 1
                    check_file_case(ctx, pq, w, case, os.path.join(ctx.scratch, "f%d.parquet" % nfile), conf_budget)
    # ---- fixed lattice: pages with ZERO entries (C15_empty_pages_neutral_v1/_v2, C15_pages_full_with_empty): an empty first page,
    # an empty last page, one and two empty pages between two pages cut at EVERY level position (v1: also inside a row, so the
    # continuation of a row follows an empty page) / every row boundary (v2); PLAIN and dictionary
    for ptype in ("int64", "utf8"):
        pl = pool(ptype)
        col = dict(name="c", kind="list", row_opt=True, elem_opt=True, ptype=ptype)
        rows = [None if r is None else [None if e is None else pl[(e * 5 + 2) % len(pl)] for e in r] for r in hrows]
        rep0 = NF.shred(rows, True, True)[0]
        for version in (1, 2):
            cand = list(range(1, len(rep0))) if version == 1 else [p for p in row_boundaries(rep0) if 0 < p < len(rep0)]
            if ctx.quick():
                cand = cand[::2] if ptype == "utf8" else cand
            for c1 in cand:
                for cuts in ([c1, c1], [0, c1], [c1, len(rep0)], [c1, c1, c1]):
                    lay = dict(cuts=list(cuts), version=version, dictionary=(c1 % 2 == 1), level_style="mixed", codec=None)
                    case = {"stage": "file-empty-pages", "cols": [col], "rgs": [{"rows": {"c": rows}, "layout": {"c/elem": lay}}]}
                    nfile += 1
                    check_file_case(ctx, pq, w, case, os.path.join(ctx.scratch, "f%d.parquet" % nfile), conf_budget)
    # ---- fixed lattice: LIST / MAP below THREE struct levels, every optional/required combination, a null ancestor at every
    # level, rows cut inside a row (v1) -----------------------------------------------------------------------------------
    import itertools
    for kind in ("list", "map"):
        for opts in itertools.product([False, True], repeat=3):
            if ctx.quick() and kind == "map" and sum(opts) == 1:
                continue
            sts = [{"name": n, "opt": o} for n, o in zip(("s", "t", "u"), opts)]
            col = dict(name="s.t.u.c", kind=kind, row_opt=True, elem_opt=True, ptype="int64", key_ptype="utf8", structs=sts)
            base = [[1, None, 2], None, [], [3]] if kind == "list" else [[["a", 1], ["b", None]], None, [], [["c", 3]]]
            nso = sum(opts)
            rows = list(base) + [NF.STRUCT_NULL if l == 0 else "<struct null %d>" % l for l in range(nso)] + [base[0]]
            rg = {"rows": {col["name"]: rows}, "layout": {}}
            for lf in NF.leaf_columns(col):
                rep_l = NF.shred_leaf(NF.leaf_rows(col, lf, rows), lf)[0]
                rg["layout"][col["name"] + "/" + lf["which"]] = dict(cuts=[1, len(rep_l) - 2], version=1, dictionary=bool(nso % 2),
                                                                      level_style="mixed", codec=None)
            case = {"stage": "file-deep-structs", "cols": [col], "rgs": [rg]}
            nfile += 1
            check_file_case(ctx, pq, w, case, os.path.join(ctx.scratch, "f%d.parquet" % nfile), conf_budget)
    # ---- random files ------------------------------------------------------------------------
    nrand = 400 if ctx.quick() else 15000
    for _ in range(nrand):
        ncols = rng.choice([1, 1, 2])
        cols = []
        for ci in range(ncols):
            ro, eo = rng.choice(SHAPES)
            kind = rng.choice(["list", "list", "map"])
            # column names that coincide with the group / leaf names of the LIST and MAP shapes included
            name = rng.choice(["col%d" % ci, "col%d" % ci, "key", "value", "list", "element", "key_value"])
            if any(c["name"] == name for c in cols):
                name = "col%d" % ci
            col = dict(name=name, kind=kind, row_opt=ro, elem_opt=eo, ptype=rng.choice(ptypes + ["boolean", "float"]))
            if kind == "map":
                col["key_ptype"] = rng.choice(["utf8", "int64", "int32"])
                if rng.random() < 0.3:
                    col["group_name"] = "map"
            elif rng.random() < 0.3:
                col["group_name"], col["elem_name"] = rng.choice([("bag", "array_element"), ("array", "item"), ("list", "item")])
            if rng.random() < 0.25:
                # the LIST / MAP group sits inside one or two struct groups; pandas column "s<k>[.t<k>].<name>"
                col["structs"] = [{"name": "s%d" % ci, "opt": rng.random() < 0.6}]
                if rng.random() < 0.45:
                    col["structs"].append({"name": "t%d" % ci, "opt": rng.random() < 0.6})
                    # three and four struct levels above the LIST / MAP group (C15_nested_levels_model is for ANY stack)
                    if rng.random() < 0.45:
                        col["structs"].append({"name": "u%d" % ci, "opt": rng.random() < 0.6})
                        if rng.random() < 0.4:
                            col["structs"].append({"name": "v%d" % ci, "opt": rng.random() < 0.6})
                col["name"] = ".".join([x["name"] for x in col["structs"]] + [name])
            cols.append(col)
        if rng.random() < 0.35:
            # an ordinary required column before / between / after the nested ones
            cols.insert(rng.randint(0, len(cols)), dict(name="id", kind="flat", ptype=rng.choice(["int64", "utf8", "double"])))
        rgs = []
        # mostly splits the theorem covers; one file in five may cut anywhere (known-bad regions included)
        anywhere = rng.random() < 0.2
        long_mode = rng.random() < 0.04      # hundreds of short rows: level runs >= 64 (two-byte run headers), > 63 bit-packed groups
        for _g in range(rng.choice([1, 1, 2, 3])):
            big = rng.random() < 0.08          # now and then long columns / long lists (level runs >= 8, several bit-packed groups)
            nrows = rng.randint(8, 40) if big else rng.randint(1, 7)
            maxlen = 12 if big else 5
            if long_mode:
                nrows, maxlen = rng.randint(300, 700), 2
            rg = {"rows": {}, "layout": {}}
            for col in cols:
                if col["kind"] == "flat":
                    pl = pool(col["ptype"])
                    rows = [pl[(k * 7 + _g) % len(pl)] if col["ptype"] != "int64" else k * 1000 + _g for k in range(nrows)]
                    rg["rows"][col["name"]] = rows
                    cand = list(range(1, nrows))
                    rg["layout"][col["name"] + "/flat"] = dict(
                        cuts=sorted(rng.sample(cand, min(len(cand), rng.choice([0, 0, 1, 2])))), version=rng.choice([1, 2]),
                        dictionary=rng.random() < 0.3, level_style="mixed", codec=rng.choice([None, "SNAPPY"]))
                    continue
                if long_mode:
                    rows = gen_rows(rng, col["row_opt"], col["elem_opt"], nrows, maxlen, col["ptype"], 0.35, 0.3, 0.3) if col["kind"] == "list" \
                        else gen_map_rows(rng, col["row_opt"], col["elem_opt"], nrows, maxlen, col["key_ptype"], col["ptype"])
                    rg["rows"][col["name"]] = rows
                elif col["kind"] == "list":
                    rows = gen_rows(rng, col["row_opt"], col["elem_opt"], nrows, maxlen, col["ptype"])
                else:
                    rows = gen_map_rows(rng, col["row_opt"], col["elem_opt"], nrows, maxlen, col["key_ptype"], col["ptype"])
                nso = sum(1 for x in NF.col_structs(col) if x["opt"])
                if nso:
                    def _snull():
                        lvl = rng.randrange(nso)       # which optional ancestor is the null one (the ones above it are present)
                        return NF.STRUCT_NULL if lvl == 0 else "<struct null %d>" % lvl
                    rows = [_snull() if rng.random() < 0.15 else r for r in rows]
                rg["rows"][col["name"]] = rows
                for leaf in NF.leaf_columns(col):
                    lrows = NF.leaf_rows(col, leaf, rows)
                    rep, de, vals = NF.shred_leaf(lrows, leaf)
                    max_def = NF.max_def_leaf(leaf)
                    version = rng.choice([1, 1, 2])
                    lay = gen_layout(rng, rep, version, ptype=leaf["ptype"])
                    if version == 1 and not anywhere:
                        # repair cuts that fall into a known-bad region by moving them to the next row boundary
                        for _try in range(6):
                            pages = NF.chunk_pages(rep, de, vals, max_def, lay["cuts"])
                            if not classify_v1_pages([(p[0], p[1]) for p in pages], max_def):
                                break
                            rb = row_boundaries(rep)
                            lay["cuts"] = sorted(set(rng.sample(rb, min(len(rb), len(lay["cuts"])))))
                    rg["layout"][col["name"] + "/" + leaf["which"]] = lay
            rgs.append(rg)
        case = {"stage": "file-random", "cols": cols, "rgs": rgs}
        nfile += 1
        check_file_case(ctx, pq, w, case, os.path.join(ctx.scratch, "f%d.parquet" % nfile), conf_budget)
    ctx.extra["files_written"] = nfile
    ctx.extra["confirmation_budget_left"] = conf_budget


# ---------------------------------------------------------------------------------------------
# replay
# ---------------------------------------------------------------------------------------------

def replay(rep):
    import shutil
    import tempfile
    if rep.get("kind") == "no-failing-input-found":
        print(json.dumps(rep, indent=1)[:6000])
        return 1
    case = rep["case"]
    rp = case.get("replay", {})
    if rp.get("kind") == "seq":
        res = isolated(rp["task"])
        print("direct _assemble_objects call sequence (%s), rows %r" % (rp["task"]["mode"], case.get("rows")))
        print("  result  :", json.dumps(res))
        print("  expected:", json.dumps(rp["want"]))
        bad = ("crash" in res) or res.get("exc") is not None or bool(res.get("oob_written")) or res.get("arr") != rp["want"]
        print("PROPERTY FAILS" if bad else "ok")
        return 1 if bad else 0
    tmp = tempfile.mkdtemp(prefix="verif-C15-replay-", dir="/tmp")
    try:
        C.use_shadow()
        path = os.path.join(tmp, "replay.parquet")
        write_case(case, path)
        res = isolated({"op": "read", "path": path, "cols": [c["name"] for c in case["cols"]]})
        want = {c["name"]: expected_cells(c, [r for rg in case["rgs"] for r in rg["rows"][c["name"]]]) for c in case["cols"]}
        print("columns:", json.dumps(case["cols"]))
        for gi, rg in enumerate(case["rgs"]):
            print("row group %d layout: %s" % (gi, json.dumps(rg["layout"])))
        print("rows written :", json.dumps(want))
        print("to_pandas()  :", _trim(res))
        bad = res.get("ok") != want
        print("PROPERTY FAILS" if bad else "ok")
        return 1 if bad else 0
    finally:
        shutil.rmtree(tmp, ignore_errors=True)
