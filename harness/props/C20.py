"""C20 — concurrent reads and derived handles give the same results as sequential use (DESIGN.md section 6, C20).

Obligations: coq/props/C20.v (interleaving model: memo confluence, part writers, the refuted in-place rebuild,
soundness of the trace checker), the footprint premise of the theorem checked on the real operations by
line-granular monitoring (extracted checker `conc_trace_check` evaluated on the observed traces).
Oracle on the real code: deterministic write-point preemption (real threads under a line-level scheduler) and
free-running threads with a minimal switch interval, every result compared with the solo result."""
import json
import os
import shutil
import sys
import tempfile

from harness import common as C
from harness import conc

TRUSTED = [
    "Coq 8.16.1 kernel + coqc (vm_compute for the closed examples and the refuted witness); no native_compute",
    "extraction: ExtrOcamlBasic only; ocaml/driver.ml s-expression I/O (trace checker conc_trace_check, tree_writes, rebuild_run)",
    "CPython: one dict/attribute get or set is atomic (the model's atomic actions); threads are preempted only between bytecodes",
    "granularity: the monitor sees source-line boundaries of fastparquet frames only - preemption inside one line and inside "
    "C extensions (numpy, cramjam, pandas internals, cencoding/speedups with the GIL held) is below the model (level: partial)",
    "fingerprint = everything reachable from the parent handle through dicts/lists/thrift objects/SchemaHelper + util.seps + json codec cache; "
    "functools.lru_cache(_val_to_num) contents are not inspectable (trusted thread-safe); ParquetFile.dtypes is treated as a per-call "
    "output attribute (keys fingerprinted, values not: every to_pandas overwrites it with its own categories choice, no operation reads the values)",
    "fast identity signature between full fingerprints: in-place mutation of a numpy/pandas leaf is seen only every %d lines" % conc.FULL_EVERY,
    "Python glue: operation generator, canonical result digests (pandas hash_pandas_object), interning of fingerprints into numbers",
]

TRUSTED += [
    "translators/sharedstate.py (Python ast -> inventory of shared locations and write sites + their Gallina text); tied both ways "
    "to the live package on every run (every static location resolves, every live state-holding object has a static location)",
    "attribution of an observed write to a source statement: the line event preceding the event at which the change is seen",
    "cdef globals of the .pyx modules are not Python attributes (cencoding specs/children tables): invisible to the run-time monitor; "
    "inventoried statically from the .pyx and the generated .c by a regex scan (stores at import time only), tied by the multi-threaded codec streams",
    "translators/opreads.py: call graph by NAME and slots by attribute name (conservative for reads; a store into a computed subscript of a local "
    "or parameter container names no slot and is left to the dynamic footprint); the order of reads in a row program is not the code's",
]

BIG = 10 ** 9
OPC = {"ok": False}
INV = {"path": None, "inv": None, "idx": None}


def inventory():
    """the static inventory of this run (written by the parent into the scratch directory), loaded once per worker"""
    if INV["inv"] is None and INV["path"] and os.path.exists(INV["path"]):
        INV["inv"] = json.load(open(INV["path"]))
        INV["idx"] = conc.site_index(INV["inv"])
        if INV.get("optable") is None and INV["inv"].get("optable"):
            INV["optable"] = INV["inv"]["optable"]
    return INV["inv"]


# ---------------------------------------------------------------------------------------------
# generators (everything stored as data)
# ---------------------------------------------------------------------------------------------

def gen_dataset(rng, kind, small=False):
    nrg = rng.choice([2, 3]) if small else rng.choice([2, 3, 4])
    per = rng.choice([20, 37]) if small else rng.choice([25, 60, 128])
    n = nrg * per
    base = ["i", "f", "s", "t"]
    extra = ["c"] + [c for c in ["o"] if rng.random() < (0.5 if small else 0.8)] + ["b"]     # (a pandas categorical and a boolean column always)
    spec = {"kind": kind, "n": n, "seed": rng.randrange(10 ** 6), "cols": base + extra,
            "offsets": [k * per for k in range(nrg)], "compression": rng.choice([None, None, "SNAPPY", "GZIP"])}
    if kind == "hive":
        spec["nparts"] = 2
    return spec


FOREIGN = ["test.parquet", "multi_rgs_pyarrow", "evo", "spark-date-empty-rg.parq", "nested1.parquet", "map_array.parq",
           "nation.impala.parquet", "test-timezone.parquet"]


def foreign_dataset(name):
    """spec of a test-data file: columns, row groups, sample values of its numeric columns (for filters)"""
    from fastparquet import ParquetFile
    path = conc.build_dataset({"kind": "file", "name": name}, None)
    pf = ParquetFile(path)
    df = pf.to_pandas()
    numeric = {}
    for c in pf.columns:
        if str(df[c].dtype) in ("int32", "int64", "float64", "float32") and len(df):
            vals = sorted(set(float(x) if "float" in str(df[c].dtype) else int(x) for x in df[c].dropna().tolist()))
            if vals and all(v == v for v in vals):
                numeric[c] = [vals[0], vals[len(vals) // 2], vals[-1]]
    return {"kind": "file", "name": name, "n": int(len(df)), "cols": [str(c) for c in pf.columns], "cats": list(pf.cats),
            "nrg": len(pf.row_groups), "numeric": numeric}


def n_row_groups(spec):
    if "nrg" in spec:
        return max(1, spec["nrg"])
    return len(spec["offsets"]) * (spec.get("nparts", 1) if spec["kind"] == "hive" else 1)


def gen_filter1(rng, spec):
    if spec["kind"] == "file":
        col = rng.choice(sorted(spec["numeric"]))
        op = rng.choice(["==", ">", ">=", "<", "<=", "!=", "in", "not in"])
        v = lambda: rng.choice(spec["numeric"][col]) + rng.choice([0, 0, 1, -1])
        return [col, op, [v() for _ in range(2)]] if op in ("in", "not in") else [col, op, v()]
    cols = [c for c in spec["cols"] if c in ("i", "f", "s", "t", "o")] + (["p"] if spec["kind"] == "hive" else [])
    col = rng.choice(cols)
    n = spec["n"]
    op = rng.choice(["==", ">", ">=", "<", "<=", "!=", "in", "not in"])
    if col == "i":
        per = spec["offsets"][1] if len(spec["offsets"]) > 1 else n
        # mostly row-group boundaries (and their neighbours): the selection of row groups varies, sizes repeat
        v = lambda: (rng.choice(spec["offsets"] + [n]) + rng.choice([0, 0, 0, -1, 1])) if rng.random() < 0.7 else rng.randrange(0, n + 1)
    elif col == "f":
        v = lambda: round(rng.random() * (n + 100), 1)
    elif col == "s":
        v = lambda: "r%d" % rng.randrange(0, 8)
    elif col == "t":
        def v():
            h = rng.choice(spec["offsets"] + [n]) + rng.choice([0, 0, -1, 1]) if rng.random() < 0.6 else rng.randrange(0, n + 1)
            h = max(0, h)
            return {"dt": "2020-01-%02dT%02d:00" % (1 + h // 24, h % 24)}
    elif col == "o":
        v = lambda: rng.randrange(-50, 50)
    else:
        v = lambda: rng.randrange(0, 3)
    if op in ("in", "not in"):
        return [col, op, [v() for _ in range(rng.choice([1, 2, 3]))]]
    return [col, op, v()]


def gen_filters(rng, spec):
    if rng.random() < 0.7:
        return [gen_filter1(rng, spec) for _ in range(rng.choice([1, 1, 2]))]
    return [[gen_filter1(rng, spec) for _ in range(rng.choice([1, 2]))] for _ in range(2)]


KINDS = ["to_pandas"] * 4 + ["slice"] * 2 + ["index", "slice_only", "slice_stats", "iter", "head", "statistics", "count", "columns", "pickle", "schema_text",
                                                "stats_fn", "sorted_cols", "sorted_cols", "filter_rgs", "meta", "copy", "deepcopy"]


def gen_op(rng, spec, kind=None):
    kind = kind or rng.choice(KINDS)
    op = {"op": kind}
    cols = list(spec["cols"]) + (["p"] if spec["kind"] == "hive" else []) + list(spec.get("cats", []))
    nrg = n_row_groups(spec)
    if kind in ("to_pandas", "slice", "index", "iter", "head", "pickle", "copy", "deepcopy"):
        if rng.random() < 0.5:
            op["columns"] = sorted(rng.sample(cols, rng.randint(1, len(cols))))
        if rng.random() < 0.5 and (spec["kind"] != "file" or spec["numeric"]):
            op["filters"] = gen_filters(rng, spec)
        if "c" in spec["cols"] and spec["kind"] != "file" and rng.random() < 0.4 and ("columns" not in op or "c" in op["columns"]):
            op["categories"] = rng.choice([["c"], {"c": 3}, []])
        if rng.random() < 0.15:
            op["index"] = False
        if kind == "to_pandas" and op.get("filters") and rng.random() < 0.35:
            op["row_filter"] = True         # row-level filtering: the selection is computed in a first pass over the filter columns
    if kind in ("slice", "slice_only", "slice_stats"):
        op["i"] = rng.choice([None, 0, 1, -1, rng.randrange(-nrg, nrg + 1)])
        op["j"] = rng.choice([None, 1, 2, -1, rng.randrange(-nrg, nrg + 1)])
        op["step"] = rng.choice([None, None, 1, 2, -1])
    if kind == "index":
        op["i"] = rng.randrange(-nrg, nrg)
    if kind == "head":
        op["n"] = rng.choice([1, 5, 30, spec["n"] + 5])
    if kind in ("count", "sorted_cols") and rng.random() < 0.7 and (spec["kind"] != "file" or spec["numeric"]):
        op["filters"] = gen_filters(rng, spec)
    if kind == "filter_rgs":
        op["filters"] = gen_filters(rng, spec) if (spec["kind"] != "file" or spec["numeric"]) else []
    return op


def okey(op):
    return json.dumps(op, sort_keys=True)


def with_alarm(sec, fn, *a):
    """fn(*a) in the main thread of this (worker) process, interrupted by SIGALRM after sec seconds"""
    import signal

    def h(signum, frame):
        raise TimeoutError("operation did not return within %ds" % sec)
    old = signal.signal(signal.SIGALRM, h)
    signal.alarm(sec)
    try:
        return fn(*a)
    finally:
        signal.alarm(0)
        signal.signal(signal.SIGALRM, old)


class Solo:
    """solo results per dataset path, computed on handles of their own"""

    def __init__(self, path, ctx=None, spec=None):
        self.path = path
        self.cache = {}
        self.ctx = ctx
        self.spec = spec

    def __call__(self, op):
        k = okey(op)
        if k not in self.cache:
            self.cache[k] = conc.solo_pristine(self.path, op, 60)
            if self.cache[k][:2] == ["EXC", "TimeoutError"] if isinstance(self.cache[k], list) else False:
                if "did not return within" in str(self.cache[k][2]) and self.ctx is not None:
                    self.ctx.fail({"component": "shared-handle", "op": op["op"], "symptom": "hang", "mode": "alone"},
                                  {"mode": "sequence", "dataset": self.spec, "ops": [op]}, "%s does not return even when run alone: %s" % (k, self.cache[k][2]))
                    raise Hung("%s alone" % k)
        return self.cache[k]


def symptom(got):
    return got[1] if conc.is_exc(got) else ("hang" if (isinstance(got, list) and got and got[0] == "SCHED-TIMEOUT") else "wrong-result")


def gen_tree(rng, max_nodes):
    """random schema tree in depth-first order: [[name id, num_children], ...]; names distinct"""
    out = []
    counter = [0]

    def node(depth, budget):
        me = len(out)
        counter[0] += 1
        out.append([counter[0] - 1, 0])
        if depth >= 4 or budget[0] <= 0:
            return
        k = rng.choice([0, 0, 1, 2, 3]) if depth else rng.choice([1, 2, 3, 5])
        k = min(k, budget[0])
        budget[0] -= k
        out[me][1] = k
        for _ in range(k):
            node(depth + 1, budget)
    node(0, [max_nodes - 1])
    return out


# ---------------------------------------------------------------------------------------------
# the check
# ---------------------------------------------------------------------------------------------

def run(ctx):
    import warnings
    warnings.simplefilter("ignore")
    warnings.showwarning = lambda *a, **k: None      # catch_warnings in worker threads restores filters
    C.coq_lib()
    ctx.trusted = TRUSTED
    ctx.coq_file(os.path.join(C.COQ, "props", "C20.v"))
    bad = C.hygiene()
    ctx.obligation("hygiene: no Admitted/Axiom/Parameter/... in coq/", not bad, "; ".join(bad))
    if not ctx.quick():
        rc, out = C.run(["coqchk", "-o", "-silent", "-Q", os.path.join(C.COQ, "theories"), "Pq", "Pq.Proofs.InterleaveProofs"], timeout=900)
        ctx.obligation("coqchk -o Pq.Proofs.InterleaveProofs: axioms <none>", rc == 0 and "Axioms: <none>" in out, out[-1500:])
        ctx.checker_cmds.append("coqchk -o -silent -Q coq/theories Pq Pq.Proofs.InterleaveProofs")
    static_inventory(ctx)
    C.use_shadow()
    quick = ctx.quick()
    rng = ctx.rng
    ctx.rule = ("datasets (single file / hive partitioned / multi-file, 2-4 row groups, int/float/str/datetime/category/nullable columns, "
                "optional compression; foreign files of test-data) x operations drawn from the property's list (to_pandas with "
                "columns/filters/categories/index, pf[i:j:k], pf[i], iter_row_groups, head, statistics, count, columns/info, pickle round "
                "trip, part-file writers); a case = one footprint trace, one forced schedule (preemption right after the k-th shared "
                "write, or at a line / bytecode instruction), one storm schedule, one free-running round of 2..16 threads, or one "
                "part-writer round; trivial = a round in which every thread runs the same operation with no filters/columns; "
                "distinct = distinct (dataset, operations, schedule) tuples")
    import time
    tm = ctx.extra.setdefault("phase_seconds", {})
    t0 = time.time()

    def lap(name):
        nonlocal t0
        tm[name] = round(time.time() - t0, 1)
        t0 = time.time()
    # Every execution of fastparquet code happens in forked worker processes (C.pmap): a worker that crashes or hangs is an
    # observation (reported as a failure of the property with the job as replay), never the end or a stall of the check.
    jt = 420 if quick else 2400
    # ---- datasets -----------------------------------------------------------------------------
    specs = []
    for kind in (["single", "hive"] if quick else ["single", "hive", "multi"]):
        specs.append(gen_dataset(rng, kind, small=True))
    names = [FOREIGN[(ctx.seed + j) % len(FOREIGN)] for j in range(1 if quick else 5)]
    if not os.path.isdir(os.path.join(C.REPO, "test-data")):
        ctx.notes.append("no test-data directory under VERIF_REPO: foreign files skipped")
        names = []
    base = {"quick": quick, "seed": ctx.seed, "scratch": ctx.scratch, "inv_path": INV["path"]}
    out = apply_jobs(ctx, [dict(base, phase="build", specs=specs, names=names)], jt)
    built = out[0] if out and out[0] else {"datasets": []}
    inventory_tie(ctx, built.get("coverage"))
    datasets = [(sp, pa) for sp, pa in built["datasets"]]
    for sp, _ in datasets:
        if sp["kind"] == "file":
            ctx.count("foreign", sp["name"])
    lap("build")
    if not datasets:
        return
    # ---- one pool of jobs: footprint traces (tie 1) together with corpus, schema_tree model (information), forced /
    #      multi-switch / storm schedules, free-running threads, part writers - one job per (phase, dataset or chunk)
    fp_jobs, fp_state = footprint_jobs(ctx, datasets, rng, quick)
    base["broken"] = False
    jobs = [dict(base, phase="corpus"), dict(base, phase="tree_model"), dict(base, phase="part_writers"), dict(base, phase="native_codecs"),
            dict(base, phase="iter_race", datasets=datasets[:1] if quick else datasets),
            dict(base, phase="multi_switch", datasets=datasets)]
    fb = 42 if quick else 400
    for di, d in enumerate(datasets):
        jobs.append(dict(base, phase="forced", datasets=[d], budget=max(6, fb // len(datasets)), tag=di))
        jobs.append(dict(base, phase="storm", datasets=[d], share=len(datasets), tag=di))
    rounds = 32 if quick else 160
    chunk = 8 if quick else 20
    for r0 in range(0, rounds, chunk):
        jobs.append(dict(base, phase="stress", datasets=datasets, r0=r0, r1=min(rounds, r0 + chunk), tag=r0))
    # longest jobs first
    order = [j for j in fp_jobs if j["fp_phase"] == "warm"] + [j for j in jobs if j["phase"] == "forced"] + \
            [j for j in fp_jobs if j["fp_phase"] != "warm"] + [j for j in jobs if j["phase"] != "forced"]
    values = apply_jobs(ctx, order, jt, func=_any_job)
    by_id = {id(j): v for j, v in zip(order, values)}
    lap("jobs")
    pq = C.Pqref()
    footprint_premise(ctx, pq, datasets, fp_jobs, [by_id[id(j)] for j in fp_jobs], fp_state)
    op_table_tie(ctx, fp_state)
    pq.close()
    lap("footprint_check")
    if (ctx.broken or INV.get("advisory_failed")) and not ctx.failures:
        # the premise (or a static clause) is broken but no failing schedule was met yet: search harder (storm with the raised budget)
        base["broken"] = True
        extra = [dict(base, phase="storm", datasets=[d], share=len(datasets), tag="b%d" % di) for di, d in enumerate(datasets)]
        seen_t = set()
        covered = fp_state.get("covered", {})
        site_targets = [t for t in fp_state.get("targets", []) if "site" in t]
        for s_ in INV.get("static_bad", []) or []:
            hit = None
            for ln in range(s_["line"], s_["end_line"] + 1):
                for (di_, op_, ph_) in covered.get((s_["file"], ln), []):
                    if ph_.startswith("fresh"):
                        hit = (di_, op_)
                        break
                if hit:
                    break
            if hit:
                site_targets.append({"di": hit[0], "op": hit[1], "site": [s_["file"], s_["line"], s_["end_line"]], "opcodes": False, "pattern": s_["pattern"],
                                     "key": s_["target"]})
            else:
                site_targets.append({"di": 0, "part": True, "site": [s_["file"], s_["line"], s_["end_line"]], "opcodes": False, "pattern": s_["pattern"]})
        for t in site_targets:
            t["readers_at"] = readers_of(t.get("key"), t["site"], covered, t["di"])
        for t in [t for t in fp_state.get("targets", []) if "site" not in t] + site_targets:
            key = (t["di"], t.get("op", {}).get("op"), t["opcodes"], tuple(t.get("site", ())))
            if key in seen_t or len(seen_t) >= 8:
                continue
            seen_t.add(key)
            extra.append(dict(base, phase="targeted" if "site" not in t else "site_search", datasets=[datasets[t["di"]]], target=t,
                              tag="t%d" % len(seen_t)))
        apply_jobs(ctx, extra, jt)
        lap("search_after_broken_premise")
    if INV.get("advisory_failed"):
        for a_ in ctx.extra.get("static_advisories", []):
            a_["divergent_run_found"] = bool(ctx.failures)
        if not ctx.failures:
            ctx.notes.append("static advisory (not a violation by itself): %s - the site search and the schedules of this run met no divergent run" % json.dumps(
                [a_["first_failing_clause"] for a_ in ctx.extra.get("static_advisories", [])]))


def advisory_file(ctx, path, extra_q, what):
    """a genproof file whose theorems are STATIC clauses: obligations while they hold; when one no longer holds it is recorded
    as an advisory, the search for a divergent run is started, and only such a run makes the check report a violation"""
    import time
    names = C.theorem_names(path)
    t = time.time()
    ok, out = C.coqc(path, extra_q=extra_q)
    ctx.checker_cmds.append("coqc -Q coq/theories Pq %s%s  (%.1fs, static clauses: advisory when broken)" % (
        "".join("-Q %s %s " % (os.path.relpath(d, C.VERIF), n) for d, n in extra_q), os.path.relpath(path, C.VERIF), time.time() - t))
    if ok:
        for n in names:
            ctx.obligation(n, True)
        ctx.assumptions += ["%s: %s" % (os.path.basename(path), a) for a in C.parse_assumptions(out)]
    else:
        bad = C.failing_theorem(path, out)
        ctx.extra.setdefault("static_advisories", []).append({"file": os.path.basename(path), "first_failing_clause": bad, "what": what})
        INV["advisory_failed"] = True
    return ok


def static_inventory(ctx):
    """tie 0: the inventory of shared locations and write sites, regenerated from the sources of this run; the static
    footprint condition is re-proved on the regenerated text (coq/genproofs/GenSharedInvProofs.v)"""
    from translators import sharedstate
    res = sharedstate.run(C.REPO, ctx.gen_dir)
    ctx.extra["translator"] = {"sharedstate": {"status": res["status"], "reason": res.get("reason")}}
    if res["status"] != "ok":
        ctx.notes.append("translator_fallback: sharedstate: %s (the monitor falls back to the live enumeration of module/class/default state; "
                         "write sites are not classified)" % res.get("reason"))
        return
    inv = res["inventory"]
    INV["path"] = os.path.join(ctx.scratch, "inventory.json")
    json.dump({k: inv[k] for k in ("locations", "sites")}, open(INV["path"], "w"))
    INV["inv"], INV["idx"] = inv, conc.site_index(inv)
    ok, out = C.coqc(res["file"], extra_q=[(ctx.gen_dir, "PqGen")])
    if not ok:
        ctx.notes.append("translator_fallback: sharedstate: generated file rejected by coqc: %s" % out[-300:])
        ctx.extra["translator"]["sharedstate"]["status"] = "translator_fallback"
        return
    ctx.coq_file(os.path.join(C.COQ, "genproofs", "GenSharedInvProofs.v"), extra_q=[(ctx.gen_dir, "PqGen")])
    bad = [s_ for s_ in inv["sites"] if not s_["import_time"] and s_["base"] in ("global", "default", "classattr")
           and s_["pattern"] in ("augmented", "rmw", "set_restore", "multi_store", "delete", "mutcall")]
    keybad = [c_ for c_ in inv.get("memo_keys", []) if not (c_["names_ok"] and c_["key_pure"])]
    advisory_file(ctx, os.path.join(C.COQ, "genproofs", "GenSharedInvAdvisory.v"), [(ctx.gen_dir, "PqGen")],
                  {"refuted_pattern_on_static_shared_base": [{k: s_[k] for k in ("file", "line", "func", "pattern", "base_name", "target")} for s_ in bad][:10],
                   "memo_key_does_not_determine_value": [{k: c_[k] for k in ("file", "line", "func", "container", "key", "extra_deps", "impure")} for c_ in keybad][:10]})
    for c_ in keybad:               # the store site of an offending keyed memo is a search target too
        for s_ in inv["sites"]:
            if s_["file"] == c_["file"] and s_["line"] <= c_["line"] <= s_["end_line"] and s_ not in bad:
                bad.append(s_)
                break
    ctx.extra["inventory"] = {"locations": len(inv["locations"]), "sites": len(inv["sites"]),
                              "sites_on_static_shared_bases": sum(1 for s_ in inv["sites"] if s_["base"] in ("global", "default", "classattr") and not s_["import_time"]),
                              "patterns": {p_: sum(1 for s_ in inv["sites"] if s_["pattern"] == p_) for p_ in sharedstate.PATTERNS},
                              "static_offenders": [{k: s_[k] for k in ("file", "line", "func", "pattern", "base", "base_name", "target")} for s_ in bad][:20],
                              "keyed_memos": [{k: c_[k] for k in ("file", "line", "container", "key", "names_ok", "key_pure")} for c_ in inv.get("memo_keys", [])][:20]}
    INV["static_bad"] = bad
    # read side: per operation the slots it may read / write (call graph by name), the discipline obligation over reads AND
    # writes re-proved on the regenerated table (C20_api_ops_disciplined on the regenerated table)
    from translators import opreads
    ores = opreads.run(C.REPO, ctx.gen_dir, inv)
    ctx.extra["translator"]["opreads"] = {"status": ores["status"], "reason": ores.get("reason")}
    if ores["status"] == "ok":
        ok2, out2 = C.coqc(ores["file"], extra_q=[(ctx.gen_dir, "PqGen")])
        if not ok2:
            ctx.notes.append("translator_fallback: opreads: generated file rejected by coqc: %s" % out2[-300:])
            ctx.extra["translator"]["opreads"]["status"] = "translator_fallback"
        else:
            tab = ores["table"]
            # HARD: table_disciplined is the premise C20_table_ops_disciplined / _confluent are instantiated with on the regenerated
            # table; when it no longer checks the property is no longer shown to hold (VIOLATION, concrete if the search finds a run)
            ok3, _ = ctx.coq_file(os.path.join(C.COQ, "genproofs", "GenOpReadsProofs.v"), extra_q=[(ctx.gen_dir, "PqGen")])
            if not ok3:
                ctx.extra["op_table_offenders"] = ores["offenders"][:12]
            INV["optable"] = tab
            ic = ores.get("iteration_conflicts") or []
            ctx.extra.setdefault("op_table_iteration", {})["deep_iteration_sites"] = sorted(set("%s %s" % (x["site"], x["call"]) for x in ic))
            ctx.extra["op_table_iteration"]["keyset_reads"] = {r_["op"]: len(r_.get("keyset_reads", [])) for r_ in tab["rows"]}
            if ic:
                # heuristic (type-blind) clause: advisory search trigger; the iter_race phase is the search
                ctx.extra.setdefault("static_advisories", []).append({"file": "translators/opreads.py", "first_failing_clause": "no deep iteration over a shared object next to a publication of a new key",
                                                                      "what": {"deep_iteration_vs_new_key": ic[:6]}})
                INV["advisory_failed"] = True
            d_ = json.load(open(INV["path"]))         # the workers need the read sets too (unread locations are volatile)
            d_["optable"] = {"rows": [{"op": r_["op"], "reads": r_["reads"]} for r_ in tab["rows"]]}
            json.dump(d_, open(INV["path"], "w"))
            ctx.extra["op_table"] = {"rows": {r_["op"]: {"functions": r_["functions"], "reads": len(r_["reads"]),
                                                        "writes": sorted(set("%s:%s" % (w_["slot"], w_["pattern"]) for w_ in r_["writes"]))[:30]}
                                              for r_ in tab["rows"]},
                                     "slots": len(tab["slots"]), "offenders": ores["offenders"][:12],
                                     "missing_entries": [e for r_ in tab["rows"] for e in r_["missing_entries"]]}
            ctx.obligation("op table: every entry point of the operations of the quantifier exists in the source",
                           not ctx.extra["op_table"]["missing_entries"], "entry points not found: %s" % ctx.extra["op_table"]["missing_entries"])
            # offending (reader, writer, slot, site): a concrete divergent run is looked for at the writer's site
            seen_sites = set()
            for o_ in ores["offenders"]:
                if o_["site"] in seen_sites:
                    continue
                seen_sites.add(o_["site"])
                fn_, ln_ = o_["site"].rsplit(":", 1)
                for s_ in inv["sites"]:
                    if s_["file"] == fn_ and s_["line"] == int(ln_) and s_ not in bad:
                        bad.append(s_)
                        break
    else:
        ctx.notes.append("translator_fallback: opreads: %s" % ores.get("reason"))
    # native modules: C-level module state from the .pyx and the generated .c
    nat = sharedstate.native_state(C.REPO)
    ctx.extra["native_state"] = nat
    off = [g for g in nat["globals"] if g["pyx_stores_in_functions"] or (g.get("c_stores_outside_init") or 0) > 0]
    ctx.obligation("native inventory: every module-level cdef / Python global of the .pyx modules is stored at import time only "
                   "(no store inside a function of the .pyx, no store outside the module-init functions of the generated .c), "
                   "and the .c holds no static buffer of its own", not off and not nat["foreign_static_buffers"],
                   "written after import: %s; static buffers: %s" % (
                       [(g["module"], g["name"], g["pyx_stores_in_functions"], g.get("c_store_functions")) for g in off], nat["foreign_static_buffers"]))


REFUTED_BY = {"augmented": "C20_rmw_refuted / C20_rmw_lost_update_refuted", "rmw": "C20_rmw_refuted", "set_restore": "C20_set_restore_refuted",
              "multi_store": "C20_publish_update_refuted", "mutcall": "C20_scratch_refuted / C20_rmw_refuted (non-idempotent builtin mutator)",
              "delete": "removal of a published key (classify: destructive)"}


def inventory_tie(ctx, cov):
    if cov is None:
        return
    ctx.extra["inventory_coverage"] = {k: (v if not isinstance(v, list) else v[:20]) for k, v in cov.items()}
    ctx.obligation("inventory tie: every location of the regenerated inventory resolves in the live package",
                   not cov["unresolved"], "static locations with no live object: %s" % cov["unresolved"][:10])
    ctx.obligation("inventory tie: every live state-holding object (module / class / default-argument / function level) has a location "
                   "in the regenerated inventory", not cov["dynamic_only"], "live objects unknown to the source inventory: %s" % cov["dynamic_only"][:10])
    ctx.obligation("inventory tie: every shared location is inspectable by the footprint monitor (or of a trusted thread-safe type)",
                   not cov["opaque"], "objects the fingerprint cannot look into: %s" % cov["opaque"][:10])


def _worker_init():
    """start of every worker process (nothing executed yet): fork its pristine solo server"""
    conc.SOLO_SERVER[0] = None
    conc.start_solo_server()


def _any_job(job):
    return _fp_job(job) if job["phase"] == "footprint" else _job(job)


class Hung(Exception):
    """a thread of the real code never came back: the job stops here (its spinning threads would distort everything after)"""


class Rec:
    """what a worker records instead of touching the real context; replayed onto it by the parent"""

    def __init__(self, job):
        import random
        self.calls = []
        self.extra = {}
        self.notes = []
        self.seed = job["seed"]
        self.scratch = job["scratch"]
        self.broken = [1] if job.get("broken") else []
        self.rng = random.Random("C20/%d/%s/%s" % (job["seed"], job["phase"], job.get("tag", "")))
        self._quick = job["quick"]

    def quick(self):
        return self._quick

    def case(self, *a, **k):
        self.calls.append(("case", a, k))

    def count(self, *a, **k):
        self.calls.append(("count", a, k))

    def fail(self, *a, **k):
        self.calls.append(("fail", a, k))
        return True

    def obligation(self, *a, **k):
        self.calls.append(("obligation", a, k))

    def correspondence(self, *a, **k):
        self.calls.append(("correspondence", a, k))
        return True


def _job(job):
    """worker process: one phase job; returns the recorded context calls (+ a value for the build phase)"""
    import warnings
    warnings.simplefilter("ignore")
    warnings.showwarning = lambda *a, **k: None
    import time
    t0 = time.time()
    rec = Rec(job)
    INV["path"] = job.get("inv_path") or INV["path"]
    OPC["ok"] = conc.warm_opcodes()
    rec.extra["opcode_tracing"] = OPC["ok"]
    ph = job["phase"]
    quick = job["quick"]
    value = None
    if ph == "build":
        ds = []
        for i, spec in enumerate(job["specs"]):
            root = os.path.join(job["scratch"], "ds%d" % i)
            os.makedirs(root, exist_ok=True)
            ds.append((spec, conc.build_dataset(spec, root)))
        for name in job["names"]:
            spec = foreign_dataset(name)
            ds.append((spec, conc.build_dataset(spec, None)))
        value = {"datasets": ds}
        if inventory() is not None:
            from fastparquet import writer, api, core, encoding, dataframe, converted_types, schema, util  # noqa (all modules live)
            value["coverage"] = conc.inventory_coverage(inventory())
    else:
      try:
          datasets = [(sp, pa, Solo(pa, rec, sp)) for sp, pa in job.get("datasets", [])]
          if ph == "corpus":
              run_corpus(rec, os.path.join(job["scratch"], "corpus"))
          elif ph == "tree_model":
              pq = C.Pqref()
              tree_model(rec, pq, rec.rng, quick)
              pq.close()
          elif ph == "part_writers":
              pq = C.Pqref()
              part_writers(rec, pq, rec.rng, quick)
              pq.close()
          elif ph == "multi_switch":
              multi_switch(rec, datasets, rec.rng, quick)
          elif ph == "forced":
              forced_search(rec, datasets, rec.rng, quick, budget=job["budget"])
          elif ph == "storm":
              storm_search(rec, datasets, rec.rng, quick, share=job["share"])
          elif ph == "stress":
              stress(rec, datasets, rec.rng, quick, job["r0"], job["r1"])
          elif ph == "targeted":
              targeted_search(rec, datasets, rec.rng, quick, job["target"])
          elif ph == "native_codecs":
              native_codecs(rec, rec.rng, quick)
          elif ph == "iter_race":
              iter_race(rec, datasets, rec.rng, quick)
          elif ph == "site_search":
              site_search(rec, datasets, rec.rng, quick, job["target"])
          else:
              raise ValueError(ph)
      except Hung as e:
        rec.notes.append("phase %s stopped after a hang: %s" % (ph, e))
    rec.extra.setdefault("phase_cpu_seconds", {})[ph] = round(time.time() - t0, 1)
    return {"calls": rec.calls, "extra": rec.extra, "notes": rec.notes, "value": value}


def merge_extra(dst, src):
    for k, v in src.items():
        if isinstance(v, bool) or k not in dst:
            dst[k] = v if k not in dst or not isinstance(v, bool) else (dst[k] and v)
        elif isinstance(v, (int, float)) and isinstance(dst[k], (int, float)):
            dst[k] = round(dst[k] + v, 1)
        elif isinstance(v, dict) and isinstance(dst[k], dict):
            merge_extra(dst[k], v)
        elif isinstance(v, list) and isinstance(dst[k], list):
            dst[k] = sorted(set(dst[k]) | set(v))[:80]
        else:
            dst[k] = v


def apply_jobs(ctx, jobs, job_timeout, func=None):
    """run the jobs in forked workers; replay what they recorded onto the real context; a worker that died or hung
    is a failure of the property (the job is the replay); an exception inside the harness is a broken check"""
    results = C.pmap(func or _job, jobs, init=_worker_init, nproc=min(8, len(jobs)), job_timeout=job_timeout)
    values = []
    for job, res in zip(jobs, results):
        if isinstance(res, dict) and "__crashed__" in res:
            if res["__crashed__"].startswith("exception in worker"):
                ctx.broken.append({"kind": "harness-error", "name": "C20 %s job" % job["phase"],
                                   "detail": res["__crashed__"] + "\n" + res.get("tb", "")})
            else:
                hung = "timeout" in res["__crashed__"]
                ctx.fail({"component": "shared-handle" if job["phase"] != "part_writers" else "part-writer", "op": job["phase"],
                          "symptom": "hang" if hung else "crash", "mode": "job"},
                         {"mode": "job", "job": job}, "the worker process running phase %r %s" % (job["phase"], res["__crashed__"]))
            values.append(None)
            continue
        for name, a, k in res["calls"]:
            getattr(ctx, name)(*a, **k)
        merge_extra(ctx.extra, res["extra"])
        ctx.notes.extend(res["notes"])
        values.append(res["value"])
    return values


def run_corpus(ctx, scratch):
    """minimised schedules that failed on earlier trees (corpus/C20/*.json) run first"""
    import glob
    from fastparquet import ParquetFile
    n = 0
    for f in sorted(glob.glob(os.path.join(C.VERIF, "corpus", "C20", "*.json"))):
        case = json.load(open(f))["case"]
        root = os.path.join(scratch, "corpus%d" % n)
        os.makedirs(root)
        n += 1
        spec = case["dataset"]
        path = conc.build_dataset(spec, root)
        solo = Solo(path, ctx, spec)
        ctx.count("corpus", os.path.basename(f))
        if case["mode"] == "forced":
            check_pair(ctx, spec, path, solo, case["ops"], case["plan"], "corpus", case.get("granularity") == "opcode")
        elif case["mode"] == "storm":
            check_storm(ctx, spec, path, solo, case["ops"][0], case["ops"][1], case["every"], case["phase"], case.get("granularity") == "opcode")
    ctx.extra["corpus_cases"] = n


def fixed_ops(spec):
    if spec["kind"] != "file":
        ops = [dict(o) for o in FIXED_OPS]
        if "c" in spec["cols"]:
            ops.append({"op": "to_pandas", "categories": ["c"]})
            ops.append({"op": "to_pandas", "categories": {"c": 3}, "columns": ["c", "i"]})
            ops.append({"op": "to_pandas", "categories": [], "columns": ["c", "i"]})      # the categorical read as plain values
        return ops
    ops = [{"op": "to_pandas"}, {"op": "to_pandas", "columns": spec["cols"][:2], "index": False}, {"op": "to_pandas", "columns": spec["cols"][-1:]},
           {"op": "slice", "i": 0, "j": 1}, {"op": "slice_only", "i": 1, "j": None}, {"op": "index", "i": -1}, {"op": "iter"},
           {"op": "head", "n": 3}, {"op": "statistics"}, {"op": "count"}, {"op": "columns"}, {"op": "pickle"},
           {"op": "slice_stats", "i": 0, "j": 1}, {"op": "schema_text"}, {"op": "sorted_cols"}, {"op": "stats_fn"}, {"op": "meta"}, {"op": "copy"}]
    for c in sorted(spec["numeric"])[:2]:
        ops[-4] = {"op": "sorted_cols", "filters": [[c, ">=", spec["numeric"][c][1]]]}
        ops[2] = {"op": "to_pandas", "filters": [[c, ">=", spec["numeric"][c][1]]]}
        ops[9] = {"op": "count", "filters": [[c, "<", spec["numeric"][c][1]]]}
        ops[6] = {"op": "iter", "filters": [[c, "!=", spec["numeric"][c][0]]]}
    return ops


FIXED_OPS = [
    {"op": "to_pandas"},
    {"op": "to_pandas", "columns": ["i", "s"], "filters": [["i", ">", 30]]},
    {"op": "to_pandas", "filters": [["f", "<", 40.0]], "index": False},
    {"op": "slice", "i": 0, "j": 1},
    {"op": "slice_only", "i": 1, "j": None},
    {"op": "index", "i": -1},
    {"op": "iter", "filters": [["i", "<=", 25]]},
    {"op": "head", "n": 5},
    {"op": "statistics"},
    {"op": "count", "filters": [["s", "==", "r3"]]},
    {"op": "columns"},
    {"op": "pickle"},
    # converted / logical types: the memoised bound is NOT the raw decoded statistic (timestamp, string)
    {"op": "to_pandas", "columns": ["i", "t"], "filters": [["t", ">=", {"dt": "2020-01-01T20:00"}]]},
    {"op": "count", "filters": [["t", "<", {"dt": "2020-01-02T03:00"}], ["s", ">=", "r2"]]},
    {"op": "slice", "i": 0, "j": 2, "filters": [["t", ">", {"dt": "2020-01-01T05:00"}]]},
    {"op": "slice_stats", "i": 1, "j": None},
    {"op": "schema_text"},
    # the module-level functions taking the handle (statistics use), with and without filters
    {"op": "sorted_cols", "filters": [["i", ">", 30]]},
    {"op": "stats_fn"},
    {"op": "sorted_cols"},
    {"op": "filter_rgs", "filters": [["f", "<", 40.0], ["i", ">=", 0]]},
    {"op": "meta"},
    {"op": "to_pandas", "columns": ["i", "f"], "filters": [["i", ">", 30], ["f", "<", 1000.0]], "row_filter": True},
    {"op": "to_pandas", "columns": ["s"], "filters": [["i", "<=", 45]], "row_filter": True},
    {"op": "copy", "columns": ["i"]},
    {"op": "deepcopy", "columns": ["s"], "filters": [["i", "<=", 25]]},
]


def _fp_job(job):
    """worker process: trace the operations of one job (fresh handle per operation, or one warm handle)"""
    path, phase, ops = job["path"], job["fp_phase"], job["ops"]
    INV["path"] = job.get("inv_path") or INV["path"]
    inventory()
    import warnings
    warnings.simplefilter("ignore")
    warnings.showwarning = lambda *a, **k: None
    from fastparquet import ParquetFile
    warm = ParquetFile(path) if phase == "warm" else None
    opc = phase.endswith("opcode")
    if opc and not conc.warm_opcodes():
        return {"calls": [], "extra": {"opcode_tracing": False}, "notes": [], "value": []}
    out = []
    notes = []
    for op in ops:
        pf = warm if warm is not None else ParquetFile(path)
        try:
            want = conc.solo_pristine(path, op, 120)
            if isinstance(want, list) and want[:2] == ["EXC", "TimeoutError"] and "did not return within" in str(want[2]):
                raise TimeoutError(want[2])
        except TimeoutError as e:
            out.append((op, ["EXC", "TimeoutError", "alone: " + str(e)], [("start", {})], 0, 0, None, [], [], []))
            break
        cover = set()
        areads = set()
        try:
            res, changes, nlines, scr = with_alarm((600 if not job["quick"] else 180) if opc else 120,
                                                   conc.trace_footprint, pf, op, None, None, conc.FULL_EVERY, opc, cover, areads)
        except TimeoutError:
            # the operation returns when run alone (just checked): the monitor was too slow on this machine right now
            notes.append("footprint of %s (%s) not taken: the traced run exceeded its time budget" % (okey(op), phase))
            continue
        if conc.is_exc(res) and res[1] == "TimeoutError" and "did not return within" in str(res[2]):
            # (the alarm went off inside the operation: it returns when run alone - just checked - the traced run was too slow)
            notes.append("footprint of %s (%s) not taken: the traced run exceeded its time budget" % (okey(op), phase))
            continue
        evs = [(k_, o_, n_, p_, (st["file"], st["line"], st["end_line"], st["func"]) if st else conc.tag_prev(changes[-1][0]))
               for k_, o_, n_, p_, st in conc.trace_events(changes, INV["idx"] or {})] if INV["idx"] is not None else []
        out.append((op, conc.canon(res), changes, nlines, scr, want, evs, sorted(cover), sorted(areads)))
    return {"calls": [], "extra": {"footprints_skipped_slow": len(notes)}, "notes": notes, "value": out}


def footprint_jobs(ctx, datasets, rng, quick):
    jobs, owner = [], []
    sels = {}
    mk = lambda path, ph, ops: {"phase": "footprint", "path": path, "fp_phase": ph, "ops": ops, "quick": quick, "seed": ctx.seed,
                                "inv_path": INV["path"]}
    for di, (spec, path) in enumerate(datasets):
        ops = fixed_ops(spec)
        ops += [gen_op(rng, spec) for _ in range(2 if quick else 6)]
        # quick: the whole fixed list on fresh handles for the first dataset; for the others the family members that differ by
        # dataset kind only (warm handles and forced / storm / stress schedules still use every operation on every dataset)
        fresh_ops = ops if (di == 0 or not quick) else [o for o in ops if o["op"] not in ("stats_fn", "meta", "filter_rgs", "deepcopy", "copy", "schema_text", "columns")
                                                        and o != {"op": "sorted_cols"} and not (o.get("row_filter") and o.get("columns") == ["s"])]
        for i in range(0, len(fresh_ops), 3):
            jobs.append(mk(path, "fresh", fresh_ops[i:i + 3]))
            owner.append(di)
        # two warm handles per dataset (shorter critical path).  The second one exercises the statistics family in an order
        # that exposes aliasing between a handle, its cache and handles derived from it: statistics first (cache filled), then
        # derived-handle statistics, the module-level functions with and without filters, statistics again
        fam = [o for o in ops if o["op"] == "statistics"][:1] + \
              [o for o in ops if o["op"] in ("slice_stats", "sorted_cols", "stats_fn", "meta", "schema_text")] + \
              [o for o in ops if o["op"] == "statistics"][:1]
        first = (ops[1:3] + ops[3:4] + ops[9:10] + ops[11:14]) if quick else [o for o in ops if o not in fam]
        sels[di] = first + fam
        for part in (first, fam):
            if part:
                jobs.append(mk(path, "warm", part))
                owner.append(di)
        # the same premise at bytecode granularity (every instruction of fastparquet frames) for the short operations,
        # in the thorough tier for all
        short = [o for o in ops if o["op"] in ("slice_only", "count", "statistics", "columns", "head", "schema_text", "sorted_cols", "meta")]
        osel = (short[:3] + short[-2:]) if (quick or spec["kind"] == "file") else (short + [o for o in ops if o["op"] in ("slice", "pickle", "index")][:4] + ops[1:3])
        if quick and di > 0:
            osel = osel[:2]             # instruction-granular traces are the most expensive jobs: the full short list for the first dataset only
        for i in range(0, len(osel), 3):
            jobs.append(mk(path, "fresh-opcode", osel[i:i + 3]))
            owner.append(di)
    return jobs, {"owner": owner, "sels": sels}


def footprint_premise(ctx, pq, datasets, jobs, results, state):
    """each operation alone under the line tracer; every transition of the state reachable from the
    parent handle must be a memo add, and all traces must agree on one value per key"""
    owner, sels = state["owner"], state["sels"]
    targets = state.setdefault("targets", [])
    covered = state.setdefault("covered", {})
    for di, (spec, path) in enumerate(datasets):
        inter = conc.Interner()
        traces, metas = [], []
        all_events = []
        for job, res_list, own in zip(jobs, results, owner):
            if own != di or res_list is None:
                continue
            phase = job["fp_phase"]
            for ri, (op, got, changes, nlines, scr, want, evs, cover, areads) in enumerate(res_list):
                changes, evs = drop_unread(ctx, changes, evs)
                all_events.append((phase, op, evs))
                if areads:
                    state.setdefault("attr_reads", {}).setdefault(ROW_OF.get(op["op"], op["op"]), set()).update(areads)
                for fl in cover:
                    covered.setdefault(tuple(fl), []).append((di, op, phase))
                kinds = conc.classify_trace(changes)
                case = {"footprint": phase, "dataset": spec, "op": op}
                ctx.case(case)
                ctx.count("footprint.op", op["op"])
                ctx.count("footprint.granularity", "opcode" if phase.endswith("opcode") else "line")
                ctx.count("footprint.transitions", "%d" % min(len(kinds), 9))
                traces.append([inter.snap(fp) for _, fp in changes])
                metas.append((case, kinds, nlines))
                fk = "footprint_opcodes" if phase.endswith("opcode") else "footprint_lines"
                ctx.extra.setdefault(fk, 0)
                ctx.extra[fk] += nlines
                ctx.extra.setdefault("dtypes_overwrites_seen", 0)
                ctx.extra["dtypes_overwrites_seen"] += scr
                # the traced run is itself a solo/sequential run: its result must be the solo result
                if got != want:
                    sel = job["ops"]
                    ctx.fail({"component": "shared-handle", "op": op["op"], "symptom": symptom(got), "mode": "sequential-" + phase},
                             {"mode": "sequence", "dataset": spec, "ops": [r_[0] for r_ in res_list[:ri + 1]] if phase == "warm" else [op]},
                             "result on a %s handle differs from the solo result: %r vs %r" % (phase, got, want))
        # bounded input for the extracted checker: a trace is cut after its first destructive transition (as classified
        # in Python - the correspondence below compares exactly that index) and after 200 snapshots
        cut = []
        for tr, (case, kinds, nlines) in zip(traces, metas):
            pb = next((i for i, k in enumerate(kinds) if k[1] == "destructive"), None)
            n_keep = min(len(tr), 200 if pb is None else pb + 2)
            if n_keep < len(tr):
                ctx.extra["traces_truncated"] = ctx.extra.get("traces_truncated", 0) + 1
            cut.append(tr[:n_keep])
        out = pq_once(("conc_trace_check", cut), 300)
        if out is None:
            ctx.obligation("footprint premise [ds%d]: extracted checker answered" % di, False, "pqref conc_trace_check timed out or died")
            continue
        all_ok, firsts, merged = out[0], out[1], out[2]
        # python-side classification must agree with the extracted checker (model vs harness view of the same traces)
        for (case, kinds, nlines), fb in zip(metas, firsts):
            py_bad = next((i for i, k in enumerate(kinds) if k[1] == "destructive"), None)
            ctx.correspondence("trace_ok (extracted checker) ~ python transition classifier", case,
                               None if not fb else int(fb[0][0]), py_bad)
            name = "footprint premise [%s ds%d %s]: every transition is a memo add" % (case["footprint"], di, okey(case["op"]))
            if fb:
                t = kinds[int(fb[0][0])]
                if case["footprint"].startswith("fresh"):
                    targets.append({"di": di, "op": case["op"], "k": int(fb[0][0]) + 1, "opcodes": case["footprint"].endswith("opcode"),
                                    "keys": t[2]})
                ctx.obligation(name, False, "destructive transition at %s: %s (key %s); %d line events" % (
                    t[0], json.dumps(t[2]), inter.key_name(int(fb[0][1])), nlines))
            else:
                ctx.obligation(name, True)
        ctx.obligation("footprint premise [ds%d]: one value per key over all traces (memo values are functions of immutable data)" % di,
                       bool(merged), "two snapshots disagree on the value of a key")
        footprint_events(ctx, di, all_events, targets)
        ctx.extra.setdefault("memo_keys_written", [])
        seen = set(ctx.extra["memo_keys_written"])
        for case, kinds, _ in metas:
            for t in kinds:
                for k in t[2]["added"]:
                    seen.add(conc_generic_key(k))
        ctx.extra["memo_keys_written"] = sorted(seen)[:60]


VOLATILE_PREFIXES = conc.SCRATCH_PREFIXES


def unread_slot(key, attrs=True):
    """A location that NO operation of the regenerated op table reads (its slot - module-global name or handle attribute - is in no
    row's read set) is of class Multi in the classification the table induces (Conc/OpTable.cls_tbl): whatever is written there,
    no result depends on it (a call counter, a debugging attribute).  Such locations are volatile for the monitor: recorded, not
    constrained.  Only module-level names and attributes of the handle are ever classified this way."""
    tab = INV.get("optable")
    if tab is None:
        return None
    reads = INV.get("all_reads")
    if reads is None:
        reads = INV["all_reads"] = set(x for r_ in tab["rows"] for x in r_["reads"])
    parts = key.split("/")
    if key.startswith("/@module/") and len(parts) >= 4 and ":" not in parts[2]:
        slot = parts[3]
    elif attrs and len(parts) >= 2 and parts[1] and not parts[1].startswith("@") and parts[1] != "fmd" and parts[1].isidentifier():
        slot = parts[1]
    else:
        return None
    if slot in reads or (slot + "[*]") in reads or slot in ("#", "@"):
        return None
    return slot


def drop_unread(ctx, changes, evs, attrs=True):
    """remove the unread (volatile) locations from the snapshots and events of one trace; -> (changes, evs)"""
    hit = {}
    out = []
    for tag, fp in changes:
        fp2 = {}
        for k_, v_ in fp.items():
            sl = unread_slot(k_, attrs)
            if sl is None:
                fp2[k_] = v_
            else:
                hit[sl] = hit.get(sl, 0) + 1
        if not out or fp2 != out[-1][1]:
            out.append((tag, fp2))
    if hit:
        d = ctx.extra.setdefault("unread_locations_written_or_held", {})
        for sl in hit:
            d[sl] = d.get(sl, 0) + 1
    return out, [e_ for e_ in evs if unread_slot(e_[0], attrs) is None]


ROW_OF = {"index": "slice", "slice_only": "slice", "slice_stats": "slice", "deepcopy": "copy"}


def op_table_tie(ctx, state):
    """tie of translators/opreads.py: every attribute the traced operations actually load as data (LOAD_ATTR instructions in
    package frames, instruction-granular traces) must be in the regenerated read set of the operation's row"""
    tab = INV.get("optable")
    dyn = state.get("attr_reads") or {}
    if tab is None or not dyn:
        return
    rows = {r_["op"]: set(r_["reads"]) for r_ in tab["rows"]}
    missing, n = [], 0
    for opk, attrs in sorted(dyn.items()):
        if opk not in rows:
            continue
        n += len(attrs)
        for a_ in sorted(attrs):
            if a_ not in rows[opk] and (a_ + "[*]") not in rows[opk]:
                missing.append("%s.%s" % (opk, a_))
    ctx.extra.setdefault("op_table", {})["dynamic_attribute_loads_checked"] = n
    # ... and every package function a traced operation executes is in the reachable set of its row (safety net of the pruning)
    reach = {r_["op"]: set(r_.get("reach", [])) for r_ in tab["rows"]}
    ranges = tab.get("func_ranges", {})
    unreached, nf = set(), 0
    for (fn_, ln_), users in (state.get("covered") or {}).items():
        best = None
        for a_, z_, q_ in ranges.get(fn_, ()):
            if a_ <= ln_ <= z_ and (best is None or z_ - a_ < best[0]):
                best = (z_ - a_, q_)
        if best is None:
            continue
        for (di_, op_, ph_) in users:
            row = ROW_OF.get(op_["op"], op_["op"])
            if row in reach:
                nf += 1
                if best[1] not in reach[row]:
                    unreached.add("%s executes %s" % (row, best[1]))
    ctx.extra["op_table"]["executed_lines_checked"] = nf
    ctx.obligation("op table tie: every package function executed by a traced operation is in the reachable set of its row",
                   not unreached, "executed but not reachable in the regenerated call graph: %s" % sorted(unreached)[:12])
    ctx.obligation("op table tie: every attribute loaded by a traced operation is in the regenerated read set of its row (%d loads of %d rows)" % (n, len(dyn)),
                   not missing, "loaded at run time but not in the static read set: %s" % missing[:15])


def footprint_events(ctx, di, all_events, targets):
    """the decidable footprint condition of Conc/Footprint.v (extracted: conc_footprint_check) on the write events observed
    for this dataset over all traces: every write of every location is an idempotent publication (absent -> value, or the
    same value again), one value per location, and no write sits at a site of a refuted pattern"""
    if INV["idx"] is None:
        return
    keys, vals = {}, {}
    flat, meta = [], []
    for phase, op, evs in all_events:
        for k_, o_, n_, p_, site in evs:
            flat.append([keys.setdefault(k_, len(keys)), [] if o_ is None else [vals.setdefault(o_, len(vals))],
                         [] if n_ is None else [vals.setdefault(n_, len(vals))], conc.PATTERN_CODE[p_]])
            meta.append((phase, op, k_, o_, n_, p_, site))
    ctx.count("footprint.events", min(len(flat) // 100 * 100, 5000))
    sites_seen = ctx.extra.setdefault("observed_write_sites", {})
    for m in meta:
        if m[6] is not None:
            key = "%s:%s %s" % (m[6][0], m[6][1], m[5])
            sites_seen[key] = sites_seen.get(key, 0) + 1
    out = pq_once(("conc_footprint_check", flat), 300) if flat else [1, []]
    if out is None:
        ctx.obligation("footprint condition [ds%d]: extracted checker answered" % di, False, "pqref conc_footprint_check timed out or died")
        return
    # declared VOLATILE locations (class Multi of C20_footprint_confluence: no operation's result depends on them): their events
    # are not constrained; the extracted footprint_ok_vol must agree with footprint_ok on the rest
    vol_ids = [i_ for k_, i_ in keys.items() if k_.lstrip("/").startswith(VOLATILE_PREFIXES)]
    ctx.extra["volatile_locations_declared"] = ["%s* (per-call output attribute of to_pandas; class Multi)" % p_ for p_ in VOLATILE_PREFIXES]
    if flat:
        outv = pq_once(("conc_footprint_check_vol", flat, vol_ids), 300)
        ctx.correspondence("footprint_ok_vol (volatile locations excluded) ~ footprint_ok on the presence-masked events",
                           {"dataset": di, "volatile_keys": len(vol_ids)}, None if outv is None else bool(outv[0]), bool(out[0]))
    ok_model = bool(out[0])
    if len(out) > 2:
        kd = ctx.extra.setdefault("observed_event_kinds", {"publish": 0, "same": 0, "change": 0, "remove": 0})
        for nm, v_ in zip(("publish", "same", "change", "remove"), out[2]):
            kd[nm] += int(v_)
    # the same condition evaluated in Python (model vs harness view of the same events)
    table, py_bad = {}, None
    for i, (phase, op, k_, o_, n_, p_, site) in enumerate(meta):
        good = n_ is not None and (o_ is None or o_ == n_) and p_ not in REFUTED_BY
        if good and table.setdefault(k_, n_) != n_:
            good = False
        if not good:
            py_bad = i
            break
    ctx.correspondence("footprint_ok (extracted) ~ python evaluation of the footprint condition", {"dataset": di, "events": len(flat)},
                       None if not out[1] else int(out[1][0][0]), py_bad)
    detail = ""
    if not ok_model and out[1]:
        i = int(out[1][0][0])
        phase, op, k_, o_, n_, p_, site = meta[i]
        kind = "REMOVAL (Del: C20_removal_classified; confluent only for a Multi location whose readers do not read back: C20_del_invalidate_confluent / C20_del_readback_refuted)" \
            if n_ is None else ("CHANGE" if o_ is not None and o_ != n_ else "publication")
        detail = "event %d [%s]: location %s: %r -> %r during %s (%s) at %s, pattern %s%s" % (
            i, kind, k_, o_, n_, okey(op), phase, site, p_, (" - refuted by " + REFUTED_BY[p_]) if p_ in REFUTED_BY else "")
        if site is not None and len(site) == 4 and phase.startswith("fresh"):
            targets.append({"di": di, "op": op, "site": list(site[:3]), "opcodes": phase.endswith("opcode"), "pattern": p_, "key": k_})
    ctx.obligation("footprint condition [ds%d]: every observed write of every inventory location is an idempotent publication at a "
                   "site of a non-refuted pattern (extracted footprint_ok, %d events)" % (di, len(flat)), ok_model, detail)


def pq_once(cmd, timeout):
    """one command to a fresh pqref process, with a timeout"""
    import subprocess
    try:
        p = subprocess.run([C.pqref()], input=(C.sx(list(cmd)) + "\n").encode(), stdout=subprocess.PIPE, timeout=timeout)
        lines = [l for l in p.stdout.decode().split("\n") if l.strip()]
        return C.parse_sx(lines[0]) if lines else None
    except subprocess.TimeoutExpired:
        return None


def conc_generic_key(k):
    import re
    return re.sub(r"/\d+", "/*", k)


def tree_model(ctx, pq, rng, quick):
    n = 40 if quick else 150
    agree = 0
    total = 0
    first_bad = None
    kerr = 0
    runs = 0
    rdis = 0
    for t in range(n):
        tree = gen_tree(rng, rng.choice([2, 4, 6, 10, 16]))
        model = pq.call("conc_tree_writes", [[nm, nc] for nm, nc in tree])
        impl = conc.tree_write_log(conc.make_elements(tree))
        total += 1
        m = [[int(w[0]), [int(x) for x in w[1]]] for w in model[0]] if model else None
        ctx.case({"tree_writes": tree})
        ctx.count("tree.nodes", len(tree))
        if m == impl:
            agree += 1
        elif first_bad is None:
            first_bad = {"tree": tree, "model": m, "impl": impl}
        # the refuted schedule on the real code (real threads): slicer preempted after k writes, then the reader
        if m and t < (8 if quick else 40) and tree[0][1] > 0:
            kids = [w for w in m if w[0] == 0][-1][1]
            name = rng.choice(kids)
            for k in sorted(set([0, 1, 2, len(m) // 2, len(m)])):
                mo = pq.call("conc_rebuild_run", [[nm, nc] for nm, nc in tree], name, [0] * k + [1])
                mres = int(mo[0][0][0]) if mo and mo[0][0] else None
                real = conc.tree_forced(tree, name, k)
                runs += 1
                if mres == 1:
                    kerr += 1
                if mres != real:
                    rdis += 1
                    if first_bad is None:
                        first_bad = {"tree": tree, "name": name, "k": k, "model": mres, "impl": real}
    ctx.extra["schema_tree_model"] = {
        "status": "information, not an obligation (the refuted theorem is about code that no API operation runs on shared elements any more)",
        "tree_writes_agree": "%d/%d" % (agree, total), "rebuild_schedules_agree": "%d/%d" % (runs - rdis, runs),
        "schedules_with_KeyError_in_model_and_code": kerr, "first_disagreement": first_bad}
    if first_bad is not None:
        ctx.notes.append("schema_tree model (Conc/Interleave.v tree) no longer mirrors schema.py: %s" % json.dumps(first_bad)[:400])


def write_points(pf_path, op, root=None):
    from fastparquet import ParquetFile
    pf = ParquetFile(pf_path)
    try:
        _, changes, nlines, _ = with_alarm(150, conc.trace_footprint, pf, op)
    except TimeoutError:
        return 0, 0
    return len(changes) - 1, nlines


def confirmed_hang(ctx, path, ops, rng_seed=0):
    """a scheduler time-out may be slowness of the traced run on a loaded machine: the same operations free-running
    (untraced) on a fresh shared handle decide - only if they do not finish either is it reported as a hang"""
    import random
    from fastparquet import ParquetFile
    early, late, hung = conc.stress_run(ParquetFile(path), [[o] for o in ops], random.Random(rng_seed))
    if not hung:
        ctx.count("inconclusive", "scheduler time-out, operations finish when free-running")
    return hung


def check_pair(ctx, spec, path, solo, ops, plan, what, opcodes=False, deep=False):
    """one forced schedule on a fresh (COLD) shared handle; both results against the solo results"""
    from fastparquet import ParquetFile
    pf = ParquetFile(path)
    res, steps, dead = conc.forced_run(pf, ops, [list(p) for p in plan], opcodes=opcodes, timeout=150.0 if opcodes else 60.0, deep=deep)
    if dead and not confirmed_hang(ctx, path, ops):
        return False
    got = [conc.canon(r) for r in res]
    case = {"mode": "forced", "dataset": spec, "ops": ops, "plan": plan}
    if deep:
        case["deep"] = True
    if isinstance(opcodes, (list, tuple)):
        case["granularity"] = ["opcode" if o else "line" for o in opcodes]
    elif opcodes:
        case["granularity"] = "opcode"
        what += "-opcode"
    ctx.case(case)
    ctx.count("forced.kind", what)
    ctx.count("forced.pair", ops[0]["op"] + "|" + ops[1]["op"])
    failed = False
    for i, op in enumerate(ops):
        want = solo(op)
        if got[i] != want or dead:
            failed = True
            ctx.fail({"component": "shared-handle", "op": op["op"], "other": ops[1 - i]["op"], "symptom": "hang" if dead else symptom(got[i]), "mode": "forced"},
                     dict(case, failing_thread=i, solo=want, got=got[i]),
                     "thread %d (%s) under schedule %s: %r, alone: %r" % (i, okey(op), plan, got[i], want))
    if dead:
        raise Hung("forced schedule %s of %s" % (plan, [okey(o) for o in ops]))
    return failed


class Clock:
    """wall-clock cap of one phase job (a loaded machine must not turn a long job into a 'hang' report): the case counts
    are fixed, the cap only cuts them short; what was cut is recorded in the evidence"""

    def __init__(self, ctx, name, seconds):
        import time
        self.t0, self.cap, self.ctx, self.name = time.time(), seconds, ctx, name

    def over(self):
        import time
        if time.time() - self.t0 > self.cap:
            self.ctx.extra.setdefault("phase_time_cap_reached", [])
            if self.name not in self.ctx.extra["phase_time_cap_reached"]:
                self.ctx.extra["phase_time_cap_reached"].append(self.name)
            return True
        return False


def forced_search(ctx, datasets, rng, quick, budget=None):
    per_ds = budget if budget is not None else (60 if quick else 600) // len(datasets)
    clock = Clock(ctx, "forced", 70 if quick else 1200)

    def cp(*a_):
        return False if clock.over() else check_pair(*a_)
    for spec, path, solo in datasets:
        pool = fixed_ops(spec) + [gen_op(rng, spec) for _ in range(6 if quick else 30)]
        wp = {}
        done = 0
        # writers first: operations that write shared state, preempted right after each write
        cand = []
        for a in pool:
            if a["op"] in ("to_pandas", "iter", "head", "slice", "count", "statistics", "pickle", "index", "slice_only", "slice_stats",
                           "sorted_cols", "stats_fn", "filter_rgs", "meta", "schema_text", "copy", "deepcopy"):
                cand.append(a)
        rng.shuffle(cand)
        for a in cand:
            if done >= per_ds or clock.over():
                break
            if okey(a) not in wp:
                solo(a)               # (an operation that does not return alone ends the job here)
                wp[okey(a)] = write_points(path, a)
            nw, nl = wp[okey(a)]
            b = rng.choice(pool)
            va = option_variants(a, spec)
            if va and rng.random() < 0.5:
                b = rng.choice(va)          # the same operation with other per-call options (categories / index / columns)
            opc = OPC["ok"] and rng.random() < 0.4       # bytecode granularity: preempted right after the writing instruction
            ks = list(range(0, nw + 1))
            if len(ks) > 4:
                ks = [0, 1] + sorted(rng.sample(ks[2:], 2))
            for k in ks:
                if clock.over():
                    break
                cp(ctx, spec, path, solo, [a, b], [[0, k, "writes"], [1, BIG, "lines"]], "after-write-%s" % ("0" if k == 0 else "k"), opc and k > 0)
                done += 1
                if k > 0:
                    # read side of the discipline: the same operation (reader of the very keys a writes) right after a's k-th write
                    cp(ctx, spec, path, solo, [a, a], [[0, k, "writes"], [1, BIG, "lines"]], "after-write-k-same-op", opc)
                    done += 1
            # both threads in the middle of their shared writes: a after its k-th write, a second writer until its j-th, a finishes
            if nw > 0:
                b2 = rng.choice([x for x in cand if wp.get(okey(x), (1, 0))[0] > 0] or [a])
                nw2 = wp[okey(b2)][0] if okey(b2) in wp else nw
                k = rng.randrange(1, nw + 1)
                j = rng.randrange(1, max(1, nw2) + 1)
                cp(ctx, spec, path, solo, [a, b2], [[0, k, "writes"], [1, j, "writes"], [0, BIG, "lines"], [1, BIG, "lines"]], "double-after-write", opc)
                done += 1
            # a preemption at an arbitrary line (instruction) of a
            if nl > 2:
                k = rng.randrange(1, nl * (4 if opc else 1))
                cp(ctx, spec, path, solo, [a, b], [[0, k, "lines"], [1, BIG, "lines"]], "at-line", opc)
                done += 1


def targeted_search(ctx, datasets, rng, quick, target):
    """The footprint of operation A shows a destructive transition at its k-th shared write.  Look for the victim:
    a reader B preempted at EVERY line x (budgeted), then A runs until right after that write (at the granularity the
    transition was seen at), then B finishes, then A - two specific preemptions, one on each side."""
    from fastparquet import ParquetFile
    spec, path, solo = datasets[0]
    a, opc = target["op"], target["opcodes"]
    ks = sorted(set([target["k"], max(1, target["k"] - 1)]))
    first = spec["cols"][0] if spec.get("cols") else None
    readers = option_variants(a, spec)[:3] + [{"op": "columns"}, {"op": "statistics"}, {"op": "to_pandas", "columns": [first]} if first else {"op": "to_pandas"},
               {"op": "count"}, {"op": "head", "n": 2, "columns": [first]} if first else {"op": "head", "n": 2}]
    budget = 700 if quick else 3000
    runs = 0
    for b in readers:
        solo(b)
        try:
            nb = with_alarm(150, conc.count_steps, ParquetFile(path), b, None, False)
        except TimeoutError:
            continue
        stride = max(1, (nb * len(ks) * len(readers)) // budget)
        for x in range(1 + rng.randrange(stride), nb, stride):
            for k in ks:
                plan = [[0, x, "lines"], [1, k, "writes"], [0, BIG, "lines"], [1, BIG, "lines"]]
                runs += 1
                if check_pair(ctx, spec, path, solo, [b, a], plan, "targeted", [False, opc]):
                    ctx.extra["targeted_runs"] = ctx.extra.get("targeted_runs", 0) + runs
                    return
    ctx.extra["targeted_runs"] = ctx.extra.get("targeted_runs", 0) + runs


def readers_of(key, site, covered, di):
    """statements of the package that mention the attribute / dict key a location is named by, executed by some traced operation
    of this dataset: [(file, line, op)] - where a victim of a write to that location can be standing"""
    import re
    if not key:
        return []
    toks = [t for t in re.split(r"[^A-Za-z0-9_]+", str(key)) if t and not t.isdigit() and t not in ("self", "module", "fmd", "class")]
    if not toks:
        return []
    attr = toks[-1]
    out = []
    pkg = os.path.join(C.REPO, "fastparquet")
    for fn in sorted(os.listdir(pkg)):
        if not fn.endswith(".py"):
            continue
        for ln, text in enumerate(open(os.path.join(pkg, fn)).read().split("\n"), 1):
            if re.search(r"(\.|['\"])%s\b" % re.escape(attr), text) and not (fn == site[0] and site[1] <= ln <= site[2]):
                for (di_, op_, ph_) in covered.get((fn, ln), []):
                    if di_ == di and ph_.startswith("fresh"):
                        out.append([fn, ln, op_])
                        break
    return out[:10]


def iter_race(ctx, datasets, rng, quick):
    """Iteration over a shared dict against an idempotent publication of a NEW key into it (C20_iter_vs_new_key_refuted): the
    publication is confluent for readers of the key, not for iterators of the dict.  Thread A derives / copies / pickles the handle
    and is preempted at a line INSIDE the library code that walks the containers (copy.deepcopy, pickle, json frames are traced
    too); thread B - the FIRST filtered read on this cold handle, the one that memoises converted_min/max into the statistics
    dicts - runs completely in the gap; A finishes.  Preemption points are spread evenly over A's run."""
    from fastparquet import ParquetFile
    clock = Clock(ctx, "iter_race", 45 if quick else 600)
    npoints = 8 if quick else 40
    for spec, path, solo in datasets:
        if spec["kind"] == "file":
            continue
        cols = spec.get("cols", [])
        b = {"op": "count", "filters": [[c_, ">", v_] for c_, v_ in (("t", {"dt": "2020-01-01T01:00"}), ("i", -1), ("f", -1.0), ("s", "a")) if c_ in cols]}
        solo(b)
        for a in ({"op": "slice_only", "i": 0, "j": None}, {"op": "index", "i": 0, "columns": cols[:1]}, {"op": "copy", "columns": cols[:1]},
                  {"op": "deepcopy", "columns": cols[:1]}, {"op": "pickle", "columns": cols[:1]}, {"op": "head", "n": 2, "columns": cols[:1]}):
            if clock.over():
                return
            solo(a)
            try:
                na = with_alarm(120, conc.count_steps, ParquetFile(path), a, None, False, True)
            except TimeoutError:
                continue
            ctx.count("iter_race.steps", min(na // 1000 * 1000, 20000))
            for j in range(npoints):
                if clock.over():
                    return
                n = max(1, int((j + 0.5) * na / npoints) + rng.randrange(-3, 4))
                if check_pair(ctx, spec, path, solo, [a, b], [[0, n, "lines"], [1, BIG, "lines"]], "iter-race", False, True):
                    break


def native_codecs(ctx, rng, quick):
    """tie of the native inventory: the module-level C state of cencoding / speedups is written at import time only (static
    obligation), so the same codec functions called from N threads must produce the bytes they produce from one thread"""
    rounds = 6 if quick else 30
    for r in range(rounds):
        nt = [2, 4, 8, 16, 3, 12][r % 6]
        n = 80 if quick else 200
        seq, thr = conc.codec_threads(nt, n)
        case = {"mode": "codec", "threads": nt, "calls": n}
        ctx.case(case)
        ctx.count("codec.threads", nt)
        ctx.extra["codec_stream_roundtrip_misses_sequential"] = ctx.extra.get("codec_stream_roundtrip_misses_sequential", 0) + sum(int(x.split(":")[1]) for x in seq)
        if seq != thr:
            badi = [i for i in range(nt) if seq[i] != thr[i]]
            ctx.fail({"component": "native-codec", "op": "codec_stream", "symptom": "wrong-result" if not str(thr[badi[0]]).startswith("EXC") else "exception",
                      "mode": "stress"}, dict(case, streams=badi, sequential=[seq[i] for i in badi], threaded=[thr[i] for i in badi]),
                     "codec streams %s give other bytes from %d threads than alone: %r vs %r" % (badi, nt, [thr[i] for i in badi][:2], [seq[i] for i in badi][:2]))
            break


def option_variants(a, spec):
    """the same operation with other PER-CALL options (categories, index, columns): what a call is given flows into attributes
    of the shared handle (dtypes, index / column selections); two threads whose calls differ only there must not see each other's"""
    if a.get("op") not in ("to_pandas", "head", "iter", "slice", "index", "pickle", "copy", "deepcopy"):
        return []
    cols = list(spec.get("cols", []))
    has_c = "c" in cols and spec.get("kind") != "file"
    out = []

    def add(v):
        if v != a and v not in out:
            out.append(v)
    v = dict(a)
    if "categories" in v:
        v.pop("categories")
    elif has_c:
        v["categories"] = []
    add(v)
    if has_c and (a.get("columns") is None or "c" in a.get("columns", [])):
        for cv in (["c"], [], {"c": 3}):
            if a.get("categories") != cv:
                add(dict(a, categories=cv))
    v = dict(a)
    if "index" in v:
        v.pop("index")
    else:
        v["index"] = False
    add(v)
    v = dict(a)
    if "columns" in v:
        v.pop("columns")
    elif cols:
        v["columns"] = cols[:1] + (["c"] if has_c and cols[0] != "c" else [])
    if not (isinstance(v.get("categories"), (list, dict)) and v.get("categories") and "columns" in v and "c" not in v["columns"]):
        add(v)
    return out[:5]


def site_search(ctx, datasets, rng, quick, target):
    """A write site (file, line) follows a refuted pattern, or a write observed there is not an idempotent publication.
    Look for the victim with the witness interleavings of the refuted theorems: thread A is preempted right after it LEFT
    the statement (its n-th execution) or INSIDE it (after its j-th bytecode instruction); B - the same operation, then
    readers - runs completely in the gap; then A finishes."""
    file, line, end = target["site"]
    if target.get("part"):
        spec = gen_dataset(rng, "single", small=True)
        spec["nthreads"] = 2
        plans = [([[0, n, "left", file, line], [1, BIG, "lines"]], False) for n in (1, 2, 3, 5)]
        plans += [([[0, j, "in", file, line], [1, BIG, "lines"]], True) for j in (1, 2, 3, 5, 8, 12)]
        plans += [([[0, n, "left", file, line], [1, m, "left", file, line], [0, BIG, "lines"], [1, BIG, "lines"]], False) for n in (1, 2) for m in (1, 2)]
        res = part_round(spec, ctx.scratch, "site%s%d" % (file.replace(".", "_"), line), rng, trace=True, extra_plans=plans)
        ctx.case({"mode": "part", "dataset": spec, "site": target["site"]})
        ctx.count("forced.kind", "site-part")
        if res["bad"]:
            ctx.fail({"component": "part-writer", "op": "part", "symptom": res["bad"][0][1], "mode": res["bad"][0][0]},
                     {"mode": "part", "dataset": spec, "bad": res["bad"][:3], "site": target["site"]},
                     "part files written from threads differ from the sequential ones (writer preempted at %s:%d): %r" % (file, line, res["bad"][:2]))
        return
    spec, path, solo = datasets[0]
    a = target["op"]
    first = spec["cols"][0] if spec.get("cols") else None
    variants = option_variants(a, spec)
    readers = variants + [a, {"op": "schema_text"}, {"op": "columns"}, {"op": "statistics"},
                          {"op": "to_pandas", "columns": [first]} if first else {"op": "to_pandas"}, {"op": "count"}]
    runs = 0
    # publish-then-update (C20_publish_update_refuted): the writer is preempted right after it LEFT the offending statement (the
    # publication), a call of the same operation with OTHER per-call options runs completely, the writer finishes - both role orders
    for v in variants:
        for first_, second_ in ((a, v), (v, a)):
            for n in (1, 2):
                for ln in sorted(set([line] + [ln_ for ln_ in range(line, end + 1)])):
                    runs += 1
                    if check_pair(ctx, spec, path, solo, [first_, second_], [[0, n, "left", file, ln], [1, BIG, "lines"]], "site-variant", False):
                        ctx.extra["site_search_runs"] = ctx.extra.get("site_search_runs", 0) + runs
                        return
    # two specific preemptions: the reader B stands right BEFORE / right AFTER a statement that uses the location, then the
    # writer A runs until it is inside (or has just left) the offending statement, then B finishes, then A
    for fn_b, ln_b, b in target.get("readers_at", []):
        plans = []
        for unit_b in ("in", "left"):
            plans += [([[1, 1, unit_b, fn_b, ln_b], [0, n, "left", file, line], [1, BIG, "lines"], [0, BIG, "lines"]], False) for n in (1, 2)]
            if OPC["ok"]:
                plans += [([[1, 1, unit_b, fn_b, ln_b], [0, j, "in", file, line], [1, BIG, "lines"], [0, BIG, "lines"]], [True, False])
                          for j in (1, 2, 3, 4, 5, 6, 8, 10, 12, 16, 20)]
        for plan, opc in plans:
            runs += 1
            if check_pair(ctx, spec, path, solo, [a, b], plan, "site-double", opc):
                ctx.extra["site_search_runs"] = ctx.extra.get("site_search_runs", 0) + runs
                return
    # a reader that issues its operation TWICE on the shared handle (the second pass meets what the first cached), preempted after
    # its j-th bytecode instruction at a statement that mentions the location; the writer runs completely in the gap
    if OPC["ok"]:
        clock = Clock(ctx, "site_search", 150 if quick else 900)
        for fn_b, ln_b, b in target.get("readers_at", []):
            b2 = {"op": "seq", "ops": [b, b]}
            for j in range(1, 41):
                if clock.over():
                    break
                runs += 1
                if check_pair(ctx, spec, path, solo, [a, b2], [[1, j, "in", fn_b, ln_b], [0, BIG, "lines"], [1, BIG, "lines"]], "site-seq", [False, True]):
                    ctx.extra["site_search_runs"] = ctx.extra.get("site_search_runs", 0) + runs
                    return
    for b in readers:
        plans = [([[0, n, "left", file, line], [1, BIG, "lines"]], False) for n in (1, 2, 3)]
        if OPC["ok"]:
            plans += [([[0, j, "in", file, line], [1, BIG, "lines"]], [True, False]) for j in (1, 2, 3, 4, 6, 8, 12, 16)]
        for plan, opc in plans:
            runs += 1
            if check_pair(ctx, spec, path, solo, [a, b], plan, "site", opc):
                ctx.extra["site_search_runs"] = ctx.extra.get("site_search_runs", 0) + runs
                return
    ctx.extra["site_search_runs"] = ctx.extra.get("site_search_runs", 0) + runs


def multi_switch(ctx, datasets, rng, quick):
    """2-3 threads, random plans with many switches at line granularity (both directions)"""
    from fastparquet import ParquetFile
    n = 10 if quick else 60
    clock = Clock(ctx, "multi_switch", 60 if quick else 1200)
    for r in range(n):
        if clock.over():
            break
        spec, path, solo = datasets[r % len(datasets)]
        nt = rng.choice([2, 2, 3])
        ops = [gen_op(rng, spec) for _ in range(nt)]
        if r % 2 == 0:
            ops[0] = gen_op(rng, spec, rng.choice(["slice", "head", "iter", "count", "statistics"]))
        plan = [[rng.randrange(nt), rng.choice([1, 2, 3, 5, 10, 30, 100, 300]), "lines"] for _ in range(rng.choice([6, 12, 25, 60]))]
        pf = ParquetFile(path)
        res, steps, dead = conc.forced_run(pf, ops, [list(p) for p in plan], timeout=60.0)
        if dead and not confirmed_hang(ctx, path, ops):
            continue
        got = [conc.canon(x) for x in res]
        case = {"mode": "forced", "dataset": spec, "ops": ops, "plan": plan}
        ctx.case(case)
        ctx.count("forced.kind", "multi-switch-%d" % nt)
        for i, op in enumerate(ops):
            want = solo(op)
            if got[i] != want or dead:
                ctx.fail({"component": "shared-handle", "op": op["op"], "symptom": "hang" if dead else symptom(got[i]), "mode": "forced-multi"},
                         dict(case, failing_thread=i, solo=want, got=got[i]),
                         "thread %d (%s) under a %d-switch schedule: %r, alone: %r" % (i, okey(op), len(plan), got[i], want))
        if dead:
            raise Hung("multi-switch schedule of %s" % [okey(o) for o in ops])


def check_storm(ctx, spec, path, solo, a, b, every, phase, opcodes=False):
    from fastparquet import ParquetFile
    pf = ParquetFile(path)
    ares, bres, calls, dead = conc.storm_run(pf, a, b, every=every, phase=phase, opcodes=opcodes, timeout=90.0)
    if dead and not confirmed_hang(ctx, path, [a, b]):
        return False
    gb = conc.canon(bres)
    case = {"mode": "storm", "dataset": spec, "ops": [a, b], "every": every, "phase": phase}
    if opcodes:
        case["granularity"] = "opcode"
    ctx.case(case)
    ctx.count("storm.pair", a["op"] + "|" + b["op"])
    ctx.count("storm.granularity", "opcode" if opcodes else "line")
    ctx.extra["storm_calls"] = ctx.extra.get("storm_calls", 0) + calls
    wa, wb = solo(a), solo(b)
    failed = False
    if gb != wb or dead:
        failed = True
        ctx.fail({"component": "shared-handle", "op": b["op"], "other": a["op"], "symptom": "hang" if dead else symptom(gb), "mode": "storm"},
                 dict(case, failing_thread=1, solo=wb, got=gb),
                 "%s preempted at every %d-th line by a complete %s: %r, alone: %r" % (okey(b), every, okey(a), gb, wb))
    for ga in ares:
        if ga != wa:
            failed = True
            ctx.fail({"component": "shared-handle", "op": a["op"], "other": b["op"], "symptom": symptom(ga), "mode": "storm"},
                     dict(case, failing_thread=0, solo=wa, got=ga),
                     "%s run between the lines of %s: %r, alone: %r" % (okey(a), okey(b), ga, wa))
            break
    if dead:
        raise Hung("storm %s | %s" % (okey(a), okey(b)))
    return failed


def storm_search(ctx, datasets, rng, quick, share=None):
    """op b preempted at (nearly) every line, a complete op a in each gap.  a = the operations that write
    shared state on this tree (known from their footprint) first, then derived-handle operations."""
    from fastparquet import ParquetFile
    npairs = 16 if quick else 48
    max_calls = 500 if quick else 1500
    broken = bool(ctx.broken)
    clock = Clock(ctx, "storm", 70 if quick else 1200)
    if broken:
        npairs, max_calls = (24, 2500) if quick else (96, 8000)
    for n_, (spec, path, solo) in enumerate(datasets):
        writers = [{"op": "count", "filters": [["t", ">", {"dt": "2020-01-01T07:00"}]]}, {"op": "statistics"}, {"op": "slice_only", "i": 0, "j": 1},
                   {"op": "head", "n": 3, "columns": ["i"]}, {"op": "to_pandas", "columns": ["f"], "filters": [["f", ">", 5.0]]},
                   {"op": "index", "i": 0, "columns": ["i"]}, {"op": "sorted_cols", "filters": [["i", ">", 10]]}, {"op": "schema_text"},
                   {"op": "copy", "columns": ["i"]}]
        readers = [{"op": "sorted_cols"}, {"op": "columns"}, {"op": "to_pandas"}, {"op": "statistics"}, {"op": "count", "filters": [["t", "<=", {"dt": "2020-01-02T01:00"}]]},
                   {"op": "pickle"}, {"op": "head", "n": 4}, {"op": "iter", "columns": ["i", "s"]},
                   {"op": "to_pandas", "columns": ["s", "i"], "filters": [["i", "<=", spec.get("offsets", [0, 1])[1]]]}]
        if spec["kind"] == "file":
            fo = fixed_ops(spec)
            writers = [fo[4], fo[8], fo[9], fo[7], fo[5], fo[2], fo[-4], fo[-5], fo[-1]]
            readers = [fo[-4], fo[10], fo[0], fo[8], fo[9], fo[11], fo[7], fo[6], fo[1]]
        pairs = [(a, b) for a in writers for b in readers]
        rng.shuffle(pairs)
        # the cheap derived-handle operation against the small readers always; statistics use through the module-level
        # functions; two reads of different columns (per-call file handles: one shared file position would mix them up)
        cols_ = [c for c in spec.get("cols", []) if c in ("i", "f", "s")] or list(spec.get("cols", []))
        extra_b = ["b"] if "b" in spec.get("cols", []) else []      # (bit-packed booleans: both readers decode them)
        two_reads = ({"op": "to_pandas", "columns": cols_[:1] + extra_b}, {"op": "to_pandas", "columns": (cols_[1:2] or cols_[:1]) + extra_b})
        always = [(writers[2], readers[1]), (writers[0], readers[4])]
        if spec["kind"] != "file":
            always += [(writers[6], {"op": "statistics"}), two_reads]
            if "c" in spec.get("cols", []):
                always += [({"op": "to_pandas", "columns": ["c", "i"]}, {"op": "to_pandas", "columns": ["c", "i"], "categories": []}),
                           ({"op": "to_pandas", "columns": ["c", "i"], "categories": []}, {"op": "to_pandas", "columns": ["c", "i"]})]
        else:
            always += [two_reads]
        pairs = always + pairs
        for pi, (a, b) in enumerate(pairs[:max(len(always), npairs // (share or len(datasets)))]):
            if clock.over():
                break
            opc = OPC["ok"] and (pi % 2 == 0)
            wb = solo(b)          # (an operation that does not return alone ends the job here)
            try:
                nl = with_alarm(150, conc.count_steps, ParquetFile(path), b, None, opc)
            except TimeoutError:
                continue
            every = max(1, -(-nl // max_calls))
            check_storm(ctx, spec, path, solo, a, b, every, rng.randrange(every), opc)


def stress(ctx, datasets, rng, quick, r0=0, r1=None):
    from fastparquet import ParquetFile
    rounds = 32 if quick else 160
    clock = Clock(ctx, "stress", 80 if quick else 1500)
    for r in range(r0, rounds if r1 is None else r1):
        if clock.over():
            break
        spec, path, solo = datasets[r % len(datasets)]
        nt = [2, 3, 4, 8, 16, 2, 6, 12][r % 8] if r >= 2 else [2, 16][r]
        same = (r % 7 == 6)
        if same:
            op0 = gen_op(rng, spec, "to_pandas")
            lists = [[op0] for _ in range(nt)]
        else:
            lists = [[gen_op(rng, spec) for _ in range(rng.choice([1, 2, 3]))] for _ in range(nt)]
            # make sure derived handles and filtered reads meet plain reads in every round
            lists[0][0] = gen_op(rng, spec, rng.choice(["slice", "iter", "head", "index", "copy"]))
            lists[1][0] = gen_op(rng, spec, "to_pandas")
            if "t" in spec.get("cols", []) and spec["kind"] != "file":
                h = rng.randrange(1, max(2, spec["n"]))
                tf = [["t", rng.choice([">", ">=", "<", "<="]), {"dt": "2020-01-%02dT%02d:00" % (1 + h // 24, h % 24)}]]
                for ti in range(nt):
                    if ti % 2 == 0 or nt <= 4:
                        lists[ti].insert(0, {"op": rng.choice(["to_pandas", "count", "to_pandas"]), "filters": tf})
            # same shape, different row groups: two reads whose outputs have equal size and columns but different content
            offs = spec.get("offsets", [])
            if len(offs) >= 2 and nt >= 2:
                cut = offs[1]
                cols = rng.choice([None, ["i", "s"]])
                pair = [{"op": "to_pandas", "filters": [["i", "<", cut]]}, {"op": "to_pandas", "filters": [["i", ">=", cut], ["i", "<", 2 * cut]]}]
                for o in pair:
                    if cols:
                        o["columns"] = cols
                lists[0].append(pair[0])
                lists[1].append(pair[1])
                lists[rng.randrange(nt)].append(pair[rng.randrange(2)])
        pf = ParquetFile(path)
        early, late, hung = conc.stress_run(pf, lists, rng)
        case = {"mode": "stress", "dataset": spec, "op_lists": lists}
        ctx.case(case, trivial=same and len(lists[0][0]) == 1)
        ctx.count("stress.threads", nt)
        for l in lists:
            for op in l:
                ctx.count("stress.op", op["op"])
        reported = False
        if hung:
            # slowness of 16 threads switching every microsecond on a loaded machine is not a hang: the same round with
            # the default switch interval and a long deadline decides
            e2, l2, hung = conc.stress_run(ParquetFile(path), lists, rng, switch=0.005, deadline_s=240.0)
            if not hung:
                ctx.count("inconclusive", "round exceeded its deadline, finishes with the default switch interval")
                continue
        if hung:
            ctx.fail({"component": "shared-handle", "op": "round", "symptom": "hang", "mode": "stress"}, dict(case, hung=True),
                     "a free-running round of %d threads did not finish within %ds" % (nt, int(conc.STRESS_DEADLINE)))
            raise Hung("free-running round of %d threads" % nt)
        for i, l in enumerate(lists):
            for j, op in enumerate(l):
                want = solo(op)
                for when, got in (("right after the call", early[i][j]), ("after all threads finished", late[i][j])):
                    if got != want and not reported:
                        reported = True
                        others = sorted(set(o["op"] for ll in lists for o in ll))
                        det = determinise(spec, path, solo, op, [o for ll in lists for o in ll])
                        cls = {"component": "shared-handle", "op": op["op"], "symptom": "hang" if hung else symptom(got), "mode": "stress"}
                        if det is not None:
                            ctx.fail(cls, det, "found under free-running threads (%d threads, ops %s), reduced to a forced schedule: %r vs solo %r" % (
                                nt, others, det["got"], det["solo"]))
                        else:
                            ctx.fail(cls, dict(case, failing=[i, j], when=when, got=got, solo=want),
                                     "thread %d call %d (%s) %s: %r, alone: %r" % (i, j, okey(op), when, got, want))


def determinise(spec, path, solo, op_b, ops, limit=40):
    """try to turn a failure seen under free-running threads into a forced two-thread schedule"""
    from fastparquet import ParquetFile
    tried = 0
    seen = set()
    for a in ops:
        if okey(a) in seen:
            continue
        seen.add(okey(a))
        nw, nl = write_points(path, a)
        for k in range(0, nw + 1):
            if tried >= limit:
                return None
            tried += 1
            plan = [[0, k, "writes"], [1, BIG, "lines"]]
            pf = ParquetFile(path)
            res, steps, dead = conc.forced_run(pf, [a, op_b], [list(p) for p in plan])
            got = [conc.canon(x) for x in res]
            if dead:
                return {"mode": "forced", "dataset": spec, "ops": [a, op_b], "plan": plan, "failing_thread": 0, "solo": solo(a), "got": "hang"}
            for i, o in enumerate([a, op_b]):
                if got[i] != solo(o):
                    return {"mode": "forced", "dataset": spec, "ops": [a, op_b], "plan": plan, "failing_thread": i,
                            "solo": solo(o), "got": got[i]}
    return None


def part_writers(ctx, pq, rng, quick):
    """threads calling writer.make_part_file with a shared schema / file metadata object: bytes equal to the
    sequential ones; footprint on the shared object: no write at all (premise of C20_part_writer)"""
    import numpy as np
    from fastparquet import writer
    rounds = 8 if quick else 30
    clock = Clock(ctx, "part_writers", 90 if quick else 1500)
    for r in range(rounds):
        if clock.over():
            break
        spec = gen_dataset(rng, "single", small=True)
        spec["nthreads"] = [2, 4, 8, 16, 3][r % 5]
        case = {"mode": "part", "dataset": spec}
        res = part_round(spec, ctx.scratch, "pw%d" % r, rng, trace=(r < (2 if quick else 6)))
        ctx.case(case)
        ctx.count("part.threads", spec["nthreads"])
        if res["trace"] is not None:
            # premise of C20_footprint_confluence for writer threads: the shared schema / metadata object is Frozen (no write at
            # all); module-, class-, default-argument- and function-level state of the package (regenerated inventory) is Frozen
            # or Idem (only idempotent publications, at sites of non-refuted patterns); everything else a writer touches is its own
            inventory()
            evs = []
            for ch in res["trace"]:
                ch2, _ = drop_unread(ctx, ch, [], attrs=False)      # (the root is the shared thrift object: no handle attributes)
                evs += conc.trace_events(ch2, INV["idx"] or {})
            on_shared = [e for e in evs if not e[0].startswith("/@module/")]
            on_module = [e for e in evs if e[0].startswith("/@module/")]
            ctx.obligation("ownership premise [part writers, round %d]: make_part_file performs no write on the shared schema/metadata" % r,
                           not on_shared,
                           "shared file metadata changed during make_part_file: %s" % json.dumps(
                               [[e[0], e[1], e[2], e[3], (e[4] or {}).get("line") if isinstance(e[4], dict) else None] for e in on_shared[:4]])[:600])
            keys, vals = {}, {}
            flat = [[keys.setdefault(k_, len(keys)), [] if o_ is None else [vals.setdefault(o_, len(vals))],
                     [] if n_ is None else [vals.setdefault(n_, len(vals))], conc.PATTERN_CODE[p_]] for k_, o_, n_, p_, st in on_module]
            out = pq.call("conc_footprint_check", flat) if flat else [1, []]
            bad_ev = on_module[int(out[1][0][0])] if (out and out[1]) else None
            ctx.obligation("ownership premise [part writers, round %d]: module-/class-/default-level state is frozen or written idempotently "
                           "(extracted footprint_ok, %d events)" % (r, len(flat)), bool(out and out[0]),
                           "" if bad_ev is None else "location %s: %r -> %r at %s (pattern %s)" % (
                               bad_ev[0], bad_ev[1], bad_ev[2],
                               ("%s:%s" % (bad_ev[4]["file"], bad_ev[4]["line"])) if bad_ev[4] else "?", bad_ev[3]))
        if res["bad"]:
            ctx.fail({"component": "part-writer", "op": "part", "symptom": res["bad"][0][1], "mode": res["bad"][0][0]},
                     dict(case, bad=res["bad"][:3]), "part files written from threads differ from the sequential ones: %r" % (res["bad"][:3],))


def part_round(spec, scratch, tag, rng, trace=False, reps=1, extra_plans=None):
    import numpy as np
    from fastparquet import writer
    df = conc.build_frame(spec)
    nt = spec["nthreads"]
    # parts of different sizes (1, 2, 3, ... shares of the frame; every part non-empty)
    w = [1 + (i % 3) for i in range(nt)]
    cuts = [0]
    for i in range(nt):
        cuts.append(max(cuts[-1] + 1, min(len(df) - (nt - 1 - i), int(round(len(df) * sum(w[:i + 1]) / sum(w))))))
    cuts[-1] = len(df)
    frames = [df.iloc[cuts[i]:cuts[i + 1]] for i in range(nt)]
    root = os.path.join(scratch, tag)
    os.makedirs(root, exist_ok=True)
    fmd = writer.make_metadata(df)
    bad = []
    traces = None

    def paths(sub):
        d = os.path.join(root, sub)
        os.makedirs(d, exist_ok=True)
        return [os.path.join(d, "part.%d.parquet" % i) for i in range(nt)]
    # sequential reference, with a metadata object of its own
    ref_shared = {"fmd": writer.make_metadata(df), "frames": frames, "paths": paths("seq"), "compression": spec.get("compression")}
    ref = [conc.canon(conc.run_op_safe(None, {"op": "part", "i": i}, ref_shared)) for i in range(nt)]
    shared = {"fmd": fmd, "frames": frames, "paths": paths("thr"), "compression": spec.get("compression")}
    if trace:
        traces = []
        sh2 = dict(shared, paths=paths("trc"))
        for i in range(min(nt, 3)):
            res, changes, nl, _ = conc.trace_footprint(None, {"op": "part", "i": i}, shared=sh2, root=fmd)
            traces.append(changes)
            if conc.canon(res) != ref[i]:
                bad.append(["sequential-shared", symptom(conc.canon(res)), i, conc.canon(res), ref[i]])
    # forced two-writer schedules: writer a preempted right after each of its writes to the shared object (none on a
    # tree that satisfies the ownership premise) and at two arbitrary lines; writer b runs completely in the gap
    if trace:
        nw = max(len(ch) - 1 for ch in traces)
        nl = conc.count_steps(None, {"op": "part", "i": 0}, dict(shared, paths=paths("cnt")))
        plans = [[[0, k, "writes"], [1, 10 ** 9, "lines"]] for k in range(1, min(nw, 3) + 1)]
        # both writers in the middle of their writes to the shared object: a after its k-th, b until its j-th, a finishes, b finishes
        plans += [[[0, k, "writes"], [1, j, "writes"], [0, 10 ** 9, "lines"], [1, 10 ** 9, "lines"]]
                  for k in range(1, min(nw, 3) + 1) for j in range(1, min(nw, 3) + 1)]
        plans += [[[0, rng.randrange(1, max(2, nl)), "lines"], [1, 10 ** 9, "lines"]] for _ in range(2)]
        plans.append([[0, max(1, nl - rng.randrange(1, 12)), "lines"], [1, 10 ** 9, "lines"]])
        plans = [(p_, False) for p_ in plans] + list(extra_plans or [])
        for pi, (plan, popc) in enumerate(plans):
            a, b = rng.sample(range(nt), 2)
            shf = dict(shared, paths=paths("forced%d" % pi))
            res, steps, dead = conc.forced_run(None, [{"op": "part", "i": a}, {"op": "part", "i": b}], [list(p) for p in plan], shared=shf, root=fmd,
                                               timeout=90.0, opcodes=popc)
            if dead:
                e_, l_, h_ = conc.stress_run(None, [[{"op": "part", "i": a}], [{"op": "part", "i": b}]], rng, shared=shf, switch=0.005, deadline_s=240.0)
                if not h_:
                    continue            # scheduler time-out on a loaded machine, the writers finish when free-running
            for t_, i in enumerate((a, b)):
                g = conc.canon(res[t_])
                if g != ref[i] or dead:
                    bad.append(["forced", "hang" if dead else symptom(g), i, g, ref[i], plan, [a, b]])
    # free-running writers; when the shared object is written at all (ownership premise broken) many more trials
    trials = reps if not (traces and any(len(ch) > 1 for ch in traces)) else max(reps, 25)
    for t_ in range(trials):
        sh = shared if t_ == 0 else dict(shared, paths=paths("thr%d" % t_))
        early, late, hung = conc.stress_run(None, [[{"op": "part", "i": i}] for i in range(nt)], rng, shared=sh)
        if hung:
            early, late, hung = conc.stress_run(None, [[{"op": "part", "i": i}] for i in range(nt)], rng, shared=sh, switch=0.005, deadline_s=240.0)
        nb = len(bad)
        for i in range(nt):
            if late[i][0] != ref[i] or hung:
                bad.append(["stress", "hang" if hung else symptom(late[i][0]), i, late[i][0], ref[i], {"trial": t_}])
        if len(bad) > nb:
            break
    return {"bad": bad, "trace": traces}


# ---------------------------------------------------------------------------------------------
# replay
# ---------------------------------------------------------------------------------------------

def replay(rep):
    """Re-execute a recorded case on the real code (real threads) and print what the property observes."""
    import random
    C.use_shadow()
    conc.start_solo_server()        # pristine process for the solo results, forked before anything is executed here
    if rep.get("kind") == "no-failing-input-found":
        print(json.dumps(rep, indent=1)[:6000])
        return 1
    case = rep["case"]
    tmp = tempfile.mkdtemp(prefix="verif-C20-replay-", dir="/tmp")
    try:
        from fastparquet import ParquetFile
        mode = case["mode"]
        if mode == "job":
            job = dict(case["job"], scratch=tmp)
            if "datasets" in job:       # generated datasets lived in the scratch directory of the failing run: rebuild them
                job["datasets"] = [(sp, conc.build_dataset(sp, os.path.join(tmp, "d%d" % i)) if not os.makedirs(os.path.join(tmp, "d%d" % i), exist_ok=True) else None)
                                   for i, (sp, _) in enumerate(job["datasets"])]
            res = C.pmap(_job, [job], nproc=1, job_timeout=1200)[0]
            if isinstance(res, dict) and "__crashed__" in res:
                print("phase %r again: %s -> PROPERTY FAILS (the process running the operations died or hung)" % (job["phase"], res["__crashed__"]))
                return 1
            fails = [c for c in res["calls"] if c[0] == "fail"]
            print("phase %r again: worker finished, %d failing cases recorded" % (job["phase"], len(fails)))
            for c in fails[:3]:
                print("   ", str(c[1][2])[:300])
            return 1 if fails else 0
        if mode == "codec":
            bad = 0
            for t in range(20):
                seq, thr = conc.codec_threads(case["threads"], case["calls"])
                if seq != thr:
                    print("round %d: codec streams differ: %r vs %r -> PROPERTY FAILS" % (t, thr, seq))
                    bad = 1
                    break
            if not bad:
                print("20 rounds: every codec stream gives from %d threads the bytes it gives alone" % case["threads"])
            return bad
        spec = case["dataset"]
        if mode == "part":
            bad = 0
            for t in range(20):
                res = part_round(spec, tmp, "r%d" % t, random.Random(t), trace=(t == 0))
                if res["bad"]:
                    print("round %d: part files differ from the sequential ones: %r" % (t, res["bad"][:2]))
                    bad = 1
                    break
            if not bad:
                print("20 rounds: all part files byte-identical to the sequential ones")
            return bad
        path = conc.build_dataset(spec, tmp)
        solo = Solo(path)
        g = case.get("granularity")
        opc = [x == "opcode" for x in g] if isinstance(g, list) else (g == "opcode")
        if (opc if not isinstance(opc, list) else any(opc)) and not conc.warm_opcodes():
            print("opcode tracing unavailable")
            return 1
        if mode == "forced":
            pf = ParquetFile(path)
            res, steps, dead = conc.forced_run(pf, case["ops"], [list(p) for p in case["plan"]], opcodes=opc, deep=bool(case.get("deep")))
            got = [conc.canon(r) for r in res]
            bad = 0
            for i, op in enumerate(case["ops"]):
                want = solo(op)
                ok = (got[i] == want) and not dead
                print("thread %d %s\n   under schedule %s: %r\n   alone: %r\n   -> %s" % (
                    i, okey(op), case["plan"], got[i], want, "same" if ok else "PROPERTY FAILS"))
                bad |= (not ok)
            return int(bad)
        if mode == "storm":
            pf = ParquetFile(path)
            a, b = case["ops"]
            ares, bres, calls, dead = conc.storm_run(pf, a, b, every=case["every"], phase=case["phase"], opcodes=opc)
            gb = conc.canon(bres)
            wa, wb = solo(a), solo(b)
            bad = 0
            okb = (gb == wb) and not dead
            print("thread 1 %s preempted at every %d-th line, thread 0 runs %s in each gap (%d calls)\n   thread 1: %r\n   alone:    %r\n   -> %s" % (
                okey(b), case["every"], okey(a), calls, gb, wb, "same" if okb else "PROPERTY FAILS"))
            bad |= (not okb)
            for ga in ares:
                print("   thread 0 result %r, alone %r -> %s" % (ga, wa, "same" if ga == wa else "PROPERTY FAILS"))
                bad |= (ga != wa)
            return int(bad)
        if mode == "sequence":
            pf = ParquetFile(path)
            bad = 0
            for op in case["ops"]:
                got = conc.canon(conc.run_op_safe(pf, op))
                want = solo(op)
                print("%s on the shared handle: %r; alone: %r -> %s" % (okey(op), got, want, "same" if got == want else "PROPERTY FAILS"))
                bad |= (got != want)
            return int(bad)
        if mode == "stress":
            for t in range(40):
                pf = ParquetFile(path)
                early, late, hung = conc.stress_run(pf, case["op_lists"], random.Random(t))
                for i, l in enumerate(case["op_lists"]):
                    for j, op in enumerate(l):
                        want = solo(op)
                        if early[i][j] != want or late[i][j] != want or hung:
                            print("round %d: thread %d call %d %s: %r / %r, alone: %r -> PROPERTY FAILS" % (
                                t, i, j, okey(op), early[i][j], late[i][j], want))
                            return 1
            print("40 free-running rounds: every result equals the solo result (not reproduced)")
            return 0
        print(json.dumps(rep, indent=1)[:4000])
        return 1
    finally:
        shutil.rmtree(tmp, ignore_errors=True)
