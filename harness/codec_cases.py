"""Case lattice, model commands, spec oracle and classification for the native codecs (shared by C11 and C12).

A case is a plain dict (it is what a replay stores): {"fn": ..., parameters of the real call ..., "stream": "main" |
"confirm", "meta": {...values the input was built from...}}.  Inputs are produced by the SPEC encoders (pqref);
`FNS[fn]` says how to run the impl model on a case, which spec command is the oracle, how the oracle judges the real
result, and how a failing case is classified for findings.d.
"""
import json
import os

from harness import common as C
from harness import codec_lib as L

RULE = ("enumerated lattice, not sampled: widths 0..32 (0..64 delta) x counts around multiples of 8 / the miniblock size x "
        "patterns {zeros, ones, alternating, random} x output capacities {0, 1 item, count-1, count, count+1 items, odd byte counts} "
        "(every capacity 0..count+1 in the thorough tier) x item sizes 1 and 4 x varint lengths 1..10; inputs are built by the SPEC "
        "encoders; the only random choices (random pattern, run mixtures) come from the run's PRNG. A case is trivial when nothing "
        "is to be decoded/encoded (count 0 or capacity 0); distinct = distinct (function, parameters, input bytes) tuples. "
        "Known-bad regions (bit-packed width >= 25, empty bit-packed runs, delta width >= 29) form the separate 'confirm' stream.")

TRAIL = bytes([0x5A, 0xC3, 0x81])      # bytes that follow the encoded run in the input buffer (must never be touched/consumed)


# ---------------------------------------------------------------------------------------------
# value patterns
# ---------------------------------------------------------------------------------------------

def patterns(rng, w, n):
    m = (1 << w) - 1
    a, b = 0x5555555555555555 & m, 0xAAAAAAAAAAAAAAAA & m
    return [("zeros", [0] * n), ("ones", [m] * n),
            ("alternating", [(b if i % 2 else a) for i in range(n)]),
            ("random", [rng.randrange(m + 1) for _ in range(n)])]


def caps_items(count, isz, full):
    """output capacities in BYTES for a decoder asked for `count` items"""
    if full:
        ks = list(range(0, count + 2))
    else:
        ks = sorted({0, 1, max(count - 1, 0), count, count + 1})
    out = [k * isz for k in ks]
    if isz == 4:
        out += [1, 3, 4 * max(count - 1, 0) + 2, 4 * count + 3]
    return sorted(set(out))


# ---------------------------------------------------------------------------------------------
# generation (phase 1: abstract cases with "enc" = spec command that builds the input)
# ---------------------------------------------------------------------------------------------

def generate(rng, quick):
    cases = []
    N = 40 if quick else 120
    groups = [0, 1, 2, 3, 5] if quick else [0, 1, 2, 3, 4, 5, 8, 15]
    # ---- A: read_bitpacked ------------------------------------------------------------------
    for w in range(0, 33):
        for g in groups:
            for isz in (1, 4):
                for pname, vs in patterns(rng, w, 8 * g):
                    if g == 0 and pname != "zeros":
                        continue
                    full = (not quick) and g <= 3
                    for cap in caps_items(8 * g, isz, full or (quick and g == 1 and pname == "random")):
                        empty = (g == 0 or w == 0) and not (w == 1 and isz == 1)
                        bad = (w >= 25 and g > 0 and not (w == 1 and isz == 1)) or empty
                        cases.append({"fn": "read_bitpacked", "header": 2 * g + 1, "w": w, "isz": isz, "cap": cap,
                                      "enc": ["bp_enc", w, vs], "trail": True,
                                      "stream": "confirm" if bad else "main",
                                      "meta": {"g": g, "pattern": pname, "empty_run": empty}})
    # the same without any byte behind the run (what a page ending in the run looks like)
    for w in (1, 2, 3, 7, 8, 9, 15, 16, 17, 23, 24):
        for g in (1, 2):
            for isz in (1, 4):
                vs = patterns(rng, w, 8 * g)[3][1]
                cases.append({"fn": "read_bitpacked", "header": 2 * g + 1, "w": w, "isz": isz, "cap": 8 * g * isz,
                              "enc": ["bp_enc", w, vs], "trail": False, "stream": "main",
                              "meta": {"g": g, "pattern": "random", "empty_run": False}})
    # ---- B: read_rle ------------------------------------------------------------------------
    counts = [0, 1, 2, 7, 8, 9, N]
    for w in range(0, 33):
        for cnt in counts:
            for isz in (1, 4):
                for pname, vs in patterns(rng, w, 1):
                    if w == 0 and pname != "zeros":
                        continue
                    for cap in caps_items(cnt, isz, (not quick) and cnt <= 9):
                        cases.append({"fn": "read_rle", "header": 2 * cnt, "w": w, "isz": isz, "cap": cap,
                                      "enc": ["fixed_enc", (w + 7) // 8, vs], "trail": True, "stream": "main",
                                      "meta": {"count": cnt, "pattern": pname, "value": vs[0]}})
    # ---- C: hybrid streams ------------------------------------------------------------------
    nmix = 3 if quick else 10
    for w in range(0, 33):
        shapes = ["rle-only"]
        shapes += ["bp-only", "mixed", "mixed"] * 1
        for shape in shapes:
            for rep in range(nmix if shape == "mixed" else 1):
                runs = []
                nr = 1 if shape != "mixed" else rng.choice([2, 3, 4])
                for i in range(nr):
                    kind = {"rle-only": "rle", "bp-only": "bp"}.get(shape) or rng.choice(["rle", "bp"])
                    if shape == "mixed" and i == 0 and rep == 0:
                        kind = "bp"
                    if kind == "rle":
                        runs.append(["rle", rng.choice([1, 2, 7, 8, 9, 33]), rng.randrange(1 << w)])
                    else:
                        n = rng.choice([1, 5, 8, 9, 16, 24])
                        runs.append(["bp", patterns(rng, w, n)[rng.randrange(4)][1]])
                has_bp = any(r[0] == "bp" for r in runs)
                total = sum(r[1] if r[0] == "rle" else (len(r[1]) + 7) // 8 * 8 for r in runs)
                bad = has_bp and (w >= 25 or w == 0)
                wants = sorted({0, 1, total - 1, total, total + 1, rng.randrange(total + 1)})
                for isz in (1, 4):
                    for n in wants:
                        if n < 0:
                            continue
                        for extra in ((0,) if isz == 1 else (0, 2)):
                            for prefixed in (False, True):
                                if prefixed and (extra or n not in (total, total + 1, 1)):
                                    continue
                                cases.append({"fn": "read_hybrid", "w": w, "isz": isz, "cap": n * isz + extra,
                                              "prefixed": prefixed,
                                              "enc": ["hyb_enc_len" if prefixed else "hyb_enc", w, runs], "trail": True,
                                              "stream": "confirm" if bad else "main",
                                              "meta": {"runs": runs, "total": total, "has_bp": has_bp, "shape": shape,
                                                       "empty_run": has_bp and w == 0}})
    # ---- D: varints -------------------------------------------------------------------------
    for ln in range(1, 11):
        lo = 0 if ln == 1 else 1 << (7 * (ln - 1))
        hi = min((1 << (7 * ln)) - 1, (1 << 64) - 1)
        vals = sorted({lo, hi, lo + 1, hi - 1, rng.randrange(lo, hi + 1), rng.randrange(lo, hi + 1)})
        for v in vals:
            if v < 0:
                continue
            cases.append({"fn": "read_varint", "enc": ["uleb_enc", v], "trail": True, "stream": "main",
                          "meta": {"value": v, "len": ln}})
            for cap in sorted({0, 1, ln - 1, ln, ln + 1, 10}):
                cases.append({"fn": "enc_varint", "x": v, "cap": cap, "stream": "main", "meta": {"len": ln}})
    # non-canonical (padded) encodings: continuation bytes carrying zero groups
    for v, pad in ((0, 1), (1, 3), (300, 2), (127, 8)):
        raw = _uleb_py(v)
        raw = raw[:-1] + bytes([raw[-1] | 0x80]) + bytes([0x80] * (pad - 1)) + b"\x00"
        if len(raw) <= 10:
            cases.append({"fn": "read_varint", "inp": raw.hex() + TRAIL.hex(), "stream": "main",
                          "meta": {"value": v, "len": len(raw), "noncanonical": True}})
    # ---- E: read_bitpacked1 -----------------------------------------------------------------
    for cnt in range(0, N + 1):
        for pname, vs in patterns(rng, 1, cnt):
            if quick and pname in ("zeros", "ones") and cnt % 8 not in (0, 1, 7):
                continue
            for cap in sorted({0, 1, max(cnt - 1, 0), cnt, cnt + 1, cnt + 8, max(cnt - 8, 0)}):
                cases.append({"fn": "read_bitpacked1", "count": cnt, "cap": cap, "enc": ["bool_enc", vs], "trail": True,
                              "stream": "main", "meta": {"pattern": pname}})
    for gen in EXTRA_GENERATORS:
        cases += gen(rng, quick)
    # ---- phase 2: inputs from the spec encoders ---------------------------------------------
    idx = [i for i, c in enumerate(cases) if "enc" in c]
    outs = L.pq_batch([tuple(cases[i]["enc"]) for i in idx])
    for i, o in zip(idx, outs):
        c = cases[i]
        if not isinstance(o, (bytes, bytearray)):
            raise RuntimeError("spec encoder failed on %r: %r" % (c["enc"], o))
        c["inp"] = (bytes(o) + (TRAIL if c.get("trail") else b"")).hex()
        c["enc_len"] = len(o)
        del c["enc"]
        if c["fn"] == "read_hybrid":
            c["length"] = 0 if c["prefixed"] else len(o)
    return cases


EXTRA_GENERATORS = []      # filled by later stages (delta, encoders, byte arrays, booleans)


def _uleb_py(n):
    out = bytearray()
    while n > 127:
        out.append((n & 127) | 128)
        n >>= 7
    out.append(n)
    return bytes(out)


# ---------------------------------------------------------------------------------------------
# per-function tables: impl-model command, views, spec oracle, classification
# ---------------------------------------------------------------------------------------------

def _inp(c):
    return bytes.fromhex(c["inp"])


def _dec_views(c, mo, r, guard):
    isz = c.get("isz", 1)
    mv = L.model_decoder_view(mo, isz, c["cap"], guard)
    iv = L.impl_decoder_view(r)
    return mv, iv


def _n_items(c, count):
    return min(count, c["cap"] // c.get("isz", 1))


def _check_decoder(c, r, want_vals, want_in, want_out, guard, isz=None):
    """problems of a decoder result against the spec expectation"""
    isz = isz or c.get("isz", 1)
    probs = []
    if r[0] != "ok":
        return [(r[0], "real code: %r" % (r,))]
    exp = L.expect_outbuf(want_vals, isz, c["cap"], guard)
    if r[1] != exp:
        got = bytes.fromhex(r[1])
        nb = len(want_vals) * isz
        if got[nb:] != bytes([L.FILL]) * (len(got) - nb):
            probs.append(("overwrite", "bytes behind the %d requested values were written: %s" % (len(want_vals), got[nb:nb + 24].hex())))
        if got[:nb] != bytes.fromhex(exp)[:nb]:
            probs.append(("values", "decoded values differ from the specification: got %s want %s" % (got[:nb][:48].hex(), exp[:2 * nb][:96])))
    if want_out is not None and r[3] != want_out:
        probs.append(("count", "output cursor %d, expected %d (exactly min(count, capacity) values)" % (r[3], want_out)))
    if want_in is not None and r[2] != want_in:
        probs.append(("cursor", "input cursor advanced by %d, the run occupies %d bytes" % (r[2], want_in)))
    return probs


# --- read_bitpacked
def _rb_model(c):
    return ("c_read_bitpacked", _inp(c), c["header"], c["w"], c["cap"], c["isz"])


def _rb_spec(c):
    n = _n_items(c, 8 * (c["header"] >> 1))
    return ("bp_dec", c["w"], n, _inp(c)[:c["enc_len"]])


def _rb_oracle(c, r, so, guard):
    if c["w"] > 8 * c["isz"]:
        return []            # values do not fit the item: only the correspondence speaks
    g = c["header"] >> 1
    n = _n_items(c, 8 * g)
    return _check_decoder(c, r, so, g * c["w"], n * c["isz"], guard)


def _rb_safe(c):
    g = c["header"] >> 1
    if c["w"] == 1 and c["isz"] == 1:
        return True
    return 0 < c["w"] <= 24 and g > 0


# --- read_rle
def _rle_spec(c):
    n = _n_items(c, c["header"] >> 1)
    return ("hyb_dec", 0, c["w"], n, _uleb_py(c["header"]) + _inp(c)[:c["enc_len"]])


def _rle_oracle(c, r, so, guard):
    if c["w"] > 8 * c["isz"]:
        return []
    n = _n_items(c, c["header"] >> 1)
    vals = so[0][0] if so else None
    if vals is None:
        return [("spec", "spec decoder rejects the run")]
    return _check_decoder(c, r, vals, (c["w"] + 7) // 8, n * c["isz"], guard)


# --- hybrid
def _hy_model(c):
    return ("c_read_hybrid", _inp(c), c["w"], c["length"], c["cap"], c["isz"])


def _hy_spec(c):
    n = _n_items(c, c["meta"]["total"])
    return ("hyb_dec_len" if c["prefixed"] else "hyb_dec", 0, c["w"], n, _inp(c)[:c["enc_len"]])


def _hy_oracle(c, r, so, guard):
    if c["w"] > 8 * c["isz"]:
        return []
    n = _n_items(c, c["meta"]["total"])
    if not so:
        return [("spec", "spec decoder rejects the stream")]
    vals, rest = so[0]
    want_in = None
    if not c["prefixed"] and c["cap"] % c["isz"] == 0:
        want_in = c["enc_len"] - len(rest)
    return _check_decoder(c, r, vals, want_in, n * c["isz"], guard)


def _hy_safe(c):
    return not (c["meta"]["has_bp"] and (c["w"] == 0 or c["w"] > 24))


# --- read_bitpacked1
def _b1_oracle(c, r, so, guard):
    n = min(c["count"], c["cap"])
    return _check_decoder(c, r, so, (c["count"] + 7) // 8, n, guard, isz=1)


# --- varint
def _vi_views(c, mo, r, guard):
    t = L.tag(mo)
    mv = [mo[1], mo[2]] if t == "ok" else t
    iv = [r[1], r[2]] if r[0] == "ok" else r[:2]
    return mv, iv


def _vi_oracle(c, r, so, guard):
    if r[0] != "ok":
        return [(r[0], "real code: %r" % (r,))]
    if not so:
        return [("spec", "spec decoder rejects the varint")]
    v, rest = so[0]
    if v >= 1 << 64:
        return []
    used = len(_inp(c)) - len(rest)
    probs = []
    if r[1] != v:
        probs.append(("values", "read_unsigned_var_int returned %d, the bytes encode %d" % (r[1], v)))
    if r[2] != used:
        probs.append(("cursor", "cursor advanced by %d, the varint has %d bytes" % (r[2], used)))
    return probs


def _ev_views(c, mo, r, guard):
    b, left = mo
    mv = [L.expect_raw(bytes(b), c["cap"], guard), c["cap"] - left]
    iv = [r[1], r[2]] if r[0] == "ok" else r[:2]
    return mv, iv


def _ev_oracle(c, r, so, guard):
    if r[0] != "ok":
        return [(r[0], "real code: %r" % (r,))]
    enc = bytes(so)
    if c["cap"] < len(enc):
        # too small a buffer: the only requirement is that nothing is written behind it
        got = bytes.fromhex(r[1])
        if got[c["cap"]:] != bytes([L.FILL]) * (len(got) - c["cap"]):
            return [("overwrite", "bytes behind the output buffer were written")]
        return []
    probs = []
    if r[1] != L.expect_raw(enc, c["cap"], guard):
        probs.append(("values", "encode_unsigned_varint(%d) wrote %s, ULEB128 is %s" % (c["x"], r[1][:2 * len(enc) + 4], enc.hex())))
    if r[2] != len(enc):
        probs.append(("cursor", "output cursor %d, the varint has %d bytes" % (r[2], len(enc))))
    return probs


FNS = {
    "read_bitpacked": dict(model=_rb_model, views=_dec_views, spec=_rb_spec, oracle=_rb_oracle, safe=_rb_safe,
                           cls=lambda c: {"width": c["w"], "isz": c["isz"], "empty_run": c["meta"]["empty_run"]},
                           trivial=lambda c: c["header"] >> 1 == 0 or c["cap"] < c["isz"]),
    "read_rle": dict(model=lambda c: ("c_read_rle", _inp(c), c["header"], c["w"], c["cap"], c["isz"]), views=_dec_views,
                     spec=_rle_spec, oracle=_rle_oracle, safe=lambda c: True,
                     cls=lambda c: {"width": c["w"], "isz": c["isz"]},
                     trivial=lambda c: c["header"] >> 1 == 0 or c["cap"] < c["isz"]),
    "read_hybrid": dict(model=_hy_model, views=_dec_views, spec=_hy_spec, oracle=_hy_oracle, safe=_hy_safe,
                        cls=lambda c: {"width": c["w"], "isz": c["isz"], "has_bp": c["meta"]["has_bp"],
                                       "empty_run": c["meta"]["empty_run"]},
                        trivial=lambda c: c["cap"] < c["isz"]),
    "read_bitpacked1": dict(model=lambda c: ("c_read_bitpacked1", _inp(c), c["count"], c["cap"]), views=_dec_views,
                            spec=lambda c: ("bool_dec", min(c["count"], c["cap"]), _inp(c)[:c["enc_len"]]),
                            oracle=_b1_oracle, safe=lambda c: True, cls=lambda c: {"width": 1, "isz": 1},
                            trivial=lambda c: c["count"] == 0 or c["cap"] == 0),
    "read_varint": dict(model=lambda c: ("c_varint", _inp(c)), views=_vi_views, spec=lambda c: ("uleb_dec", _inp(c)),
                        oracle=_vi_oracle, safe=lambda c: True, cls=lambda c: {"len": c["meta"]["len"]},
                        trivial=lambda c: False),
    "enc_varint": dict(model=lambda c: ("c_enc_varint", c["x"], c["cap"]), views=_ev_views,
                       spec=lambda c: ("uleb_enc", c["x"]), oracle=_ev_oracle, safe=lambda c: True, tagged=False,
                       cls=lambda c: {"len": c["meta"]["len"]}, trivial=lambda c: c["cap"] == 0),
}


# ---------------------------------------------------------------------------------------------
# running a list of cases: correspondence + oracle
# ---------------------------------------------------------------------------------------------

def worker_case(c):
    return {k: v for k, v in c.items() if k not in ("meta", "stream", "enc_len", "trail")}


def short(c):
    d = {k: v for k, v in c.items() if k != "meta"}
    d["meta"] = {k: v for k, v in c.get("meta", {}).items() if k not in ("runs",)}
    return d


def check_cases(ctx, pid, cases, workdir, sanitize):
    guard = 0 if sanitize else L.GUARD
    real = L.run_real([worker_case(c) for c in cases], workdir, sanitize=sanitize, nproc=4 if ctx.quick() else 8)
    mouts = L.pq_batch([FNS[c["fn"]]["model"](c) for c in cases], nproc=4)
    souts = L.pq_batch([FNS[c["fn"]]["spec"](c) for c in cases], nproc=4)
    for c, r, mo, so in zip(cases, real, mouts, souts):
        judge(ctx, pid, c, r, mo, so, guard, sanitize)


def judge(ctx, pid, c, r, mo, so, guard, sanitize, verbose=False):
    """returns True when the property fails on this case"""
    f = FNS[c["fn"]]
    fn = c["fn"]
    ctx.case({"fn": fn, "case": worker_case(c)}, trivial=f["trivial"](c))
    ctx.count("function", fn)
    ctx.count("stream", c["stream"])
    if "w" in c:
        ctx.count("width", c["w"])
    cls = {"component": fn, "stream": c["stream"]}
    cls.update(f["cls"](c))
    failed = False
    mtag = L.tag(mo) if f.get("tagged", True) else None
    model_ok = mtag in (None, "ok")
    if mtag == "error":
        raise RuntimeError("pqref rejected the command for %r: %r" % (short(c), mo))
    # the theorem's guard, evaluated on the case, must imply a safe model verdict
    if f["safe"](c):
        ctx.correspondence("guard of the %s theorem => impl model returns Ok" % fn, short(c), True, model_ok)
    crashed = r[0] in ("crash", "asan", "ubsan", "missing")
    if crashed:
        failed |= ctx.fail(dict(cls, kind=r[0], verdict=mtag or "ok"), short(c), "real code: %r" % (r,))
        if model_ok:
            ctx.correspondence("impl model verdict Ok <=> clean execution of %s" % fn, short(c), "clean", r[0])
    if model_ok and not crashed:
        mv, iv = f["views"](c, mo, r, guard)
        ctx.correspondence("%s ~ impl model (output buffer incl. guard, cursors)" % fn, short(c), mv, iv)
    if not model_ok:
        # outside the region where the compiled code has a defined meaning: must be a listed finding
        failed |= ctx.fail(dict(cls, kind="model-unsafe", verdict=mtag), short(c),
                           "the model of the compiled code reports %s on this well-formed input" % mtag.upper())
    if not crashed:
        for kind, detail in f["oracle"](c, r, so, guard):
            failed |= ctx.fail(dict(cls, kind=kind, verdict=mtag or "ok"), short(c), detail)
            if verbose:
                print("  property fails [%s]: %s" % (kind, detail))
    return failed


def lattice_summary(cases):
    out = {}
    for c in cases:
        k = c["fn"] + "/" + c["stream"]
        out[k] = out.get(k, 0) + 1
    return out


def replay_case(case, sanitize):
    """re-execute one recorded case on the real code (subprocess) and on the models; 1 if the property still fails"""
    import shutil
    import tempfile
    C.coq_lib()
    tmp = tempfile.mkdtemp(prefix="verif-codec-replay-", dir="/tmp")
    try:
        c = dict(case)
        f = FNS[c["fn"]]
        r = L.run_real([worker_case(c)], tmp, sanitize=sanitize, nproc=1)[0]
        mo = L.pq_batch([f["model"](c)])[0]
        so = L.pq_batch([f["spec"](c)])[0]
        print("case      :", json.dumps(short(c))[:1500])
        print("real code :", json.dumps(r)[:600])
        print("impl model:", repr(mo)[:600])
        print("spec      :", repr(so)[:600])

        class Ctx0:
            def case(self, *a, **k): pass
            def count(self, *a, **k): pass
            def correspondence(self, name, case, a, b):
                if a != b:
                    print("  correspondence differs [%s]: model %r impl %r" % (name, str(a)[:200], str(b)[:200]))
                return a == b
            def fail(self, cls, case, detail):
                print("  PROPERTY FAILS %s: %s" % (json.dumps(cls), detail))
                return True
        bad = judge(Ctx0(), "replay", c, r, mo, so, 0 if sanitize else L.GUARD, sanitize)
        print("=> property %s on this case" % ("FAILS" if bad else "holds"))
        return 1 if bad else 0
    finally:
        shutil.rmtree(tmp, ignore_errors=True)
