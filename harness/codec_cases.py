"""Case lattice, model commands, spec oracle and classification for the native codecs (shared by C11 and C12).

A case is a plain dict (it is what a replay stores): {"fn": ..., parameters of the real call ..., "stream": "main" |
"confirm", "meta": {...values the input was built from...}}.  Inputs are produced by the SPEC encoders (pqref);
`FNS[fn]` says how to run the impl model on a case, which spec command is the oracle, how the oracle judges the real
result, and how a failing case is classified for findings.d.
"""
import json
import os

from harness import common as C
from harness import codec_lib as L

RULE = ("enumerated lattice, not sampled: widths 0..32 (0..64 delta) x counts around multiples of 8 / the miniblock size x "
        "patterns {zeros, ones, alternating, random} x output capacities {0, 1 item, count-1, count, count+1 items, odd byte counts} "
        "(every capacity 0..count+1 in the thorough tier) x item sizes 1 and 4 x varint lengths 1..10; inputs are built by the SPEC "
        "encoders; the only random choices (random pattern, run mixtures) come from the run's PRNG. A case is trivial when nothing "
        "is to be decoded/encoded (count 0 or capacity 0); distinct = distinct (function, parameters, input bytes) tuples. "
        "Known-bad regions (bit-packed width >= 25, empty bit-packed runs, delta width >= 29) form the separate 'confirm' stream.")

TRAIL = bytes([0x5A, 0xC3, 0x81])      # bytes that follow the encoded run in the input buffer (must never be touched/consumed)


# ---------------------------------------------------------------------------------------------
# value patterns
# ---------------------------------------------------------------------------------------------

def patterns(rng, w, n):
    m = (1 << w) - 1
    a, b = 0x5555555555555555 & m, 0xAAAAAAAAAAAAAAAA & m
    return [("zeros", [0] * n), ("ones", [m] * n),
            ("alternating", [(b if i % 2 else a) for i in range(n)]),
            ("random", [rng.randrange(m + 1) for _ in range(n)])]


def caps_items(count, isz, full):
    """output capacities in BYTES for a decoder asked for `count` items"""
    if full:
        ks = list(range(0, count + 2))
    else:
        ks = sorted({0, 1, max(count - 1, 0), count, count + 1})
    out = [k * isz for k in ks]
    if isz == 4:
        out += [1, 3, 4 * max(count - 1, 0) + 2, 4 * count + 3]
    return sorted(set(out))


# ---------------------------------------------------------------------------------------------
# generation (phase 1: abstract cases with "enc" = spec command that builds the input)
# ---------------------------------------------------------------------------------------------

C12_W32 = {0, 1, 3, 8, 9, 16, 23, 24, 25, 26, 31, 32}
C12_W64 = {0, 1, 8, 24, 28, 29, 32, 33, 56, 57, 63, 64}


def keep_c12(c, quick):
    """C12 thins the lattice to the boundary points (sanitised runs are several times slower)"""
    m = c.get("meta", {})
    if c["fn"] in ("page_v1_dict", "page_v2_dict"):
        # the callers' allocation arithmetic under the sanitised build: the page readers on the boundary widths
        return c["w"] in C12_W32 and (not quick or c["n"] == 9)
    if c["fn"] == "page_delta":
        return True
    if c["fn"] in ("levels_v1", "make_definitions", "make_definitions_big", "read_plain_t", "ba_roundtrip", "dict_roundtrip", "codec_threads"):
        return False
    if c["fn"] == "delta_unpack" and m.get("pattern") == "stale":
        return True
    if m.get("pattern") in ("zeros", "alternating") and c["fn"] != "read_bitpacked1":
        return False
    if c["fn"] == "delta_unpack":
        return m.get("w", m["max_width"]) in C12_W64 or m["pattern"] == "mixed"
    if c["fn"] == "read_rle":
        return c["w"] in C12_W32 and (c["header"] >> 1) in (0, 1, 8, 9) and (not quick or c["cap"] % 4 == 0)
    if "w" in c and c["w"] not in C12_W32:
        return False
    if quick and c["fn"] in ("read_bitpacked", "read_hybrid") and c["cap"] % c["isz"]:
        return False
    return True


def load_corpus():
    """minimised past disagreements / boundary witnesses (corpus/C11/*.json): complete cases, run before everything else"""
    import glob
    out = []
    for p in sorted(glob.glob(os.path.join(C.VERIF, "corpus", "C11", "*.json"))):
        c = json.load(open(p))
        c.pop("why", None)
        out.append(c)
    return out


def generate(rng, quick, c12=False):
    cases = load_corpus()
    N = 40 if quick else 120
    groups = [0, 1, 2, 5] if quick else [0, 1, 2, 3, 4, 5, 8, 15]
    # ---- A: read_bitpacked ------------------------------------------------------------------
    for w in range(0, 33):
        for g in groups:
            for isz in (1, 4):
                for pname, vs in patterns(rng, w, 8 * g):
                    if g == 0 and pname != "zeros":
                        continue
                    if quick and g != 1 and pname in ("zeros", "alternating"):
                        continue
                    full = (not quick) and g <= 3
                    for cap in caps_items(8 * g, isz, full or (quick and g == 1 and pname == "random")):
                        empty = (g == 0 or w == 0) and not (w == 1 and isz == 1)
                        bad = (w >= 25 and g > 0 and not (w == 1 and isz == 1)) or empty
                        cases.append({"fn": "read_bitpacked", "header": 2 * g + 1, "w": w, "isz": isz, "cap": cap,
                                      "enc": ["bp_enc", w, vs], "trail": True,
                                      "stream": "confirm" if bad else "main",
                                      "meta": {"g": g, "pattern": pname, "empty_run": empty}})
    # the same without any byte behind the run (what a page ending in the run looks like)
    for w in (1, 2, 3, 7, 8, 9, 15, 16, 17, 23, 24):
        for g in (1, 2):
            for isz in (1, 4):
                vs = patterns(rng, w, 8 * g)[3][1]
                cases.append({"fn": "read_bitpacked", "header": 2 * g + 1, "w": w, "isz": isz, "cap": 8 * g * isz,
                              "enc": ["bp_enc", w, vs], "trail": False, "stream": "main",
                              "meta": {"g": g, "pattern": "random", "empty_run": False}})
    # ---- B: read_rle ------------------------------------------------------------------------
    counts = [0, 1, 8, 9, N] if quick else [0, 1, 2, 7, 8, 9, N]
    for w in range(0, 33):
        for cnt in counts:
            for isz in (1, 4):
                for pname, vs in patterns(rng, w, 1):
                    if w == 0 and pname != "zeros":
                        continue
                    if quick and w and pname in ("zeros", "alternating") and w not in (1, 8, 9, 16, 17, 24, 25, 32):
                        continue
                    for cap in caps_items(cnt, isz, (not quick) and cnt <= 9):
                        cases.append({"fn": "read_rle", "header": 2 * cnt, "w": w, "isz": isz, "cap": cap,
                                      "enc": ["fixed_enc", (w + 7) // 8, vs], "trail": True, "stream": "main",
                                      "meta": {"count": cnt, "pattern": pname, "value": vs[0]}})
    # ---- C: hybrid streams ------------------------------------------------------------------
    nmix = 2 if quick else 10
    for w in range(0, 33):
        shapes = ["rle-only"]
        shapes += ["bp-only", "mixed", "mixed"] * 1
        for shape in shapes:
            for rep in range(nmix if shape == "mixed" else 1):
                runs = []
                nr = 1 if shape != "mixed" else rng.choice([2, 3, 4])
                for i in range(nr):
                    kind = {"rle-only": "rle", "bp-only": "bp"}.get(shape) or rng.choice(["rle", "bp"])
                    if shape == "mixed" and i == 0 and rep == 0:
                        kind = "bp"
                    if kind == "rle":
                        runs.append(["rle", rng.choice([1, 2, 7, 8, 9, 33]), rng.randrange(1 << w)])
                    else:
                        n = rng.choice([1, 5, 8, 9, 16, 24])
                        runs.append(["bp", patterns(rng, w, n)[rng.randrange(4)][1]])
                has_bp = any(r[0] == "bp" for r in runs)
                total = sum(r[1] if r[0] == "rle" else (len(r[1]) + 7) // 8 * 8 for r in runs)
                bad = has_bp and (w >= 25 or w == 0)
                wants = sorted({0, 1, total - 1, total, total + 1} | (set() if quick else {rng.randrange(total + 1)}))
                for isz in (1, 4):
                    for n in wants:
                        if n < 0:
                            continue
                        for extra in ((0,) if isz == 1 else (0, 2)):
                            for prefixed in (False, True):
                                if prefixed and (extra or n not in (total, total + 1, 1)):
                                    continue
                                cases.append({"fn": "read_hybrid", "w": w, "isz": isz, "cap": n * isz + extra,
                                              "prefixed": prefixed,
                                              "enc": ["hyb_enc_len" if prefixed else "hyb_enc", w, runs], "trail": True,
                                              "stream": "confirm" if bad else "main",
                                              "meta": {"runs": runs, "total": total, "has_bp": has_bp, "shape": shape,
                                                       "empty_run": has_bp and w == 0, "truncated_run": False}})
                # what other writers (impala, old parquet-mr) emit: the LAST bit-packed group is not padded to 8 values -
                # only the bytes that hold real values are there (a lenient reader accepts it; the page ends right behind)
                if runs[-1][0] == "bp" and len(runs[-1][1]) % 8 and 0 < w <= 24:
                    nreal = len(runs[-1][1])
                    padded = (nreal + 7) // 8 * 8
                    cutb = padded * w // 8 - (nreal * w + 7) // 8
                    real_total = total - (padded - nreal)
                    if cutb > 0:
                        for isz in (1, 4):
                            cases.append({"fn": "read_hybrid", "w": w, "isz": isz, "cap": real_total * isz, "prefixed": False,
                                          "enc": ["hyb_enc", w, runs], "trail": True, "cut": cutb, "stream": "confirm",
                                          "meta": {"runs": runs, "total": real_total, "has_bp": True, "shape": shape,
                                                   "empty_run": False, "truncated_run": True}})
    # ---- D: varints -------------------------------------------------------------------------
    for ln in range(1, 11):
        lo = 0 if ln == 1 else 1 << (7 * (ln - 1))
        hi = min((1 << (7 * ln)) - 1, (1 << 64) - 1)
        vals = sorted({lo, hi, lo + 1, hi - 1, rng.randrange(lo, hi + 1), rng.randrange(lo, hi + 1)})
        for v in vals:
            if v < 0:
                continue
            cases.append({"fn": "read_varint", "enc": ["uleb_enc", v], "trail": True, "stream": "main",
                          "meta": {"value": v, "len": ln}})
            for cap in sorted({0, 1, ln - 1, ln, ln + 1, 10}):
                cases.append({"fn": "enc_varint", "x": v, "cap": cap, "stream": "main", "meta": {"len": ln}})
    # non-canonical (padded) encodings: continuation bytes carrying zero groups
    for v, pad in ((0, 1), (1, 3), (300, 2), (127, 8)):
        raw = _uleb_py(v)
        raw = raw[:-1] + bytes([raw[-1] | 0x80]) + bytes([0x80] * (pad - 1)) + b"\x00"
        if len(raw) <= 10:
            cases.append({"fn": "read_varint", "inp": raw.hex() + TRAIL.hex(), "stream": "main",
                          "meta": {"value": v, "len": len(raw), "noncanonical": True}})
    # ---- E: read_bitpacked1 -----------------------------------------------------------------
    for cnt in range(0, N + 1):
        for pname, vs in patterns(rng, 1, cnt):
            if quick and pname in ("zeros", "ones") and cnt % 8 not in (0, 1, 7):
                continue
            for cap in sorted({0, 1, max(cnt - 1, 0), cnt, cnt + 1, cnt + 8, max(cnt - 8, 0)}):
                cases.append({"fn": "read_bitpacked1", "count": cnt, "cap": cap, "enc": ["bool_enc", vs], "trail": True,
                              "stream": "main", "meta": {"pattern": pname}})
    for gen in EXTRA_GENERATORS:
        cases += gen(rng, quick)
    if c12:
        cases = [c for c in cases if keep_c12(c, quick)]
        for c in cases:
            if "enc" in c:
                c["trail"] = False          # exactly-sized input allocations: the red zone starts right behind the run
    # ---- phase 2: inputs from the spec encoders ---------------------------------------------
    idx = [i for i, c in enumerate(cases) if "enc" in c]
    outs = L.pq_batch([tuple(cases[i]["enc"]) for i in idx])
    for i, o in zip(idx, outs):
        c = cases[i]
        if not isinstance(o, (bytes, bytearray)):
            raise RuntimeError("spec encoder failed on %r: %r" % (c["enc"], o))
        if c["fn"] == "read_hybrid" and c.get("cut"):
            o = bytes(o)[:len(o) - c.pop("cut")]
        if c["fn"] in ("delta_unpack", "page_delta") and c["meta"].get("stale"):
            o = _delta_stale_widths(bytes(o), c["meta"]["stale"])
        c["inp"] = (bytes(o) + (TRAIL if c.get("trail") else b"")).hex()
        c["enc_len"] = len(o)
        del c["enc"]
        if c["fn"] == "read_hybrid":
            c["length"] = 0 if c["prefixed"] else len(o)
        if c["fn"] == "page_v1_dict":
            _pg_finish(c)
        if c["fn"] == "page_v2_dict":
            _pg2_finish(c)
        if c["fn"] == "page_delta":
            c["inp"] = bytes(o).hex()
        if c["fn"] == "delta_unpack":
            # classify by the widths the spec encoder really chose (wrapping deltas can need more bits than intended)
            mw = _delta_max_width(bytes(o))
            c["meta"]["max_width"] = mw
            if mw >= 29:
                c["stream"] = "confirm"
    return cases


EXTRA_GENERATORS = []      # filled by later stages (delta, encoders, byte arrays, booleans)


def _rd_uleb(b, pos):
    v = shift = 0
    while True:
        x = b[pos]
        pos += 1
        v |= (x & 127) << shift
        shift += 7
        if not x & 128:
            return v, pos


def _delta_max_width(b):
    """largest width byte among the miniblocks that carry deltas (classification only)"""
    bs, pos = _rd_uleb(b, 0)
    mpb, pos = _rd_uleb(b, pos)
    total, pos = _rd_uleb(b, pos)
    _, pos = _rd_uleb(b, pos)
    vpm = bs // mpb
    rem = total - 1
    mw = 0
    while rem > 0:
        _, pos = _rd_uleb(b, pos)
        ws = b[pos:pos + mpb]
        pos += mpb
        for w in ws:
            if rem <= 0:
                break
            mw = max(mw, w)
            pos += vpm * w // 8
            rem -= vpm
    return mw


def _delta_stale_widths(b, stale):
    """what other writers (parquet-mr re-uses the width array of the previous block) leave in a DELTA_BINARY_PACKED
    page: the width bytes of the miniblocks that carry no value are NOT zero.  Encodings.md: 'readers must accept
    arbitrary values' there - such a miniblock has no body.  Rewrites the width bytes of the unneeded miniblocks of
    the spec encoder's output (which writes 0) with the given stale widths."""
    b = bytearray(b)
    bs, pos = _rd_uleb(b, 0)
    mpb, pos = _rd_uleb(b, pos)
    total, pos = _rd_uleb(b, pos)
    _, pos = _rd_uleb(b, pos)
    vpm = bs // mpb
    rem = total - 1
    k = 0
    while rem > 0:
        _, pos = _rd_uleb(b, pos)
        wpos = pos
        pos += mpb
        for i in range(mpb):
            if rem <= 0:
                b[wpos + i] = stale[k % len(stale)]
                k += 1
            else:
                pos += vpm * b[wpos + i] // 8
                rem -= vpm
    return bytes(b)


def _uleb_py(n):
    out = bytearray()
    while n > 127:
        out.append((n & 127) | 128)
        n >>= 7
    out.append(n)
    return bytes(out)


# ---------------------------------------------------------------------------------------------
# per-function tables: impl-model command, views, spec oracle, classification
# ---------------------------------------------------------------------------------------------

def _inp(c):
    return bytes.fromhex(c["inp"])


def _dec_views(c, mo, r, guard):
    isz = c.get("isz", 1)
    mv = L.model_decoder_view(mo, isz, c["cap"], guard)
    iv = L.impl_decoder_view(r)
    return mv, iv


def _n_items(c, count):
    return min(count, c["cap"] // c.get("isz", 1))


def _check_decoder(c, r, want_vals, want_in, want_out, guard, isz=None):
    """problems of a decoder result against the spec expectation"""
    isz = isz or c.get("isz", 1)
    probs = []
    if r[0] != "ok":
        return [(r[0], "real code: %r" % (r,))]
    exp = L.expect_outbuf(want_vals, isz, c["cap"], guard)
    if r[1] != exp:
        got = bytes.fromhex(r[1])
        nb = len(want_vals) * isz
        if got[nb:] != bytes([L.FILL]) * (len(got) - nb):
            probs.append(("overwrite", "bytes behind the %d requested values were written: %s" % (len(want_vals), got[nb:nb + 24].hex())))
        if got[:nb] != bytes.fromhex(exp)[:nb]:
            probs.append(("values", "decoded values differ from the specification: got %s want %s" % (got[:nb][:48].hex(), exp[:2 * nb][:96])))
    if want_out is not None and r[3] != want_out:
        probs.append(("count", "output cursor %d, expected %d (exactly min(count, capacity) values)" % (r[3], want_out)))
    if want_in is not None and r[2] != want_in:
        probs.append(("cursor", "input cursor advanced by %d, the run occupies %d bytes" % (r[2], want_in)))
    return probs


# --- read_bitpacked
def _rb_model(c):
    return ("c_read_bitpacked", _inp(c), c["header"], c["w"], c["cap"], c["isz"])


def _rb_spec(c):
    n = _n_items(c, 8 * (c["header"] >> 1))
    return ("bp_dec", c["w"], n, _inp(c)[:c["enc_len"]])


def _rb_oracle(c, r, so, guard):
    if c["w"] > 8 * c["isz"]:
        return []            # values do not fit the item: only the correspondence speaks
    g = c["header"] >> 1
    n = _n_items(c, 8 * g)
    return _check_decoder(c, r, so, g * c["w"], n * c["isz"], guard)


def _rb_safe(c):
    g = c["header"] >> 1
    if c["w"] == 1 and c["isz"] == 1:
        return True
    return 0 < c["w"] <= 24 and g > 0


# --- read_rle
def _rle_spec(c):
    n = _n_items(c, c["header"] >> 1)
    return ("hyb_dec", 0, c["w"], n, _uleb_py(c["header"]) + _inp(c)[:c["enc_len"]])


def _rle_oracle(c, r, so, guard):
    if c["w"] > 8 * c["isz"]:
        return []
    n = _n_items(c, c["header"] >> 1)
    vals = so[0][0] if so else None
    if vals is None:
        return [("spec", "spec decoder rejects the run")]
    return _check_decoder(c, r, vals, (c["w"] + 7) // 8, n * c["isz"], guard)


# --- hybrid
def _hy_model(c):
    return ("c_read_hybrid", _inp(c), c["w"], c["length"], c["cap"], c["isz"])


def _hy_spec(c):
    n = _n_items(c, c["meta"]["total"])
    return ("hyb_dec_len" if c["prefixed"] else "hyb_dec", 0, c["w"], n, _inp(c)[:c["enc_len"]])


def _hy_oracle(c, r, so, guard):
    if c["w"] > 8 * c["isz"]:
        return []
    n = _n_items(c, c["meta"]["total"])
    if not so:
        return [("spec", "spec decoder rejects the stream")]
    vals, rest = so[0]
    want_in = None
    if not c["prefixed"] and c["cap"] % c["isz"] == 0 and not c["meta"].get("truncated_run"):
        want_in = c["enc_len"] - len(rest)
    return _check_decoder(c, r, vals, want_in, n * c["isz"], guard)


def _hy_safe(c):
    return not (c["meta"]["has_bp"] and (c["w"] == 0 or c["w"] > 24)) and not c["meta"].get("truncated_run")


# --- read_bitpacked1
def _b1_oracle(c, r, so, guard):
    n = min(c["count"], c["cap"])
    return _check_decoder(c, r, so, (c["count"] + 7) // 8, n, guard, isz=1)


# --- varint
def _vi_views(c, mo, r, guard):
    t = L.tag(mo)
    mv = [mo[1], mo[2]] if t == "ok" else t
    iv = [r[1], r[2]] if r[0] == "ok" else r[:2]
    return mv, iv


def _vi_oracle(c, r, so, guard):
    if r[0] != "ok":
        return [(r[0], "real code: %r" % (r,))]
    if not so:
        return [("spec", "spec decoder rejects the varint")]
    v, rest = so[0]
    if v >= 1 << 64:
        return []
    used = len(_inp(c)) - len(rest)
    probs = []
    if r[1] != v:
        probs.append(("values", "read_unsigned_var_int returned %d, the bytes encode %d" % (r[1], v)))
    if r[2] != used:
        probs.append(("cursor", "cursor advanced by %d, the varint has %d bytes" % (r[2], used)))
    return probs


def _ev_views(c, mo, r, guard):
    b, left = mo
    mv = [L.expect_raw(bytes(b), c["cap"], guard), c["cap"] - left]
    iv = [r[1], r[2]] if r[0] == "ok" else r[:2]
    return mv, iv


def _ev_oracle(c, r, so, guard):
    if r[0] != "ok":
        return [(r[0], "real code: %r" % (r,))]
    enc = bytes(so)
    if c["cap"] < len(enc):
        # too small a buffer: the only requirement is that nothing is written behind it
        got = bytes.fromhex(r[1])
        if got[c["cap"]:] != bytes([L.FILL]) * (len(got) - c["cap"]):
            return [("overwrite", "bytes behind the output buffer were written")]
        return []
    probs = []
    if r[1] != L.expect_raw(enc, c["cap"], guard):
        probs.append(("values", "encode_unsigned_varint(%d) wrote %s, ULEB128 is %s" % (c["x"], r[1][:2 * len(enc) + 4], enc.hex())))
    if r[2] != len(enc):
        probs.append(("cursor", "output cursor %d, the varint has %d bytes" % (r[2], len(enc))))
    return probs


FNS = {
    "read_bitpacked": dict(hw=lambda c: ("c_read_bitpacked_hw",) + _rb_model(c)[1:], model=_rb_model, views=_dec_views, spec=_rb_spec, oracle=_rb_oracle, safe=_rb_safe,
                           cls=lambda c: {"width": c["w"], "isz": c["isz"], "empty_run": c["meta"]["empty_run"]},
                           trivial=lambda c: c["header"] >> 1 == 0 or c["cap"] < c["isz"]),
    "read_rle": dict(model=lambda c: ("c_read_rle", _inp(c), c["header"], c["w"], c["cap"], c["isz"]), views=_dec_views,
                     spec=_rle_spec, oracle=_rle_oracle, safe=lambda c: True,
                     cls=lambda c: {"width": c["w"], "isz": c["isz"]},
                     trivial=lambda c: c["header"] >> 1 == 0 or c["cap"] < c["isz"]),
    "read_hybrid": dict(hw=lambda c: ("c_read_hybrid_hw",) + _hy_model(c)[1:], model=_hy_model, views=_dec_views, spec=_hy_spec, oracle=_hy_oracle, safe=_hy_safe,
                        cls=lambda c: {"width": c["w"], "isz": c["isz"], "has_bp": c["meta"]["has_bp"],
                                       "empty_run": c["meta"]["empty_run"], "truncated_run": bool(c["meta"].get("truncated_run"))},
                        trivial=lambda c: c["cap"] < c["isz"]),
    "read_bitpacked1": dict(model=lambda c: ("c_read_bitpacked1", _inp(c), c["count"], c["cap"]), views=_dec_views,
                            spec=lambda c: ("bool_dec", min(c["count"], c["cap"]), _inp(c)[:c["enc_len"]]),
                            oracle=_b1_oracle, safe=lambda c: True, cls=lambda c: {"width": 1, "isz": 1},
                            trivial=lambda c: c["count"] == 0 or c["cap"] == 0),
    "read_varint": dict(model=lambda c: ("c_varint", _inp(c)), views=_vi_views, spec=lambda c: ("uleb_dec", _inp(c)),
                        oracle=_vi_oracle, safe=lambda c: True, cls=lambda c: {"len": c["meta"]["len"]},
                        trivial=lambda c: False),
    "enc_varint": dict(model=lambda c: ("c_enc_varint", c["x"], c["cap"]), views=_ev_views,
                       spec=lambda c: ("uleb_enc", c["x"]), oracle=_ev_oracle, safe=lambda c: True, tagged=False,
                       cls=lambda c: {"len": c["meta"]["len"]}, trivial=lambda c: c["cap"] == 0),
}


# ---------------------------------------------------------------------------------------------
# running a list of cases: correspondence + oracle
# ---------------------------------------------------------------------------------------------

def worker_case(c):
    d = {k: v for k, v in c.items() if k not in ("meta", "stream", "enc_len", "trail", "cut")}
    if c["fn"] == "page_delta":
        d.pop("vals", None)
    if c["fn"] in ("page_v1_dict", "page_v2_dict"):
        d.pop("inp", None)
    if c.get("cut"):
        d["inp"] = c["inp"][:len(c["inp"]) - 2 * c["cut"]]
    return d


def short(c):
    d = {k: v for k, v in c.items() if k != "meta"}
    d["meta"] = {k: v for k, v in c.get("meta", {}).items() if k not in ("runs",)}
    if c.get("n", 0) > 5000 and "want" in d["meta"]:
        # (the 64 KiB framing case: keep the replay small - everything is determined by the page bytes)
        d["meta"] = dict(d["meta"], want="alternating 0/1 (i % 2)", levels="all 1")
    return d


def check_cases(ctx, pid, cases, workdir, sanitize, memory_only=False):
    guard = 0 if sanitize else L.GUARD
    mouts = L.pq_batch([FNS[c["fn"]]["model"](c) for c in cases], nproc=4)
    nproc = 4 if ctx.quick() else 8
    if sanitize:
        # UBSan reports every source location once per process: cases the model calls safe run in processes of their
        # own, so that a report there can never be swallowed by an earlier report of a known-unsafe case
        def unsafe(c, mo):
            return FNS[c["fn"]].get("tagged", True) and L.tag(mo) not in ("ok", None)
        ia = [i for i, (c, mo) in enumerate(zip(cases, mouts)) if not unsafe(c, mo)]
        ib = [i for i, (c, mo) in enumerate(zip(cases, mouts)) if unsafe(c, mo)]
        # an ASan report is fatal and a restart of the sanitised interpreter costs ~3 s: the cases expected to die
        # (model verdict OOB, delta widths >= 57) run in a batch of their own, of which only a fixed-size, evenly
        # spread subset is executed; UB verdicts (UBSan does not halt) all run
        def fatal(i):
            return L.tag(mouts[i]) == "oob" or (cases[i]["fn"] == "delta_unpack" and cases[i]["meta"]["max_width"] >= 57)
        ic = [i for i in ib if fatal(i)]
        ib = [i for i in ib if not fatal(i)]
        keep = 24 if ctx.quick() else 240
        if len(ic) > keep:
            # stratified: every (function, verdict, capacity class / width class) group keeps its share
            groups = {}
            for i in ic:
                m = cases[i].get("meta", {})
                key = (cases[i]["fn"], L.tag(mouts[i]), m.get("cap_class"), m.get("max_width", 0) >= 57, m.get("count", 1) == 0,
                       bool(m.get("truncated_run")), bool(m.get("empty_run")))
                groups.setdefault(key, []).append(i)
            per = max(1, keep // len(groups))
            chosen = set()
            for key in sorted(groups, key=str):
                g = groups[key]
                step = len(g) / float(min(per, len(g)))
                chosen |= {g[int(k * step)] for k in range(min(per, len(g)))}
            chosen = sorted(chosen)
            ctx.count("expected-fatal cases not executed under ASan (budget)", len(ic) - len(chosen))
            ic = chosen
        real = [["skipped"]] * len(cases)
        from concurrent.futures import ThreadPoolExecutor

        def part_job(arg):
            part, tagname = arg
            return part, L.run_real([worker_case(cases[i]) for i in part], os.path.join(workdir, tagname), sanitize=True,
                                    nproc=nproc, max_crashes=15 if tagname == "safe" else 400,
                                    chunk=200 if tagname != "fatal" else 6)
        with ThreadPoolExecutor(3) as ex:
            for part, rs in ex.map(part_job, ((ia, "safe"), (ib, "unsafe"), (ic, "fatal"))):
                for i, r in zip(part, rs):
                    real[i] = r
    else:
        real = L.run_real([worker_case(c) for c in cases], workdir, sanitize=False, nproc=nproc, max_crashes=150)
    souts = L.pq_batch([FNS[c["fn"]]["spec"](c) for c in cases], nproc=4)
    souts = second_phase(cases, real, souts)
    # where the standard model answers UB, the x86 reading of the undefined shifts is compared with the binary as well
    ih = [i for i, (c, mo) in enumerate(zip(cases, mouts)) if "hw" in FNS[c["fn"]] and FNS[c["fn"]].get("tagged", True)
          and L.tag(mo) in ("ub", "ok")]
    hws = dict(zip(ih, L.pq_batch([FNS[cases[i]["fn"]]["hw"](cases[i]) for i in ih], nproc=4)))
    for i, (c, r, mo, so) in enumerate(zip(cases, real, mouts, souts)):
        judge(ctx, pid, c, r, mo, so, guard, sanitize, memory_only=memory_only, hwo=hws.get(i))


def second_phase(cases, real, souts):
    """spec decoders applied to what the REAL encoders wrote (`spec2`), batched; result replaces `so` by (so, so2)"""
    idx, cmds = [], []
    for i, (c, r) in enumerate(zip(cases, real)):
        f2 = FNS[c["fn"]].get("spec2")
        if f2 is not None:
            cmd = f2(c, r)
            if cmd is not None:
                idx.append(i)
                cmds.append(cmd)
    outs = L.pq_batch(cmds, nproc=4)
    souts = list(souts)
    for i in range(len(cases)):
        if FNS[cases[i]["fn"]].get("spec2") is not None:
            souts[i] = (souts[i], None)
    for i, o in zip(idx, outs):
        souts[i] = (souts[i][0], o)
    # a third spec command on the real output (`spec3`): result appended
    idx3, cmds3 = [], []
    for i, (c, r) in enumerate(zip(cases, real)):
        f3 = FNS[c["fn"]].get("spec3")
        if f3 is not None:
            cmd = f3(c, r)
            if cmd is not None:
                idx3.append(i)
                cmds3.append(cmd)
    for i, o in zip(idx3, L.pq_batch(cmds3, nproc=4)):
        souts[i] = souts[i] + (o,)
    return souts


WRITER_OBS = []          # (case, real result) of make_definitions / encode_dict, for the writer2coq correspondence
DISPATCH_TAB = None      # decision tables of the regenerated dispatch (harness/codec_dispatch.py), set by the check


def dispatch_correspondence(ctx, c, r):
    """the regenerated Gallina decision functions against what the real readers were observed to do"""
    from harness import codec_dispatch as D
    tab = DISPATCH_TAB
    if tab is None or r[0] != "ok":
        return
    if c["fn"] in ("page_v1_dict", "page_v2_dict") and not c["optional"] and _nwant(c):
        obs = D.observed_index(c, r)
        mod = D.model_index(tab, c)
        if obs is not None and mod is not None:
            ctx.correspondence("regenerated index-decoder dispatch (GenDispatch.v) = decoder call observed in the real page reader "
                               "(generic decoder called or not, allocation item size, itemsize argument)", short(c), list(mod), list(obs))
    if c["fn"] == "read_plain_t":
        import numpy as np
        t = D.TYPE_IDS[c["type"]]
        key = (t, 5, 3, c["utf"], c["stat"]) if not c["stat"] else (t, 1, 0, c["utf"], True)
        leaf = tab["plain"].get(key)
        if leaf is None or (c["type"] == "FIXED_LEN_BYTE_ARRAY"):
            return
        try:
            dt = np.dtype(r[2])
            obs = ["bool"] if dt.kind == "b" else ["object"] if dt.kind == "O" else ["fixed", dt.itemsize]
        except TypeError:
            obs = ["?", r[2]]
        mod = {1: ["fixed", leaf[1]], 2: ["bool"], 3: ["object"], 4: ["object"]}.get(leaf[0], ["none"])
        ctx.correspondence("regenerated read_plain dispatch (GenDispatch.v) = kind and item size of what encoding.read_plain returned",
                           short(c), mod, obs)


def judge(ctx, pid, c, r, mo, so, guard, sanitize, verbose=False, memory_only=False, hwo=None):
    """returns True when the property fails on this case"""
    f = FNS[c["fn"]]
    fn = c["fn"]
    if hasattr(ctx, "gen_dir"):
        dispatch_correspondence(ctx, c, r)
        if fn in ("make_definitions", "encode_dict") and r[0] == "ok" and len(c["vals"]) <= 70:
            WRITER_OBS.append((c, r))
    if r[0] == "skipped":
        ctx.count("not run (the worker had already crashed too often)", fn)
        return False
    ctx.case({"fn": fn, "case": worker_case(c)}, trivial=f["trivial"](c))
    ctx.count("function", fn)
    ctx.count("stream", c["stream"])
    if "w" in c:
        ctx.count("width", c["w"])
    cls = {"component": fn, "stream": c["stream"]}
    cls.update(f["cls"](c))
    failed = False
    mtag = L.tag(mo) if f.get("tagged", True) else None
    model_ok = mtag in (None, "ok")
    if mtag == "error":
        raise RuntimeError("pqref rejected the command for %r: %r" % (short(c), mo))
    # the theorem's guard, evaluated on the case, must imply a safe model verdict
    if f["safe"](c):
        ctx.correspondence("guard of the %s theorem => impl model returns Ok" % fn, short(c), True, model_ok)
    if r[0] == "changed" and memory_only:
        return False          # (C12 judges memory safety only: a value that is a view of reused state is C11's finding)
    if r[0] == "changed":
        # the value the codec function returned was right after the call (or this line would not replace the first one) and
        # showed something else after later calls: it was a view of state that outlives the call
        return ctx.fail(dict(cls, kind="result-changed-after-later-calls", verdict=mtag or "ok"), short(c),
                        "the result of %s changed while the library went on decoding/encoding other inputs: was %s, now %s" % (fn, r[1][:160], r[2][:160]))
    crashed = r[0] in ("crash", "asan", "ubsan", "missing")
    if crashed:
        failed |= ctx.fail(dict(cls, kind=r[0], verdict=mtag or "ok"), short(c), "real code: %r" % (r,))
        if model_ok:
            ctx.correspondence("impl model verdict Ok <=> clean execution of %s" % fn, short(c), "clean", r[0])
    if "info" in f:
        ctx.count("byte-equal with the witness model: " + fn, bool(f["info"](c, mo, r)))
    if model_ok and not crashed:
        mv, iv = f["views"](c, mo, r, guard)
        ctx.correspondence("%s ~ impl model (output buffer incl. guard, cursors)" % fn, short(c), mv, iv)
    if hwo is not None and mtag == "ok":
        # the hw variant must coincide with the standard model wherever that one is defined
        ctx.correspondence("hw model = standard impl model where the standard model is Ok (%s)" % fn, short(c), mo, hwo)
    elif hwo is not None and r[0] != "missing":
        name = "beyond the boundary: %s ~ x86 reading of the undefined shifts (hw model)" % fn
        ht = L.tag(hwo)
        rr = r[3] if (r[0] == "ubsan" and len(r) > 3) else r
        if ht == "ok" and rr[0] == "ok":
            mv, iv = f["views"](c, hwo, rr, guard)
            ctx.correspondence(name, short(c), mv, iv)
        else:
            ctx.correspondence(name, short(c), "leaves the buffers" if ht == "oob" else ht,
                               "leaves the buffers" if r[0] in ("crash", "asan") else r[0])
    if not model_ok:
        # outside the region where the compiled code has a defined meaning: must be a listed finding
        ctx.count("model verdict unsafe: what the real run showed", r[0] if crashed else "no report")
        failed |= ctx.fail(dict(cls, kind="model-unsafe", verdict=mtag), short(c),
                           "the model of the compiled code reports %s on this input%s" % (
                               mtag.upper(), (" and the real run ended with %r" % (r[:3],)) if crashed else ""))
    if not crashed and not memory_only:
        for kind, detail in f["oracle"](c, r, so, guard):
            failed |= ctx.fail(dict(cls, kind=kind, verdict=mtag or "ok"), short(c), detail)
            if verbose:
                print("  property fails [%s]: %s" % (kind, detail))
    return failed


def lattice_summary(cases):
    out = {}
    for c in cases:
        k = c["fn"] + "/" + c["stream"]
        out[k] = out.get(k, 0) + 1
    return out


def replay_case(case, sanitize, memory_only=False):
    """re-execute one recorded case on the real code (subprocess) and on the models; 1 if the property still fails"""
    import shutil
    import tempfile
    C.coq_lib()
    tmp = tempfile.mkdtemp(prefix="verif-codec-replay-", dir="/tmp")
    try:
        c = dict(case)
        f = FNS[c["fn"]]
        batch = [worker_case(c)]
        if "inp" in c and c["fn"] not in ("page_v1_dict", "page_v2_dict"):
            # followed by the same call on the complemented input: a result that is a view of state outliving the call shows
            # as `changed` (the worker re-examines every returned value after later calls)
            c2 = dict(worker_case(c))
            c2["inp"] = bytes(b ^ 0xFF for b in bytes.fromhex(c2["inp"])).hex()
            batch.append(c2)
        r = L.run_real(batch, tmp, sanitize=sanitize, nproc=1)[0]
        mo = L.pq_batch([f["model"](c)])[0]
        so = second_phase([c], [r], L.pq_batch([f["spec"](c)]))[0]
        print("case      :", json.dumps(short(c))[:1500])
        print("real code :", json.dumps(r)[:600])
        print("impl model:", repr(mo)[:600])
        print("spec      :", repr(so)[:600])

        class Ctx0:
            def case(self, *a, **k): pass
            def count(self, *a, **k): pass
            def correspondence(self, name, case, a, b):
                if a != b:
                    print("  correspondence differs [%s]: model %r impl %r" % (name, str(a)[:200], str(b)[:200]))
                return a == b
            def fail(self, cls, case, detail):
                print("  PROPERTY FAILS %s: %s" % (json.dumps(cls), detail))
                return True
        bad = judge(Ctx0(), "replay", c, r, mo, so, 0 if sanitize else L.GUARD, sanitize, memory_only=memory_only)
        print("=> property %s on this case" % ("FAILS" if bad else "holds"))
        return 1 if bad else 0
    finally:
        shutil.rmtree(tmp, ignore_errors=True)


# =============================================================================================
# stage 2: delta, encoders, byte arrays, booleans, Python packers
# =============================================================================================

FILL32 = 0xAAAAAAAA
FILL64 = 0xAAAAAAAAAAAAAAAA


def _wrap(v, bits):
    v &= (1 << bits) - 1
    return v - (1 << bits) if v >> (bits - 1) else v


def _delta_values(rng, bits, count, vpm, w_of_mini, pattern, mpb=4):
    """values whose miniblock number m needs exactly width w_of_mini(m) (min_delta is the block's chosen offset)"""
    if count == 0:
        return [], []
    first = rng.choice([0, 1, -1, 12345, -(1 << (bits - 1)), (1 << (bits - 1)) - 1])
    vals = [first]
    widths = []
    nd = count - 1
    m = 0
    pos = 0
    md_block = None
    while pos < nd:
        n = min(vpm, nd - pos)
        w = w_of_mini(m)
        if md_block is None or m % mpb == 0:
            md_block = rng.choice([0, -3, 7, -(1 << 20)])
        mk = (1 << w) - 1
        if pattern == "zeros" or w == 0:
            adj = [0] * n
        elif pattern == "ones":
            adj = [mk] * n
        elif pattern == "alternating":
            adj = [((0xAAAAAAAAAAAAAAAA if i % 2 else 0x5555555555555555) & mk) for i in range(n)]
        else:
            adj = [rng.randrange(mk + 1) for _ in range(n)]
        if w:
            adj[0] = 0 if (pos == 0 or n > 1 and m % mpb == 0) else adj[0]
            adj[-1 if n > 1 else 0] |= 1 << (w - 1)          # the width really is w
        widths.append(max((a.bit_length() for a in adj), default=0))
        for a in adj:
            vals.append(_wrap(vals[-1] + md_block + a, bits))
        pos += n
        m += 1
    return vals, widths


def gen_delta(rng, quick):
    cases = []
    layouts = [(128, 4)] if quick else [(128, 4), (64, 2), (256, 8)]
    for longval in (0, 1):
        bits = 64 if longval else 32
        isz = bits // 8
        for bs, mpb in layouts:
            vpm = bs // mpb
            for w in range(0, bits + 1):
                pats = ["random"] if (quick and w not in (0, 1, 8, 24, 28, 29, 32, 56)) else ["ones", "alternating", "random"]
                if quick and w > 57 and w not in (60, 64):
                    continue            # every width >= 57 kills the worker (one restart each): boundary + two more in the quick tier
                for pat in pats:
                    counts = [vpm + 1, bs + 2] if quick else [2, vpm, vpm + 1, vpm + 2, bs, bs + 1, bs + 2, 2 * bs + 1]
                    if pat != "random":
                        counts = counts[:1]
                    for count in counts:
                        vals, widths = _delta_values(rng, bits, count, vpm, lambda m: w, pat, mpb)
                        mw = max(widths) if widths else 0
                        cases.append({"fn": "delta_unpack", "longval": longval, "cap": count * isz,
                                      "enc": ["delta_enc", bits, bs, mpb, vals], "trail": True,
                                      "stream": "confirm" if mw >= 29 else "main",
                                      "meta": {"count": count, "bs": bs, "mpb": mpb, "max_width": mw, "pattern": pat, "w": w,
                                               "cap_class": "exact", "vals": vals}})
            # counts around the block structure, mixed widths per miniblock, all capacities classes
            for count in ([0, 1, 2, 5, vpm, vpm + 1, bs, bs + 1, bs + 2] if quick else list(range(0, 12)) + [vpm - 1, vpm, vpm + 1, vpm + 2, 2 * vpm + 1, bs - 1, bs, bs + 1, bs + 2, 2 * bs, 2 * bs + 1, 3 * bs + 5]):
                wsel = [rng.choice([0, 1, 3, 8, 13, 24, 28]) for _ in range(40)]
                vals, widths = _delta_values(rng, bits, count, vpm, lambda m: wsel[m % 40], "random", mpb)
                mw = max(widths) if widths else 0
                for cc, cap in (("exact", count * isz), ("long", (count + 1) * isz), ("short", max(count - 1, 0) * isz),
                                ("odd", count * isz + isz - 1), ("none", 0), ("short", isz)):
                    if cc == "short" and cap >= count * isz:
                        continue
                    if cc == "none" and count == 0:
                        continue
                    if quick and cc == "none" and count not in (1, 2, vpm + 1):
                        continue        # an empty output kills the worker: three counts are enough to confirm the finding
                    cases.append({"fn": "delta_unpack", "longval": longval, "cap": cap,
                                  "enc": ["delta_enc", bits, bs, mpb, vals], "trail": True,
                                  "stream": "main" if (cc in ("exact", "odd") and count > 0 and (count - 1) % bs) else "confirm",
                                  "meta": {"count": count, "bs": bs, "mpb": mpb, "max_width": mw, "pattern": "mixed",
                                           "cap_class": cc, "vals": vals}})
            # well-formed pages as OTHER writers produce them: stale (non-zero) width bytes for the unneeded trailing
            # miniblocks of the last block; counts 1 modulo the miniblock size (the decoder arrives at such a miniblock
            # with exactly one value left), around it, and counts that end inside a miniblock
            stale_sets = [[5, 9, 3], [28, 1, 17], [32, 64, 8]] if quick else [[5, 9, 3], [28, 1, 17], [32, 64, 8], [1], [255, 57, 29], [13]]
            scounts = [vpm + 1, 2 * vpm + 1, vpm + 2, 5, bs + vpm + 1] + ([] if quick else [3 * vpm + 1, vpm, 2 * vpm, bs + 2, 2 * bs + 2 * vpm + 1, bs + 3])
            for count in scounts:
                if (count - 1) % bs == 0:
                    continue
                for si, stale in enumerate(stale_sets):
                    wsel = [rng.choice([0, 1, 3, 8, 13, 24, 28]) for _ in range(40)]
                    vals, widths = _delta_values(rng, bits, count, vpm, lambda m: wsel[m % 40], "random", mpb)
                    mw = max(widths) if widths else 0
                    for cc, cap in (("exact", count * isz), ("odd", count * isz + isz - 1)):
                        if cc == "odd" and si:
                            continue
                        cases.append({"fn": "delta_unpack", "longval": longval, "cap": cap,
                                      "enc": ["delta_enc", bits, bs, mpb, vals], "trail": True, "stream": "main",
                                      "meta": {"count": count, "bs": bs, "mpb": mpb, "max_width": mw, "pattern": "stale",
                                               "cap_class": cc, "vals": vals, "stale": stale}})
    return cases


def _du_model(c):
    isz = 8 if c["longval"] else 4
    return ("c_delta_unpack", _inp(c), c["cap"] // isz, FILL64 if c["longval"] else FILL32, c["cap"], c["longval"])


def _du_views(c, mo, r, guard):
    isz = 8 if c["longval"] else 4
    t = L.tag(mo)
    if t != "ok":
        return t, L.impl_decoder_view(r)
    items, used, oloc = mo[1], mo[2], mo[3]
    return [L.expect_outbuf(items, isz, c["cap"], guard), used, oloc], L.impl_decoder_view(r)


def _du_oracle(c, r, so, guard):
    isz = 8 if c["longval"] else 4
    if not so:
        return [("spec", "spec decoder rejects the stream")]
    vals, rest = so[0]
    n = min(len(vals), c["cap"] // isz)
    want_in = len(_inp(c)) - len(rest)
    return _check_decoder(c, r, vals[:n], want_in, n * isz, guard, isz=isz)


def _du_cls(c):
    m = c["meta"]
    return {"max_width": m["max_width"], "longval": c["longval"], "cap_class": m["cap_class"], "count0": m["count"] == 0,
            "block_boundary": m["count"] >= 1 and (m["count"] - 1) % m["bs"] == 0}


def _du_safe(c):
    m = c["meta"]
    return m["max_width"] <= 28 and m["count"] >= 1 and (m["count"] - 1) % m["bs"] != 0 and m["cap_class"] in ("exact", "odd", "long")


# ---- encoders --------------------------------------------------------------------------------
def gen_encoders(rng, quick):
    cases = []
    ns = [0, 1, 7, 8, 9, 16, 17, 40] if quick else [0, 1, 2, 7, 8, 9, 15, 16, 17, 24, 40, 120]
    for w in range(0, 33):
        for n in ns:
            for pname, vs in patterns(rng, w, n):
                if quick and pname != "random" and (n not in (8, 9) or pname != "ones"):
                    continue
                need = 5 + (n * w + 7) // 8
                for cap in sorted({need + 4, need, max(need - 5, 0), 0, 1, 3}) if pname == "random" else [need + 4]:
                    for fn, wl in (("enc_bitpacked", 0), ("enc_rle_bp", 0), ("enc_rle_bp", 1)):
                        if fn == "enc_rle_bp" and wl == 0 and cap != need + 4:
                            continue
                        cases.append({"fn": fn, "vals": vs, "w": w, "cap": cap + 4 * wl, "withlength": wl,
                                      "stream": "confirm" if (w >= 25 and n > 0) else "main",
                                      "meta": {"n": n, "pattern": pname}})
    for k in list(range(0, 64)):
        for v in sorted({(1 << k) - 1, 1 << k, (1 << k) + 1}):
            if 0 <= v < (1 << 63):
                cases.append({"fn": "width_from_max_int", "x": v, "stream": "main", "meta": {}})
    # write_bitpacked1: np.packbits order, a whole-function finding; few cases
    for n in ([0, 1, 7, 8, 9, 16, 17] if quick else list(range(0, 41))):
        vs = [rng.randrange(2) for _ in range(n)]
        for cap in sorted({(n + 7) // 8, (n + 7) // 8 + 2}):
            cases.append({"fn": "write_bitpacked1", "count": n, "inp": bytes(vs).hex(), "cap": cap,
                          "stream": "confirm" if n else "main", "meta": {"vals": vs}})
    return cases


def _opt_bytes_view(lst, cap, guard):
    b = bytearray([L.FILL]) * (cap + guard)
    for i, x in enumerate(lst):
        if i < cap + guard and x != []:
            b[i] = x
    return bytes(b).hex()


def _eb_views(c, mo, r, guard):
    t = L.tag(mo)
    iv = [r[1], r[2]] if r[0] == "ok" else r[:2]
    if t != "ok":
        return t, iv
    if c["fn"] == "enc_rle_bp":
        return [_opt_bytes_view(mo[1], c["cap"], guard), mo[2]], iv
    return [L.expect_raw(bytes(mo[1]), c["cap"], guard), mo[2]], iv


def _eb_spec(c):
    # what a spec decoder makes of the bytes the real encoder wrote is computed in the oracle; here: the spec encoding
    return ("hyb_enc_len" if c.get("withlength") else "hyb_enc", c["w"], [["bp", c["vals"]]] if c["vals"] else [])


def _eb_oracle(c, r, so, guard):
    """every encoder's output decodes back to its input (spec decoder, lenient about the unpadded last group)"""
    if r[0] != "ok":
        return [(r[0], "real code: %r" % (r,))]
    n = len(c["vals"])
    got = bytes.fromhex(r[1])
    if got[c["cap"]:] != bytes([L.FILL]) * (len(got) - c["cap"]):
        return [("overwrite", "bytes behind the output buffer were written")]
    need = (4 if c.get("withlength") else 0) + len(_uleb_py(((n + 7) // 8) << 1 | 1)) + (n * c["w"] + 7) // 8
    if c["cap"] < need:
        return []                      # buffer too small by construction: only "nothing behind it" is required
    out = got[:r[2]]
    dec = so[1]
    if not dec or list(dec[0][0]) != [v & ((1 << c["w"]) - 1) for v in c["vals"]]:
        return [("values", "output %s does not decode (spec hybrid decoder) to the %d input values" % (out[:40].hex(), n))]
    if r[2] != need:
        return [("cursor", "output cursor %d, the run needs %d bytes" % (r[2], need))]
    return []


def _eb_need(c):
    n = len(c["vals"])
    return (4 if c.get("withlength") else 0) + len(_uleb_py(((n + 7) // 8) << 1 | 1)) + (n * c["w"] + 7) // 8


def _eb_spec2(c, r):
    if r[0] != "ok" or c["cap"] < _eb_need(c):
        return None
    out = bytes.fromhex(r[1])[:r[2]]
    return ("hyb_dec_len" if c.get("withlength") else "hyb_dec", 0, c["w"], len(c["vals"]), out)


def _wf_oracle(c, r, so, guard):
    if r[0] != "ok" or r[1] != c["x"].bit_length():
        return [("values", "width_from_max_int(%d) = %r, bit length is %d" % (c["x"], r, c["x"].bit_length()))]
    return []


def _w1_views(c, mo, r, guard):
    t = L.tag(mo)
    iv = [r[1], r[2], r[3]] if r[0] == "ok" else r[:2]
    if t != "ok":
        return t, iv
    return [L.expect_raw(bytes(mo[1]), c["cap"], guard), mo[2], mo[3]], iv


def _w1_oracle(c, r, so, guard):
    if r[0] != "ok":
        return [(r[0], "real code: %r" % (r,))]
    want = bytes(so)
    got = bytes.fromhex(r[1])[:len(want)]
    probs = []
    if got != want:
        probs.append(("values", "write_bitpacked1 wrote %s, PLAIN boolean packing (LSB first) is %s" % (got.hex(), want.hex())))
    if r[2] != c["count"]:
        probs.append(("cursor", "input cursor advanced by %d for %d one-byte values" % (r[2], c["count"])))
    return probs


# ---- byte arrays, booleans, Python packers ---------------------------------------------------
def gen_plain(rng, quick):
    cases = []
    lens = [0, 1, 2, 3, 255, 256, 1000]
    for k in range(0, 6 if quick else 12):
        for rep in range(3):
            items = [bytes(rng.randrange(256) for _ in range(rng.choice(lens) if rep else (rep + i) % 4)) for i in range(k)]
            cases.append({"fn": "pack_byte_array", "items": [x.hex() for x in items], "stream": "main", "meta": {"k": k}})
            for n in sorted({0, k - 1, k, k + 1, k + 3}):
                if n < 0:
                    continue
                cases.append({"fn": "unpack_byte_array", "n": n, "enc": ["ba_enc", items], "trail": False, "stream": "main",
                              "meta": {"k": k, "items": [x.hex() for x in items], "truncated": False}})
            if k:
                # a buffer that ends inside the last item / inside a length field
                for cut in (1, 5):
                    cases.append({"fn": "unpack_byte_array", "n": k, "enc": ["ba_enc", items], "cut": cut, "trail": False,
                                  "stream": "confirm", "meta": {"k": k, "items": [x.hex() for x in items], "truncated": True}})
    N = 40 if quick else 130
    for n in range(0, N + 1):
        for pname, vs in patterns(rng, 1, n):
            if quick and pname in ("zeros", "ones") and n % 8 not in (0, 1, 7):
                continue
            cases.append({"fn": "read_plain_boolean", "count": n, "enc": ["bool_enc", vs], "trail": pname == "random",
                          "stream": "main", "meta": {"vals": vs}})
            cases.append({"fn": "convert_bool", "vals": vs, "stream": "main", "meta": {}})
    # writer.make_definitions: both branches (no nulls -> one RLE run; nulls -> bit-packed booleans), page v1 and v2
    for n in (list(range(0, 41)) + [64, 65, 1000] if quick else list(range(0, 130)) + [1000, 1023, 1024, 1025, 8191, 8192]):
        for version in (1, 2):
            for npat in ("none", "third", "all", "random"):
                if n == 0 and npat != "none":
                    continue
                nulls = {"none": [False] * n, "third": [i % 3 == 1 for i in range(n)], "all": [True] * n,
                         "random": [rng.random() < 0.4 for _ in range(n)]}[npat]
                for no_nulls in ((True, False) if npat == "none" else (False,)):
                    cases.append({"fn": "make_definitions", "vals": [None if z else float(i) for i, z in enumerate(nulls)],
                                  "no_nulls": no_nulls, "version": version, "stream": "main",
                                  "meta": {"n": n, "nulls": npat}})
    # pages WITH nulls at the varint boundaries of the run header's GROUP count (the header counts the bytes of the packed mask:
    # 63 / 64 groups = 1 -> 2 header bytes around 504 rows, 8191 / 8192 groups = 2 -> 3 header bytes around 65528 rows): whatever buffer
    # the block is assembled in must hold the longer header; and the no-null run at the same row counts
    for n in ([495, 496, 503, 504, 505, 511, 512, 513, 65519, 65520, 65521, 65527, 65528, 65529, 65535, 65536, 65537] if quick else
              list(range(495, 515)) + list(range(65512, 65546)) + [131071, 131072]):
        for version in (1, 2):
            for npat in (("last", "third") if (quick and n in (504, 65528, 65529)) or not quick else ("last",)):
                nulls = {"last": [i == n - 1 for i in range(n)], "third": [i % 3 == 1 for i in range(n)]}[npat]
                cases.append({"fn": "make_definitions", "vals": [None if z else 1 for z in nulls], "no_nulls": False, "version": version,
                              "stream": "main", "meta": {"n": n, "nulls": npat, "boundary": True}})
            if n in (504, 65528, 65529, 65536):
                cases.append({"fn": "make_definitions", "vals": [1] * n, "no_nulls": True, "version": version, "stream": "main",
                              "meta": {"n": n, "nulls": "none", "boundary": True}})
    for dt, isz in (("int8", 1), ("int16", 2), ("int32", 4)):
        for n in (list(range(0, 41)) + [64, 65, 1000, 1025] if quick else list(range(0, 70)) + [127, 128, 129, 1000, 1023, 1024, 1025]):
            vs = [rng.randrange(1 << (8 * isz - 1)) for _ in range(n)]
            cases.append({"fn": "encode_dict", "vals": vs, "dtype": dt, "stream": "main", "meta": {"isz": isz}})
    return cases


def _cut_inp(c):
    b = _inp(c)
    return b[:len(b) - c["cut"]] if c.get("cut") else b


def _ub_views(c, mo, r, guard):
    t = L.tag(mo)
    if t != "ok":
        return t, r[:2] if r[0] != "ok" else ["ok"]
    mv = [None if x == [] else bytes(x[0]).hex() for x in mo[1]]
    return mv, (r[1] if r[0] == "ok" else r[:2])


def _ub_oracle(c, r, so, guard):
    if r[0] == "skip":
        return []
    if r[0] != "ok":
        return [(r[0], "real code: %r" % (r,))]
    items = c["meta"]["items"]
    want = [items[i] if i < len(items) else None for i in range(c["n"])]
    if c["meta"]["truncated"]:
        return []
    if r[1] != want:
        return [("values", "unpack_byte_array returned %r, the buffer holds %r" % (str(r[1])[:120], str(want)[:120]))]
    return []


def _pb_oracle(c, r, so, guard):
    if r[0] != "ok" or bytes.fromhex(r[1]) != bytes(so):
        return [("values", "pack_byte_array output differs from PLAIN BYTE_ARRAY encoding")]
    return []


def _rpb_views(c, mo, r, guard):
    t = L.tag(mo)
    return (mo[1] if t == "ok" else t), (r[1] if r[0] == "ok" else r[:2])


def _rpb_oracle(c, r, so, guard):
    if r[0] != "ok":
        return [(r[0], "real code: %r" % (r,))]
    if r[1] != list(so):
        return [("values", "read_plain_boolean(count=%d) returned %d values %r..., the bytes hold %r..." % (c["count"], len(r[1]), r[1][:16], list(so)[:16]))]
    return []


def _cb_oracle(c, r, so, guard):
    """relation, not byte equality: the bytes must decode (spec) to the input booleans and be no shorter than PLAIN needs"""
    if r[0] != "ok" or so[1] is None:
        return [(r[0], "real code: %r" % (r,))]
    out = bytes.fromhex(r[1])
    n = len(c["vals"])
    if len(out) < (n + 7) // 8:
        return [("count", "%d bytes for %d booleans" % (len(out), n))]
    dec = so[1]
    if list(dec) != c["vals"]:
        return [("values", "packed booleans %s do not decode to the input" % out[:20].hex())]
    if any(out[(n + 7) // 8:]) or (n % 8 and out[n // 8] >> (n % 8)):
        return [("values", "padding bits are not zero")]
    return []


def _ed_oracle(c, r, so, guard):
    if r[0] != "ok":
        return [(r[0], "real code: %r" % (r,))]
    out = bytes.fromhex(r[1])
    isz = c["meta"]["isz"]
    n = len(c["vals"])
    if not out or out[0] != 8 * isz or so[1] is None:
        return [("values", "first byte (bit width) is %r, expected %d" % (out[:1].hex(), 8 * isz))]
    dec = so[1]
    if not dec or list(dec[0][0]) != c["vals"]:
        return [("values", "RLE_DICTIONARY index block does not decode (spec hybrid decoder) to the %d indices: %s..." % (n, out[:12].hex()))]
    if n and len(dec[0][1]):
        return [("cursor", "%d bytes behind the bit-packed run" % len(dec[0][1]))]
    # the run body must be either the bare values (what the writer emits today, readable by the `selfmade` fast path as
    # an array of the index type) or whole groups of 8 values (what the specification asks for) - nothing in between
    hdr = len(_uleb_py(((n + 7) // 8) << 1 | 1))
    body = len(out) - 1 - hdr
    if n and body not in (n * isz, (n + 7) // 8 * 8 * isz):
        return [("values", "bit-packed run body of %d bytes for %d indices of %d bytes: neither the bare values (%d) nor whole groups (%d)"
                 % (body, n, isz, n * isz, (n + 7) // 8 * 8 * isz))]
    if r[2] is not None and r[2] != c["vals"]:
        return [("values", "the real decoder (read_rle_bit_packed_hybrid) does not return the indices from encode_dict's output: %r..." % (r[2][:8],))]
    return []


def _md_oracle(c, r, so, guard):
    """definition levels block: [4-byte length (v1)] + hybrid runs of width 1 that decode (spec) to 1 = present / 0 = null"""
    if r[0] != "ok":
        return [(r[0], "real code: %r" % (r,))]
    block = bytes.fromhex(r[1])
    n = len(c["vals"])
    want = [0 if v is None else 1 for v in c["vals"]]
    dec = so[1]
    if not dec:
        return [("values", "definition-level block %s... is rejected by the spec decoder" % block[:12].hex())]
    vals, rest = dec[0]
    if list(vals) != want:
        return [("values", "definition levels decode to %r..., the data has %r..." % (list(vals)[:12], want[:12]))]
    if n and len(rest):
        return [("cursor", "%d bytes behind the runs / length prefix does not cover the block" % len(rest))]
    if n and len(so) > 2 and so[2]:
        # the block must encode the n levels and nothing else (bit-packed padding: at most 8 more, + the writer's extra zero byte)
        return [("count", "the block encodes at least %d levels for %d rows (run header counts too many values)" % (n + 17, n))]
    if c["version"] == 1 and int.from_bytes(block[:4], "little") != len(block) - 4:
        return [("count", "length prefix %d, block body %d bytes" % (int.from_bytes(block[:4], "little"), len(block) - 4))]
    if r[2] != (n if c["no_nulls"] else None) and c["no_nulls"]:
        return [("count", "make_definitions returned %r values for %d rows without nulls" % (r[2], n))]
    return []


def _info_views(model_name):
    def views(c, mo, r, guard):
        # Python code producing artefacts: byte equality with the witness model is information, not an obligation
        return "relation", "relation"
    return views


FNS.update({
    "delta_unpack": dict(hw=lambda c: ("c_delta_unpack_hw",) + _du_model(c)[1:], model=_du_model, views=_du_views, spec=lambda c: ("delta_dec", 64 if c["longval"] else 32, _inp(c)),
                         oracle=_du_oracle, safe=_du_safe, cls=_du_cls, trivial=lambda c: c["meta"]["count"] == 0 or c["cap"] == 0),
    "enc_bitpacked": dict(model=lambda c: ("c_encode_bitpacked", c["vals"], c["w"], c["cap"]), views=_eb_views, spec=_eb_spec,
                          oracle=_eb_oracle, spec2=_eb_spec2, safe=lambda c: c["w"] <= 24, cls=lambda c: {"width": c["w"]},
                          trivial=lambda c: not c["vals"] or c["cap"] == 0),
    "enc_rle_bp": dict(model=lambda c: ("c_encode_rle_bp", c["vals"], c["w"], c["cap"], c["withlength"]), views=_eb_views,
                       spec=_eb_spec, oracle=_eb_oracle, spec2=_eb_spec2, safe=lambda c: c["w"] <= 24,
                       cls=lambda c: {"width": c["w"], "withlength": c["withlength"]},
                       trivial=lambda c: not c["vals"] or c["cap"] == 0),
    "width_from_max_int": dict(model=lambda c: ("c_width_from_max_int", c["x"]), tagged=False,
                               views=lambda c, mo, r, g: (mo, r[1] if r[0] == "ok" else r[:2]),
                               spec=lambda c: ("uleb_enc", 0), oracle=_wf_oracle, safe=lambda c: True, cls=lambda c: {},
                               trivial=lambda c: False),
    "write_bitpacked1": dict(model=lambda c: ("c_write_bitpacked1", _inp(c), c["count"], c["cap"]), views=_w1_views,
                             spec=lambda c: ("bool_enc", c["meta"]["vals"]), oracle=_w1_oracle, safe=lambda c: True,
                             cls=lambda c: {}, trivial=lambda c: c["count"] == 0),
    "pack_byte_array": dict(model=lambda c: ("c_pack_byte_array", [bytes.fromhex(x) for x in c["items"]]), tagged=False,
                            views=lambda c, mo, r, g: (bytes(mo).hex(), r[1] if r[0] == "ok" else r[:2]),
                            spec=lambda c: ("ba_enc", [bytes.fromhex(x) for x in c["items"]]), oracle=_pb_oracle,
                            safe=lambda c: True, cls=lambda c: {}, trivial=lambda c: not c["items"]),
    "unpack_byte_array": dict(model=lambda c: ("c_unpack_byte_array", _cut_inp(c), c["n"]), views=_ub_views,
                              spec=lambda c: ("ba_dec", min(c["n"], c["meta"]["k"]), _inp(c)), oracle=_ub_oracle,
                              safe=lambda c: not c["meta"]["truncated"], cls=lambda c: {"truncated": c["meta"]["truncated"]},
                              trivial=lambda c: c["n"] == 0 or c["meta"]["k"] == 0),
    "read_plain_boolean": dict(model=lambda c: ("py_read_plain_boolean", _inp(c), c["count"]), views=_rpb_views,
                               spec=lambda c: ("bool_dec", c["count"], _inp(c)[:c["enc_len"]]), oracle=_rpb_oracle,
                               safe=lambda c: True, cls=lambda c: {}, trivial=lambda c: c["count"] == 0),
    "convert_bool": dict(model=lambda c: ("py_bool_pack", c["vals"]), tagged=False, views=_info_views("py_bool_pack"),
                         spec=lambda c: ("bool_enc", c["vals"]), oracle=_cb_oracle, safe=lambda c: True, cls=lambda c: {},
                         spec2=lambda c, r: ("bool_dec", len(c["vals"]), bytes.fromhex(r[1])) if r[0] == "ok" else None,
                         trivial=lambda c: not c["vals"], info=lambda c, mo, r: r[0] == "ok" and bytes(mo).hex() == r[1]),
    "make_definitions": dict(model=lambda c: ("uleb_enc", 0), tagged=False, views=_info_views("none"),
                             spec=lambda c: ("uleb_enc", 0), oracle=_md_oracle, safe=lambda c: True, cls=lambda c: {"version": c["version"]},
                             trivial=lambda c: not c["vals"],
                             spec2=lambda c, r: (("hyb_dec_len" if c["version"] == 1 else "hyb_dec"), 1 if c["version"] == 1 else 0, 1,
                                                 len(c["vals"]), bytes.fromhex(r[1])) if r[0] == "ok" else None,
                             spec3=lambda c, r: (("hyb_dec_len" if c["version"] == 1 else "hyb_dec"), 0, 1,
                                                 len(c["vals"]) + 17, bytes.fromhex(r[1])) if r[0] == "ok" else None),
    "encode_dict": dict(model=lambda c: ("py_encode_dict", c["meta"]["isz"], c["vals"]), tagged=False,
                        views=_info_views("py_encode_dict"), spec=lambda c: ("uleb_enc", 0), oracle=_ed_oracle,
                        spec2=lambda c, r: ("hyb_dec", 0, 8 * c["meta"]["isz"], len(c["vals"]), bytes.fromhex(r[1])[1:]) if r[0] == "ok" and r[1] else None,
                        safe=lambda c: True, cls=lambda c: {}, trivial=lambda c: not c["vals"],
                        info=lambda c, mo, r: r[0] == "ok" and bytes(mo).hex() == r[1]),
})
EXTRA_GENERATORS += [gen_delta, gen_encoders, gen_plain]


# =============================================================================================
# extraction vs kernel: a sample of the impl-model commands is re-evaluated by vm_compute inside coqc
# (DESIGN 3.2) - the extracted OCaml code and the Coq definitions the theorems are about must agree
# =============================================================================================

_COQ_REQ = ("From Coq Require Import NArith ZArith List.\n"
            "From Pq Require Import Base.Bytes Base.Err Base.ListX Impl.CVarint Impl.CBitpack Impl.CRle Impl.CHybrid Impl.CDelta.\n"
            "Import ListNotations.\nOpen Scope N_scope.\n"
            "Definition vw (r : res dres) : N * list N * N * N := match r with Ok d => (0, d_vals d, d_used d, d_written d) "
            "| OOB => (1, [], 0, 0) | UB => (2, [], 0, 0) | Fuel => (3, [], 0, 0) end.\n"
            "Definition vw3 (r : res (list N * N * N)) : N * list N * N * N := match r with Ok (a, b, c) => (0, a, b, c) "
            "| OOB => (1, [], 0, 0) | UB => (2, [], 0, 0) | Fuel => (3, [], 0, 0) end.\n")


def _cl(b):
    return "[" + "; ".join(str(x) for x in b) + "]"


_COQ_EXPR = {
    "read_bitpacked": lambda c: "vw (c_read_bitpacked %s (%d)%%Z %d %d %d)" % (_cl(_inp(c)), c["header"], c["w"], c["cap"], c["isz"]),
    "read_rle": lambda c: "vw (c_read_rle %s (%d)%%Z %d %d %d)" % (_cl(_inp(c)), c["header"], c["w"], c["cap"], c["isz"]),
    "read_hybrid": lambda c: "vw (c_read_hybrid %s %d %d %d %d)" % (_cl(_inp(c)), c["w"], c["length"], c["cap"], c["isz"]),
    "read_bitpacked1": lambda c: "vw (c_read_bitpacked1 %s %d %d)" % (_cl(_inp(c)), c["count"], c["cap"]),
    "delta_unpack": lambda c: "vw3 (c_delta_binary_unpack %s (repN %d %d []) %d %s)" % (
        _cl(_inp(c)), FILL64 if c["longval"] else FILL32, c["cap"] // (8 if c["longval"] else 4), c["cap"],
        "true" if c["longval"] else "false"),
}


def extraction_agreement(ctx, cases, workdir, n=24):
    pool = [i for i, c in enumerate(cases) if c["fn"] in _COQ_EXPR and len(c["inp"]) <= 600]
    by_fn = {}
    for i in pool:
        by_fn.setdefault(cases[i]["fn"], []).append(i)
    pick = []
    for fn in sorted(by_fn):
        pick += ctx.rng.sample(by_fn[fn], min(max(n // len(by_fn), 1), len(by_fn[fn])))
    exprs = [_COQ_EXPR[cases[i]["fn"]](cases[i]) for i in pick]
    kernel = C.vm_eval(_COQ_REQ, exprs, "N * list N * N * N", workdir, tag="extract_agrees")
    extracted = L.pq_batch([FNS[cases[i]["fn"]]["model"](cases[i]) for i in pick])
    codes = {"ok": 0, "oob": 1, "ub": 2, "fuel": 3}
    for i, k, mo in zip(pick, kernel, extracted):
        kv = C.parse_coq(k) if k is not None else None
        kv = [kv[0], list(kv[1]), kv[2], kv[3]] if kv is not None else None
        t = L.tag(mo)
        ev = [0, list(mo[1]), mo[2], mo[3]] if t == "ok" else [codes.get(t, 9), [], 0, 0]
        ctx.correspondence("extracted impl model (pqref) = kernel evaluation of the same Coq term (vm_compute)", short(cases[i]), kv, ev)


# =============================================================================================
# the Python callers of the native decoders (core.read_data_page on foreign v1 dictionary pages)
# =============================================================================================

def gen_callers(rng, quick):
    cases = []
    for w in range(1, 33):
        for shape in (("rle",), ("bp",), ("rle", "bp", "rle")):
            if w > 24 and "bp" in shape:
                continue                  # bit-packed runs of width >= 25: the known native defect, confirmed elsewhere
            for optional in (False, True):
                for n in ((9, 40) if quick else (1, 8, 9, 17, 40, 200)):
                    m = min((1 << w) - 1, (1 << 31) - 1)       # a dictionary has at most 2^31 - 1 entries (i32 num_values)
                    levels = [1] * n if not optional else [0 if (i % 4 == 1) else 1 for i in range(n)]
                    nval = sum(levels)
                    # indices: the extremes of the width first (0, 2^w - 1, 2^(w-1)), then random
                    ext = [m, 0, 1 << min(w - 1, 30)]
                    rnd = lambda k: [rng.randrange(m + 1) for _ in range(k)]
                    if shape == ("rle",):
                        runs = [["rle", 1, ext[0]], ["rle", 1, ext[1]], ["rle", max(nval - 2, 0), ext[2]]]
                    elif shape == ("bp",):
                        runs = [["bp", (ext + rnd(nval))[:nval]]]
                    else:
                        runs = [["rle", 2, ext[0]], ["bp", (ext[1:] + rnd(8))[:8]], ["rle", 1, ext[2]], ["bp", rnd(max(nval - 11, 0))]]
                    want, left = [], nval
                    kept = []
                    for rr in runs:
                        vals = [rr[2]] * rr[1] if rr[0] == "rle" else list(rr[1])
                        vals = vals[:left]
                        if not vals:
                            continue
                        kept.append(["rle", len(vals), rr[2]] if rr[0] == "rle" else ["bp", vals])
                        want += vals
                        left -= len(vals)
                    runs = kept
                    if len(want) != nval or any(r_[0] == "bp" and len(r_[1]) % 8 for r_ in runs[:-1]):
                        continue
                    cases.append({"fn": "page_v1_dict", "w": w, "n": n, "optional": optional, "stream": "main",
                                  "enc": ["hyb_enc", w, runs], "trail": False,
                                  "meta": {"want": want, "levels": levels, "shape": "+".join(shape)}})
                    if max(want + [0]) < (1 << 53):
                        cases.append({"fn": "page_v2_dict", "w": w, "n": n, "nval": nval, "optional": optional, "stream": "main",
                                      "enc": ["hyb_enc", w, runs], "trail": False,
                                      "meta": {"want": want, "levels": levels, "shape": "+".join(shape)}})
    return cases


def _wform(c):
    """`wform` pages: the index block as fastparquet's own writer lays it out (writer.encode_dict): ONE bit-packed run
    whose header counts whole groups of 8 but whose body holds only the real values (not padded to a group); built
    from the spec bit packing `bp_enc` + the run header.  The lenient spec hybrid decoder accepts it."""
    body = bytes.fromhex(c["inp"])
    if c.get("wform"):
        n = len(c["meta"]["want"])
        body = (_uleb_py(((n + 7) // 8) << 1 | 1) if n else b"") + body
        c["inp"] = body.hex()
    return body


def _pg_finish(c):
    """phase 2 hook: assemble the page = [definition levels] + width byte + index runs"""
    body = _wform(c)
    head = b""
    if c["optional"]:
        lv = c["meta"]["levels"]
        bits = bytearray((len(lv) + 7) // 8)
        for i, b in enumerate(lv):
            bits[i // 8] |= b << (i % 8)
        blk = _uleb_py(((len(lv) + 7) // 8) << 1 | 1) + bytes(bits)
        head = len(blk).to_bytes(4, "little") + blk
    c["page"] = (head + (b"" if c.get("rle_bool") else bytes([c["w"]])) + body).hex()


def _pg2_finish(c):
    """v2 page = definition levels (bare hybrid runs, no length prefix) + width byte + index runs"""
    body = _wform(c)
    head = b""
    if c["optional"]:
        lv = c["meta"]["levels"]
        bits = bytearray((len(lv) + 7) // 8)
        for i, b in enumerate(lv):
            bits[i // 8] |= b << (i % 8)
        head = _uleb_py(((len(lv) + 7) // 8) << 1 | 1) + bytes(bits)
    c["dlen"] = len(head)
    c["page"] = (head + (b"" if c.get("rle_bool") else bytes([c["w"]])) + body).hex()


def _pg2_oracle(c, r, so, guard):
    if r[0] != "ok":
        return [(r[0], "core.read_data_page_v2: %r" % (r[:3],))]
    want, agrees = _pg_want(c, so)
    if not agrees:
        return [("spec", "harness: the page's index runs do not spec-decode to the intended indices")]
    it = iter(want)
    levels = c["meta"]["levels"] if not isinstance(c["meta"]["levels"], str) else [1] * c["n"]
    full = [next(it) if lv else (-1 if c.get("use_cat") else None) for lv in levels]
    if r[1] != full:
        bad = [(i, a, b) for i, (a, b) in enumerate(zip(r[1], full)) if a != b][:4]
        return [("values", "core.read_data_page_v2 filled the output (dtype %s) differently from the spec decoding of the page at %r "
                 "(row, got, want)" % (r[3], bad))]
    return []


def _pg_oracle(c, r, so, guard):
    if r[0] != "ok":
        return [(r[0], "core.read_data_page: %r" % (r[:3],))]
    want, agrees = _pg_want(c, so)
    probs = []
    if not agrees:
        return [("spec", "harness: the page's index runs do not spec-decode to the intended indices")]
    if r[1] != want:
        bad = [(i, a, b) for i, (a, b) in enumerate(zip(r[1], want)) if a != b][:4]
        probs.append(("values", "core.read_data_page returned indices (dtype %s) that differ from the spec decoding of the page at %r "
                      "(position, got, want)%s" % (r[3], bad, "" if len(r[1]) == len(want) else "; %d values for %d" % (len(r[1]), len(want)))))
    lv = c["meta"]["levels"]
    if c["optional"] and not isinstance(lv, str) and 0 in lv and r[2] != lv:
        probs.append(("values", "definition levels %r..., the page holds %r..." % ((r[2] or [])[:12], lv[:12])))
    return probs


def _pg_cls(c):
    return {"width": c["w"], "optional": c["optional"], "selfmade": bool(c.get("selfmade")), "use_cat": bool(c.get("use_cat")),
            "shape": c["meta"]["shape"]}


def _nwant(c):
    w = c["meta"]["want"]
    return c.get("nval", c["n"]) if isinstance(w, str) else len(w)


def _pg_spec(c):
    if isinstance(c["meta"]["want"], str):
        return ("uleb_enc", 0)          # (the 64 KiB framing case: the expectation is known by construction, see _pg_want)
    return ("hyb_dec_len" if c.get("rle_bool") else "hyb_dec", 0, c["w"], _nwant(c), _inp(c))


def _pg_want(c, so):
    """(intended values, spec decoding agrees with them)"""
    want = c["meta"]["want"]
    if isinstance(want, str):
        return [i % 2 for i in range(c["n"])], True
    return want, bool(so) and list(so[0][0]) == want


FNS["page_v1_dict"] = dict(model=lambda c: ("uleb_enc", 0), tagged=False, views=_info_views("none"),
                           spec=_pg_spec,
                           oracle=_pg_oracle, safe=lambda c: True, cls=_pg_cls, trivial=lambda c: False)
FNS["page_v2_dict"] = dict(model=lambda c: ("uleb_enc", 0), tagged=False, views=_info_views("none"),
                           spec=_pg_spec,
                           oracle=_pg2_oracle, safe=lambda c: True, cls=_pg_cls, trivial=lambda c: False)
EXTRA_GENERATORS.append(gen_callers)


def _smallest_int(m):
    return "int8" if m < (1 << 7) else "int16" if m < (1 << 15) else "int32"


def gen_callers_dispatch(rng, quick):
    """The callers' DISPATCH: core.read_data_page / read_data_page_v2 pick a decoder per (page version, bit width, selfmade flag,
    categorical output or dictionary de-reference).  Whole lattice: widths 0..32 x v1/v2 x selfmade/foreign x with/without
    nulls x (v2) use_cat; index streams come from the spec encoders, the expectation from the spec decoder.
    A self-made page of width 8/16/32 is laid out the way writer.encode_dict does (one bit-packed run of whole bytes,
    `wform`); every other combination carries spec-form runs (RLE / bit-packed / mixed).  Foreign x v1 and foreign x v2 x
    de-reference are the older `gen_callers` stream; bit-packed runs of width >= 25 through the generic native decoder are
    the known .pyx defect (confirmed in the read_bitpacked / read_hybrid streams) and are not repeated here."""
    cases = []
    for w in range(0, 33):
        for selfmade in (False, True):
            ownw = selfmade and w in (8, 16, 32)
            if ownw:
                # created_by is only a string: besides the writer's own layout ("wbp") a file naming fastparquet may hold any runs
                shapes = [("wbp",), ("rle",), ("bp",)] + ([("rle", "bp", "rle"), ("bp8", "rle")] if w <= 24 else [])
            elif w == 0:
                shapes = [("rle",), ("bp",)]          # (width 0: the readers must not enter the native decoder at all)
            elif w > 24:
                shapes = [("rle",)]
            else:
                shapes = [("rle",), ("bp",), ("rle", "bp", "rle")]
            for shape, top in [(sh, t) for sh in shapes for t in ((None,) if not (ownw and sh in (("wbp",), ("bp",))) else
                                                                   {8: (127, 128, 255), 16: (32767, 32768, 65535), 32: (None,)}[w])]:
                own = ownw and shape == ("wbp",)
                for optional in (False, True):
                    for n in ((9, 40) if quick else (1, 8, 9, 17, 40, 200)):
                        # largest index: a dictionary has at most 2^31 - 1 entries; fastparquet's own codes are signed.  `top`: whole-byte
                        # indices in the one-run layout with a dictionary on either side of the signed range of the width (core._index_dtype)
                        m = top if top is not None else ((1 << (w - 1)) - 1 if ownw else min((1 << w) - 1, (1 << 31) - 1))
                        levels = [1] * n if not optional else [0 if (i % 4 == 1) else 1 for i in range(n)]
                        nval = sum(levels)
                        ext = [m, 0, (1 << max(min(w - 2, 29), 0)) if w else 0]
                        rnd = lambda k: [rng.randrange(m + 1) for _ in range(k)]
                        if shape == ("rle",):
                            runs = [["rle", 1, ext[0]], ["rle", 1, ext[1]], ["rle", max(nval - 2, 0), ext[2]]]
                        elif shape in (("bp",), ("wbp",)):
                            runs = [["bp", (ext + rnd(nval))[:nval]]]
                        elif shape == ("bp8", "rle"):
                            # a first bit-packed run that does NOT hold all the values, then RLE: not the one-run layout
                            runs = [["bp", (ext + rnd(8))[:8]], ["rle", max(nval - 8, 0), ext[0]]]
                        else:
                            runs = [["rle", 2, ext[0]], ["bp", (ext[1:] + rnd(8))[:8]], ["rle", 1, ext[2]], ["bp", rnd(max(nval - 11, 0))]]
                        want, left, kept = [], nval, []
                        for rr in runs:
                            vals = [rr[2]] * rr[1] if rr[0] == "rle" else list(rr[1])
                            vals = vals[:left]
                            if not vals:
                                continue
                            kept.append(["rle", len(vals), rr[2]] if rr[0] == "rle" else ["bp", vals])
                            want += vals
                            left -= len(vals)
                        runs = kept
                        if len(want) != nval or any(r_[0] == "bp" and len(r_[1]) % 8 for r_ in runs[:-1]):
                            continue
                        enc = ["bp_enc", w, want] if own else ["hyb_enc", w, runs]
                        base = {"w": w, "n": n, "optional": optional, "stream": "main", "enc": enc, "trail": False,
                                "selfmade": selfmade, "wform": own, "dic_len": m + 1}
                        # core._is_one_bitpacked_run: the block is ONE bit-packed run holding at least the page's values
                        one_run = len(runs) == 1 and runs[0][0] == "bp"
                        meta = {"want": want, "levels": levels, "shape": "+".join(shape), "one_run": one_run}
                        if selfmade or w == 0:
                            cases.append(dict(base, fn="page_v1_dict", meta=dict(meta)))
                            cases.append(dict(base, fn="page_v2_dict", nval=nval, use_cat=False, meta=dict(meta)))
                        # categorical output: the codes array is as wide as the number of categories needs
                        adts = [_smallest_int(max(want + [0]))]
                        if own and w < 32:
                            adts.append("int32")           # more categories declared than the page's own code width
                        for adt in adts:
                            cases.append(dict(base, fn="page_v2_dict", nval=nval, use_cat=True, adt=adt, meta=dict(meta)))
    # BOOLEAN values in RLE encoding (Encoding.RLE): no width byte - the width is 1 by definition - but a 4-byte length in
    # front of the runs, which both readers step over before they enter the same chains
    for selfmade in (False, True):
        for shape in (("rle",), ("bp",), ("rle", "bp", "rle")):
            for optional in (False, True):
                for n in ((9, 40) if quick else (1, 8, 9, 17, 40, 200)):
                    levels = [1] * n if not optional else [0 if (i % 4 == 1) else 1 for i in range(n)]
                    nval = sum(levels)
                    bits = [rng.randrange(2) for _ in range(nval)]
                    if shape == ("rle",):
                        runs = [["rle", nval - nval // 2, 1], ["rle", nval // 2, 0]]
                    elif shape == ("bp",):
                        runs = [["bp", bits]]
                    else:
                        runs = [["rle", 2, 1], ["bp", bits[:8]], ["rle", 1, 0], ["bp", bits[8:max(nval - 3, 8)]]]
                    want, left, kept = [], nval, []
                    for rr in runs:
                        vals = [rr[2]] * rr[1] if rr[0] == "rle" else list(rr[1])
                        vals = vals[:left]
                        if not vals:
                            continue
                        kept.append(["rle", len(vals), rr[2]] if rr[0] == "rle" else ["bp", vals])
                        want += vals
                        left -= len(vals)
                    if len(want) != nval or any(r_[0] == "bp" and len(r_[1]) % 8 for r_ in kept[:-1]):
                        continue
                    base = {"w": 1, "n": n, "optional": optional, "stream": "main", "enc": ["hyb_enc_len", 1, kept], "trail": False,
                            "selfmade": selfmade, "rle_bool": True}
                    meta = {"want": want, "levels": levels, "shape": "rle-bool:" + "+".join(shape)}
                    cases.append(dict(base, fn="page_v1_dict", meta=dict(meta)))
                    cases.append(dict(base, fn="page_v2_dict", nval=nval, use_cat=False, meta=dict(meta)))
    # framing boundary of the 4-byte length: a body of more than 65535 bytes (32800 one-value RLE runs), so that every byte
    # of the prefix matters
    big = [["rle", 1, i % 2] for i in range(32800)]
    base = {"w": 1, "n": 32800, "optional": False, "stream": "main", "enc": ["hyb_enc_len", 1, big], "trail": False,
            "selfmade": False, "rle_bool": True}
    meta = {"want": "alternating 0/1 (i % 2)", "levels": "all 1", "shape": "rle-bool:64k"}
    cases.append(dict(base, fn="page_v1_dict", meta=dict(meta)))
    cases.append(dict(base, fn="page_v2_dict", nval=32800, use_cat=False, meta=dict(meta)))
    return cases


EXTRA_GENERATORS.append(gen_callers_dispatch)


def coq_obligations(ctx, pid):
    """coqc of props/<pid>.v (every theorem = one obligation); thorough tier: also coqchk -o on the resulting .vo
    (independent re-check by the standalone kernel of the theorem file and everything it depends on)."""
    import time
    ok, _ = ctx.coq_file(os.path.join(C.COQ, "props", pid + ".v"))
    if ok and not ctx.quick():
        t = time.time()
        rc, out = C.run(["coqchk", "-silent", "-o", "-Q", os.path.join(C.COQ, "theories"), "Pq", pid + ".vo"],
                        timeout=2400, cwd=os.path.join(C.COQ, "props"))
        good = rc == 0 and "* Axioms: <none>" in out
        ctx.obligation("coqchk -o props/%s.vo: the standalone checker accepts the theorem file and its dependencies, Axioms: <none>" % pid,
                       good, out[-2000:])
        ctx.checker_cmds.append("coqchk -silent -o -Q coq/theories Pq coq/props/%s.vo  (%.1fs)" % (pid, time.time() - t))


# =============================================================================================
# the Python-level codecs of fastparquet/encoding.py: read_plain for every physical type, byte-array round trips
# =============================================================================================

PLAIN_FIXED = {"INT32": 4, "INT64": 8, "INT96": 12, "FLOAT": 4, "DOUBLE": 8}


def ba_item_sets(rng, quick):
    """value lattices for BYTE_ARRAY / FIXED_LEN_BYTE_ARRAY: uniform and mixed lengths, empty values, leading / trailing /
    only NUL bytes, 0xFF, non-UTF8 bytes, values that look like a length field"""
    sets = []
    for L in ((1, 2, 3, 4, 8, 16) if quick else (1, 2, 3, 4, 5, 7, 8, 12, 16, 33)):
        pats = {
            "nul": lambda i: bytes(L),
            "trail-nul": lambda i: bytes([0x61 + i % 26]) * (L - 1) + b"\x00",
            "lead-nul": lambda i: b"\x00" + bytes([0x61 + i % 26]) * (L - 1),
            "ff": lambda i: b"\xff" * L,
            "counter": lambda i: i.to_bytes(L, "little") if i < 256 ** L else bytes(L),
            "random": lambda i: bytes(rng.randrange(256) for _ in range(L)),
            "nonutf8": lambda i: (b"\xc3\x28\xa0\xa1\xfe\x80" * L)[i % 3:i % 3 + L],
            "some-trail-nul": lambda i: (bytes([0x41 + i % 26]) * L) if i % 2 else (bytes([0x41 + i % 26]) * (L - 1) + b"\x00"),
        }
        for pname, f in pats.items():
            for k in ((1, 2, 5) if quick else (1, 2, 3, 5, 9, 17)):
                if quick and pname in ("ff", "lead-nul", "nonutf8") and k != 2:
                    continue
                sets.append(("uniform-%d/%s" % (L, pname), [f(i) for i in range(k)]))
    sets.append(("empty-list", []))
    for k in (1, 2, 5):
        sets.append(("all-empty", [b""] * k))
    mixed = [b"", b"\x00", b"a\x00", b"\x00a", b"\x00\x00\x00", b"abc", b"\xff\xfe", b"\x04\x00\x00\x00", b"x" * 255, b"y" * 256, b"\x00" * 17]
    sets.append(("mixed", list(mixed)))
    sets.append(("mixed-rev", list(reversed(mixed))))
    for rep in range(2 if quick else 8):
        sets.append(("mixed-random", [bytes(rng.randrange(256) for _ in range(rng.choice([0, 0, 1, 2, 3, 4, 4, 9, 300])))
                                      for _ in range(rng.choice([1, 2, 3, 7, 8, 9]))]))
    # same length for all but one
    sets.append(("uniform-but-last", [b"ab\x00", b"cd\x00", b"e\x00"]))
    sets.append(("uniform-but-first", [b"\x00", b"cd\x00", b"ef\x00"]))
    return sets


def utf_item_sets(rng, quick):
    strs = [["a", "b"], ["", ""], ["a\x00", "b\x00"], ["\x00"], ["\x00a", "\x00b"], ["h\u00e9", "\u00fc\u00df"], ["\u20ac", "\u20ac"],
            ["\U0001F600", "ab"], ["abc", "", "de\x00", "\u00e9"], ["same", "same", "same"], ["a" * 300, "b"]]
    return [("utf8", [x.encode("utf-8") for x in ss]) for ss in strs]


def gen_read_plain(rng, quick):
    cases = []
    bufs = ("bytes", "ndarray", "memoryview")
    nb = [0]

    def buf():
        nb[0] += 1
        return bufs[nb[0] % 3]
    # fixed-width physical types (np.frombuffer with a dtype from DECODE_TYPEMAP) and FIXED_LEN_BYTE_ARRAY
    kinds = [(t, k, 0) for t, k in PLAIN_FIXED.items()] + [("FIXED_LEN_BYTE_ARRAY", k, k) for k in (1, 2, 3, 12, 16)]
    for t, k, width in kinds:
        top = (1 << (8 * k)) - 1
        for n in ((0, 1, 2, 9) if quick else (0, 1, 2, 3, 7, 8, 9, 33)):
            pats = {"zeros": [0] * n, "ones": [top] * n,
                    "low-byte-only": [(i % 255) + 1 for i in range(n)],                       # every high byte is NUL (trailing NULs)
                    "high-byte-only": [((i % 255) + 1) << (8 * (k - 1)) for i in range(n)],    # leading NULs
                    "random": [rng.randrange(top + 1) for _ in range(n)]}
            for pname, vs in pats.items():
                if n == 0 and pname != "zeros":
                    continue
                for extra in ((0, 3) if pname == "random" else (0,)):
                    cases.append({"fn": "read_plain_t", "type": t, "count": n, "width": width, "utf": False, "stat": False,
                                  "buf": buf(), "extra": extra, "enc": ["fixed_enc", k, vs], "trail": False, "stream": "main",
                                  "meta": {"k": k, "vals": [str(v) for v in vs], "pattern": pname}})
        # a statistics value (count 1, stat=True; FLBA comes without its width)
        for v in (0, 1, top, 1 << (8 * (k - 1))):
            cases.append({"fn": "read_plain_t", "type": t, "count": 1, "width": 0, "utf": False, "stat": True, "buf": buf(), "extra": 0,
                          "enc": ["fixed_enc", k, [v]], "trail": False, "stream": "main",
                          "meta": {"k": k, "vals": [str(v)], "pattern": "stat"}})
    # BOOLEAN through the dispatch
    for n in ((0, 1, 7, 8, 9, 40) if quick else tuple(range(0, 20)) + (63, 64, 65)):
        vs = [rng.randrange(2) for _ in range(n)]
        cases.append({"fn": "read_plain_t", "type": "BOOLEAN", "count": n, "width": 0, "utf": False, "stat": False, "buf": buf(), "extra": 0,
                      "enc": ["bool_enc", vs], "trail": False, "stream": "main", "meta": {"k": 0, "vals": vs, "pattern": "random"}})
    # BYTE_ARRAY
    for utf, sets in ((False, ba_item_sets(rng, quick)), (True, utf_item_sets(rng, quick))):
        for name, items in sets:
            hexs = [x.hex() for x in items]
            cases.append({"fn": "read_plain_t", "type": "BYTE_ARRAY", "count": len(items), "width": 0, "utf": utf, "stat": False,
                          "buf": buf(), "extra": 0, "enc": ["ba_enc", items], "trail": False, "stream": "main",
                          "meta": {"k": 0, "items": hexs, "pattern": name}})
            if items and not name.startswith("uniform") or name.endswith("/trail-nul"):
                # fewer values asked for than the page holds (the rest is ignored)
                cases.append({"fn": "read_plain_t", "type": "BYTE_ARRAY", "count": max(len(items) - 1, 0), "width": 0, "utf": utf,
                              "stat": False, "buf": buf(), "extra": 0, "enc": ["ba_enc", items], "trail": False, "stream": "main",
                              "meta": {"k": 0, "items": hexs[:max(len(items) - 1, 0)], "pattern": name + "/fewer"}})
            # the encoder side on the same lattice: pack_byte_array, and pack -> unpack / read_plain round trips
            cases.append({"fn": "pack_byte_array", "items": hexs, "stream": "main", "meta": {"k": len(items)}})
            cases.append({"fn": "ba_roundtrip", "items": hexs, "utf": utf, "stream": "main", "meta": {"pattern": name}})
            if items and len(items) <= 2:
                # a statistics value: the raw bytes ARE the value (no length prefix)
                cases.append({"fn": "read_plain_t", "type": "BYTE_ARRAY", "count": 1, "width": 0, "utf": utf, "stat": True,
                              "buf": buf(), "extra": 0, "inp": hexs[0], "enc_len": len(items[0]), "stream": "main",
                              "meta": {"k": 0, "items": [hexs[0]], "pattern": name + "/stat"}})
    return cases


def _rp_spec(c):
    t = c["type"]
    b = _inp(c)
    if t == "BOOLEAN":
        return ("bool_dec", c["count"], b)
    if t == "BYTE_ARRAY":
        if c["stat"]:
            return ("uleb_enc", 0)
        return ("ba_dec", c["count"], b)
    return ("fixed_dec", c["meta"]["k"], c["count"], b)


def _rp_oracle(c, r, so, guard):
    if r[0] != "ok":
        return [(r[0], "encoding.read_plain: %r" % (r[:3],))]
    t = c["type"]
    if t == "BOOLEAN":
        want = [int(x) for x in so]
    elif t == "BYTE_ARRAY":
        if c["stat"]:
            want = [c["inp"]]
        else:
            if not so:
                return [("spec", "harness: the spec decoder rejects the page")]
            want = [bytes(x).hex() for x in so[0][0]]
    else:
        if not so:
            return [("spec", "harness: the spec decoder rejects the page")]
        k = c["meta"]["k"]
        want = [int(v).to_bytes(k, "little").hex() for v in so[0][0]]
    if r[1] != want:
        bad = [(i, a, b) for i, (a, b) in enumerate(zip(r[1], want)) if a != b][:3]
        return [("values", "encoding.read_plain(%s, count=%d%s%s) returned %d values, the PLAIN bytes hold %d; first differences "
                 "(position, got, spec) %r" % (t, c["count"], ", utf" if c["utf"] else "", ", stat" if c["stat"] else "",
                                                len(r[1]), len(want), bad))]
    return []


def _rt_oracle(c, r, so, guard):
    if r[0] != "ok":
        return [(r[0], "pack_byte_array / unpack_byte_array: %r" % (r[:3],))]
    probs = []
    for name, got in (("unpack_byte_array(pack_byte_array(x))", r[1]), ("read_plain(pack_byte_array(x), BYTE_ARRAY)", r[2])):
        if got != c["items"]:
            bad = [(i, a, b) for i, (a, b) in enumerate(zip(got, c["items"])) if a != b][:3]
            probs.append(("values", "%s does not give the input back: %d values for %d; (position, got, input) %r"
                          % (name, len(got), len(c["items"]), bad)))
    return probs


FNS["read_plain_t"] = dict(model=lambda c: ("uleb_enc", 0), tagged=False, views=_info_views("none"), spec=_rp_spec,
                           oracle=_rp_oracle, safe=lambda c: True,
                           cls=lambda c: {"type": c["type"], "utf": c["utf"], "stat": c["stat"]},
                           trivial=lambda c: c["count"] == 0)
FNS["ba_roundtrip"] = dict(model=lambda c: ("uleb_enc", 0), tagged=False, views=_info_views("none"), spec=lambda c: ("uleb_enc", 0),
                           oracle=_rt_oracle, safe=lambda c: True, cls=lambda c: {"utf": c["utf"]},
                           trivial=lambda c: not c["items"])
EXTRA_GENERATORS.append(gen_read_plain)


# =============================================================================================
# the Python callers of delta_binary_unpack (allocation by physical type, longval flag)
# =============================================================================================

def gen_page_delta(rng, quick):
    cases = []
    for longval in (0, 1):
        bits = 64 if longval else 32
        for version in (1, 2):
            for n in ((5, 33, 40, 131) if quick else (2, 5, 31, 33, 34, 40, 130, 131, 300)):
                if (n - 1) % 128 == 0:
                    continue
                wsel = [rng.choice([0, 1, 3, 8, 13, 24, 28]) for _ in range(40)]
                vals, widths = _delta_values(rng, bits, n, 32, lambda m: wsel[m % 40], "random", 4)
                adts = ["int64" if longval else "int32"] + (["int64"] if (version == 2 and not longval) else [])
                for adt in adts:
                    # (as other writers leave them: stale width bytes for the unneeded miniblocks; n = 33: one value left at a stale miniblock)
                    for stale in ([None, [5, 9, 3]] if n in (33, 34, 5) else [None]):
                        cases.append({"fn": "page_delta", "longval": longval, "version": version, "n": n, "adt": adt, "vals": [str(v) for v in vals],
                                      "enc": ["delta_enc", bits, 128, 4, vals], "trail": False, "stream": "main",
                                      "meta": {"max_width": max(widths) if widths else 0, "stale": stale}})
    return cases


def _pd_oracle(c, r, so, guard):
    if r[0] != "ok":
        return [(r[0], "core.read_data_page%s on a DELTA_BINARY_PACKED page: %r" % ("_v2" if c["version"] == 2 else "", r[:3]))]
    if not so:
        return [("spec", "harness: the spec decoder rejects the page")]
    want = [int(v) for v in so[0][0]]
    if r[1] != want:
        bad = [(i, a, b) for i, (a, b) in enumerate(zip(r[1], want)) if a != b][:4]
        return [("values", "core.read_data_page%s (output dtype %s) differs from the spec decoding of the DELTA_BINARY_PACKED page: %d values for %d; "
                 "(position, got, want) %r" % ("_v2" if c["version"] == 2 else "", r[2], len(r[1]), len(want), bad))]
    return []


FNS["page_delta"] = dict(model=lambda c: ("uleb_enc", 0), tagged=False, views=_info_views("none"),
                         spec=lambda c: ("delta_dec", 64 if c["longval"] else 32, _inp(c)), oracle=_pd_oracle, safe=lambda c: True,
                         cls=lambda c: {"longval": c["longval"], "version": c["version"], "adt": c["adt"]}, trivial=lambda c: False)
EXTRA_GENERATORS.append(gen_page_delta)


# =============================================================================================
# encoder -> decoder round trip of the dictionary-index block: writer.encode_dict -> core.read_data_page / read_data_page_v2
# =============================================================================================

def gen_dict_roundtrip(rng, quick):
    """'every encoder's output decodes back to its input' for the whole-byte index run: the codes pandas holds for a categorical of
    ncat categories (int8 / int16 / int32 by ncat), ncat around the representation boundaries of the code and of the index width,
    pages that USE the highest codes; read back the way fastparquet reads its own pages (v1, v2 categorical, v2 de-reference) and
    as a foreign file."""
    cases = []
    ncats = [1, 2, 127, 128, 129, 200, 255, 256, 257, 32767, 32768, 32769, 40000, 65535, 65536, 65537] + ([] if quick else [3, 100, 1000, 70000, 100000])
    for ncat in ncats:
        for n in ((9, 40) if quick else (1, 8, 9, 40, 200)):
            for optional in (False, True):
                levels = [1] * n if not optional else [0 if (i % 4 == 1) else 1 for i in range(n)]
                nval = sum(levels)
                top = ncat - 1
                ext = [top, 0, top // 2, min(top // 2 + 1, top)] + [v for v in (127, 128, 255, 256, 32767, 32768, 65535, 65536) if v <= top]
                codes = (ext + [rng.randrange(ncat) for _ in range(nval)])[:nval]
                rng.shuffle(codes)
                cases.append({"fn": "dict_roundtrip", "ncat": ncat, "n": n, "optional": optional, "levels": levels, "codes": codes,
                              "stream": "main", "meta": {}})
    return cases


def _dr_oracle(c, r, so, guard):
    if r[0] != "ok":
        return [(r[0], "encode_dict -> page readers: %r" % (r[:3],))]
    res = r[1]
    probs = []
    it_codes = c["codes"]
    for key, got in sorted(res.items()):
        if key in ("enc", "codes_dtype"):
            continue
        if key.startswith("v1"):
            want = list(it_codes)
        else:
            it = iter(it_codes)
            null = -1 if key.endswith("cat") else None
            want = [next(it) if lv else null for lv in c["levels"]]
        if got != want:
            bad = got if (got and got[0] == "exc") else [(i, a, b) for i, (a, b) in enumerate(zip(got, want)) if a != b][:4]
            probs.append(("values", "the index block writer.encode_dict wrote for %d codes of dtype %s (%d categories; width byte %d) does not "
                          "decode back to its input through %s [page version / selfmade / mode]: (position, got, wrote) %r"
                          % (len(it_codes), res.get("codes_dtype"), c["ncat"], bytes.fromhex(res["enc"])[0] if res.get("enc") else -1, key, bad)))
            break
    return probs


FNS["dict_roundtrip"] = dict(model=lambda c: ("uleb_enc", 0), tagged=False, views=_info_views("none"), spec=lambda c: ("uleb_enc", 0),
                             oracle=_dr_oracle, safe=lambda c: True,
                             cls=lambda c: {"ncat_class": "int8" if c["ncat"] <= 128 else "int16" if c["ncat"] <= 32768 else "int32", "optional": c["optional"]},
                             trivial=lambda c: not c["codes"])
EXTRA_GENERATORS.append(gen_dict_roundtrip)


# =============================================================================================
# results of distinct inputs alive at once: threads (the sequential form is generic: harness/codec_worker.py `hold`)
# =============================================================================================

def gen_codec_threads(rng, quick):
    return [{"fn": "codec_threads", "n": n, "rounds": 60 if quick else 300, "stream": "main", "meta": {}} for n in ((40, 9000) if quick else (40, 1000, 9000, 20000))]


def _ct_oracle(c, r, so, guard):
    if r[0] != "ok":
        return [(r[0], "codec functions in four threads: %r" % (r[:3],))]
    if r[2]:
        return [("values", "four threads calling codec functions on their own inputs: %d results were not the value of the caller's input any more "
                 "when looked at after the call; e.g. %r" % (r[2], r[1][:3]))]
    return []


FNS["codec_threads"] = dict(model=lambda c: ("uleb_enc", 0), tagged=False, views=_info_views("none"), spec=lambda c: ("uleb_enc", 0),
                            oracle=_ct_oracle, safe=lambda c: True, cls=lambda c: {}, trivial=lambda c: False)
EXTRA_GENERATORS.append(gen_codec_threads)


# =============================================================================================
# make_definitions on pages of millions of rows (thorough tier): the 3 -> 4 byte boundary of the run header (2^20 groups)
# =============================================================================================

def gen_md_big(rng, quick):
    if quick:
        return []
    cases = []
    for n in (8388591, 8388592, 8388599, 8388600, 8388601, 8388608):
        for version in (1, 2):
            cases.append({"fn": "make_definitions_big", "n": n, "version": version, "null_at": [0, n // 2, n - 1], "stream": "main", "meta": {}})
    return cases


def _mdb_oracle(c, r, so, guard):
    if r[0] != "ok":
        return [(r[0], "make_definitions on %d rows: %r" % (c["n"], r[:3]))]
    if r[1]:
        return [("values", "make_definitions(%d rows with nulls, page v%d): %s (block of %d bytes starting %s)" % (c["n"], c["version"], "; ".join(r[1]), r[2], r[3]))]
    return []


FNS["make_definitions_big"] = dict(model=lambda c: ("uleb_enc", 0), tagged=False, views=_info_views("none"), spec=lambda c: ("uleb_enc", 0),
                                   oracle=_mdb_oracle, safe=lambda c: True, cls=lambda c: {"version": c["version"]}, trivial=lambda c: False)
EXTRA_GENERATORS.append(gen_md_big)


# =============================================================================================
# LEVEL streams through the Python reader core.read_data (v1 definition / repetition levels): run-structure lattice
# =============================================================================================

def gen_levels(rng, quick):
    """widths 1..3; bp then rle, rle then bp, several bit-packed runs, several groups in one run, mixed - with RLE counts chosen so that
    the stream's BYTE length reaches / exceeds ceil(count/8) (a reader that judges by bytes instead of by the values a run covers
    unpacks later run headers as level bits); the rest of the page follows the stream"""
    cases = []
    for w in (1, 2, 3):
        m = (1 << w) - 1
        bp = lambda k: ["bp", [rng.randrange(m + 1) for _ in range(k)]]
        rle = lambda k, v=None: ["rle", k, rng.randrange(m + 1) if v is None else v]
        shapes = []
        for k in (1, 7, 8, 9, 16, 24, 40, 100, 1000):
            shapes += [[bp(8), rle(k)], [bp(16), rle(k, m)], [rle(k), bp(8)], [bp(8), rle(k, 0), bp(8)], [bp(8), bp(8), rle(k)]]
        shapes += [[bp(8), bp(8), bp(8)], [bp(24)], [bp(8)], [rle(8)], [rle(3), rle(5), rle(100)], [bp(8), bp(5)], [bp(64), rle(2)],
                   [bp(8)] * 9, [bp(8), rle(1), bp(8), rle(1), bp(8)], [rle(1), bp(8), rle(1)]]
        for runs in shapes:
            vals = []
            for r_ in runs[:-1]:
                vals += [r_[2]] * r_[1] if r_[0] == "rle" else list(r_[1])
            last = runs[-1]
            vals += [last[2]] * last[1] if last[0] == "rle" else list(last[1])
            if any(r_[0] == "bp" and len(r_[1]) % 8 for r_ in runs[:-1]):
                continue
            cases.append({"fn": "levels_v1", "w": w, "count": len(vals), "enc": ["hyb_enc_len", w, runs], "trail": True, "stream": "main",
                          "meta": {"want": vals, "shape": "+".join("%s%d" % (r_[0], r_[1] if r_[0] == "rle" else len(r_[1])) for r_ in runs)}})
    return cases


def _lv_oracle(c, r, so, guard):
    if r[0] != "ok":
        return [(r[0], "core.read_data: %r" % (r[:3],))]
    want = c["meta"]["want"]
    if not so or list(so[0][0]) != want:
        return [("spec", "harness: the level stream does not spec-decode to the intended levels")]
    probs = []
    if r[1] != want:
        bad = [(i, a, b) for i, (a, b) in enumerate(zip(r[1], want)) if a != b][:4]
        probs.append(("values", "core.read_data (width %d, %d levels, runs %s) differs from the spec decoding of the stream at (position, got, want) %r"
                      % (c["w"], c["count"], c["meta"]["shape"], bad)))
    if r[2] != c["enc_len"]:
        probs.append(("cursor", "core.read_data left the cursor at %d, the length-prefixed stream ends at %d" % (r[2], c["enc_len"])))
    return probs


FNS["levels_v1"] = dict(model=lambda c: ("uleb_enc", 0), tagged=False, views=_info_views("none"),
                        spec=lambda c: ("hyb_dec_len", 0, c["w"], c["count"], _inp(c)[:c["enc_len"]]), oracle=_lv_oracle, safe=lambda c: True,
                        cls=lambda c: {"width": c["w"], "first": c["meta"]["shape"][:2]}, trivial=lambda c: False)
EXTRA_GENERATORS.append(gen_levels)
