"""Shared by C11 and C12: running recorded codec cases on the real code (subprocesses, crashes are
observations), on the impl models (pqref) and converting between the two result shapes."""
import json
import os
import subprocess
import sys

from harness import common as C

WORKER = os.path.join(os.path.dirname(os.path.abspath(__file__)), "codec_worker.py")
GUARD = 16
FILL = 0xAA
ASAN_LIB = "/usr/lib/x86_64-linux-gnu/libasan.so.8"


def _run_chunk(root, cases, workdir, tag, sanitize, timeout, max_crashes=40, worker=None):
    """Run one chunk sequentially in a worker; restart after the case that killed the worker."""
    cp = os.path.join(workdir, "cases_%s.json" % tag)
    op = os.path.join(workdir, "out_%s.jsonl" % tag)
    json.dump(cases, open(cp, "w"))
    open(op, "w").close()
    env = dict(os.environ)
    env["PYTHONDONTWRITEBYTECODE"] = "1"
    env["OMP_NUM_THREADS"] = "1"
    if sanitize:
        env["LD_PRELOAD"] = ASAN_LIB
        env["ASAN_OPTIONS"] = "detect_leaks=0:abort_on_error=0:exitcode=77:allocator_may_return_null=1"
        env["UBSAN_OPTIONS"] = "halt_on_error=0:print_stacktrace=0"      # reports are attributed through the @@CASE markers
    results = {}
    start = 0
    reports = {}
    guard = 0
    ub = {}
    ncrash = 0
    while start < len(cases) and guard < 3000:
        if ncrash >= max_crashes:
            for i in range(start, len(cases)):
                results.setdefault(i, ["skipped"])
            break
        guard += 1
        timed_out = False
        try:
            p = subprocess.run([C.PY, worker or WORKER, root, cp, op] + (["exact"] if sanitize else ["guard"]) + [str(start)],
                               env=env, stdout=subprocess.PIPE, stderr=subprocess.PIPE, timeout=timeout)
        except subprocess.TimeoutExpired as e:
            # a hanging native call is an observation (counts like a crash of the case that was running), never a hung check
            timed_out = True

            class _P:
                returncode = -999
                stderr = e.stderr or b""
            p = _P()
        cur = None
        for line in p.stderr.decode("utf-8", "replace").split("\n"):
            if line.startswith("@@CASE "):
                cur = int(line[7:])
            elif "runtime error" in line and cur is not None and cur not in ub:
                ub[cur] = line.strip()[:300]
        done = -1
        for line in open(op):
            line = line.strip()
            if not line:
                continue
            try:
                i, r = json.loads(line)
            except ValueError:
                continue
            results[i] = r
            done = max(done, i)
        if max(done + 1, start) >= len(cases) and p.returncode == 0:
            break
        # the worker died on case done+1
        k = max(done + 1, start)
        if k >= len(cases):
            # died at exit (e.g. sanitizer report at teardown)
            reports[len(cases) - 1] = p.stderr.decode("utf-8", "replace")[-1500:]
            break
        err = p.stderr.decode("utf-8", "replace")
        kind = "crash"
        if timed_out:
            err = "TIMEOUT after %d s (hang)" % timeout
        if "AddressSanitizer" in err:
            kind = "asan"
        elif "runtime error" in err:
            kind = "ubsan"
        results[k] = [kind, p.returncode, _first_report_line(err), _frames(err)]
        ncrash += 1
        start = k + 1
    for i, line in ub.items():
        if results.get(i, ["missing"])[0] in ("ok", "exc"):
            results[i] = ["ubsan", 0, line, results[i]]       # the report AND what the call returned
    return [results.get(i, ["missing"]) for i in range(len(cases))]


def _frames(err):
    """the innermost fastparquet frames of a sanitizer report (function names), innermost first"""
    import re
    out = []
    for line in err.split("\n"):
        m = re.search(r"#\d+ 0x[0-9a-f]+ in __pyx_[a-z]+_\d+fastparquet_\d+(?:cencoding|speedups)_(?:\d+)?(\w+)", line)
        if m and m.group(1) not in out:
            out.append(m.group(1))
    return out[:3]


def _first_report_line(err):
    for line in err.split("\n"):
        if "AddressSanitizer" in line or "runtime error" in line:
            return line.strip()[:300]
    return err.strip()[-300:]


def run_real(cases, workdir, sanitize=False, nproc=12, timeout=420, max_crashes=40, worker=None, chunk=200):
    """Results of the real code for every case: ["ok", ...] | ["exc", type, msg] | ["crash"|"asan"|"ubsan", rc, report]."""
    if not cases:
        return []
    root = C.shadow(sanitize)
    os.makedirs(workdir, exist_ok=True)
    nproc = max(1, min(nproc, (len(cases) + chunk - 1) // chunk))
    size = (len(cases) + nproc - 1) // nproc
    chunks = [(k, cases[k * size:(k + 1) * size]) for k in range(nproc)]
    from concurrent.futures import ThreadPoolExecutor
    out = [None] * nproc
    tagbase = "%s%d" % ("s" if sanitize else "n", len(os.listdir(workdir)))

    def job(kc):
        k, ch = kc
        return k, _run_chunk(root, ch, workdir, "%s_%d" % (tagbase, k), sanitize, timeout, max_crashes, worker)
    with ThreadPoolExecutor(nproc) as ex:
        for k, res in ex.map(job, chunks):
            out[k] = res
    flat = []
    for r in out:
        flat += r
    return flat


def pq_batch(cmds, nproc=8):
    """pqref on many commands, split over several processes."""
    if not cmds:
        return []
    exe = C.pqref()
    nproc = max(1, min(nproc, (len(cmds) + 499) // 500))
    size = (len(cmds) + nproc - 1) // nproc
    from concurrent.futures import ThreadPoolExecutor

    def job(k):
        part = cmds[k * size:(k + 1) * size]
        data = "".join(C.sx(list(c)) + "\n" for c in part).encode()
        p = subprocess.run([exe], input=data, stdout=subprocess.PIPE, timeout=3600)
        lines = [l for l in p.stdout.decode().split("\n") if l.strip()]
        if len(lines) != len(part):
            raise RuntimeError("pqref returned %d lines for %d commands" % (len(lines), len(part)))
        return [C.parse_sx(l) for l in lines]
    with ThreadPoolExecutor(nproc) as ex:
        parts = list(ex.map(job, range(nproc)))
    out = []
    for p in parts:
        out += p
    return out


def tag(x):
    """first element of a pqref result as str ('ok', 'oob', 'ub', 'fuel', 'error')"""
    if isinstance(x, list) and x and isinstance(x[0], (bytes, bytearray)):
        try:
            return bytes(x[0]).decode()
        except UnicodeDecodeError:
            return None
    return None


def vals_to_bytes(vals, isz):
    if isz == 4:
        return b"".join(int(v & 0xffffffff).to_bytes(4, "little") for v in vals)
    if isz == 8:
        return b"".join(int(v & 0xffffffffffffffff).to_bytes(8, "little") for v in vals)
    return bytes(int(v) & 0xff for v in vals)


def expect_outbuf(vals, isz, cap, guard=GUARD):
    """The whole output allocation (capacity + guard) the worker returns when exactly `vals` were stored."""
    return expect_raw(vals_to_bytes(vals, isz), cap, guard)


def expect_raw(b, cap, guard=GUARD):
    b = bytes(b)[:cap + guard]
    return (b + bytes([FILL]) * (cap + guard - len(b))).hex()


def model_decoder_view(mo, isz, cap, guard=GUARD):
    """Canonical comparable view of a decoder result of the impl model: [outbuf_hex, in_loc, out_loc] or the tag."""
    t = tag(mo)
    if t != "ok":
        return t
    vals, used, written = mo[1], mo[2], mo[3]
    return [expect_outbuf(vals, isz, cap, guard), used, written]


def impl_decoder_view(r):
    if r[0] != "ok":
        return r[:2]
    return [r[1], r[2], r[3]]
