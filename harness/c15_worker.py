"""Subprocess side of the C15 check: runs the REAL fastparquet code (shadow package) on tasks read
as JSON lines from stdin, one JSON result line per task.  Lives in its own process because
_assemble_objects can write outside its output array (segfault = an observation for the parent)."""
import json
import os
import sys

sys.path.insert(0, os.path.dirname(os.path.dirname(os.path.abspath(__file__))))


class Guard(object):
    """fills the guard zones around the output array of a direct call"""
    __slots__ = ()


GUARD = Guard()


def canon_cell(x):
    import numpy as np
    if x is None:
        return None
    if isinstance(x, dict):
        return {"dict": [[canon_scalar(k), canon_scalar(v)] for k, v in x.items()]}
    if isinstance(x, (list, tuple, np.ndarray)):
        return [canon_scalar(e) for e in x]
    return {"scalar": repr(x)}


def canon_scalar(e):
    import numpy as np
    if e is None:
        return None
    if isinstance(e, np.generic):
        e = e.item()
    if isinstance(e, bytes):
        return {"bytes": e.hex()}
    if isinstance(e, float) and e != e:
        return {"nan": True}
    if isinstance(e, (int, float, str, bool)):
        return e
    return {"other": repr(e)}


def do_read(task):
    from fastparquet import ParquetFile
    pf = ParquetFile(task["path"])
    df = pf.to_pandas()
    out = {}
    for c in task["cols"]:
        out[c] = [canon_cell(x) for x in df[c].tolist()] if c in df.columns else "missing column"
    return {"ok": out, "nrows": len(df), "columns": list(df.columns)}


def _call(view, page, null, max_defi, prev_i):
    import numpy as np
    from fastparquet import cencoding
    rep = np.array(page["rep"], dtype="uint8")
    de = page["def"]
    defi = None if de is None else np.array(de, dtype="uint8")
    val = np.array(page["vals"], dtype="int64")
    return cencoding._assemble_objects(view, defi, rep, val, None, False, null, False, max_defi, prev_i)


def _classify_exc(e):
    if isinstance(e, AttributeError):
        return "oob_read" if "Guard" in str(e) else "extend_none"
    if isinstance(e, IndexError):
        return "val_index"
    if isinstance(e, ValueError):
        return "bad_slice"
    return "other:%s:%s" % (type(e).__name__, e)


def do_seq(task):
    """Direct calls of _assemble_objects on an object array with guard zones.
    mode 'one': a single call with the given array state and prev_i.
    mode 'v1' : read_col's loop   row_idx = 1 + _assemble_objects(assign, ..., row_idx)
    mode 'v2' : read_data_page_v2's shape   _assemble_objects(assign[idx:idx+num_rows], ..., prev_i=0); idx += num_rows"""
    import numpy as np
    n = task["n"]
    g = task["guard"]
    big = np.empty(n + 2 * g, dtype="O")
    big[:] = [GUARD] * (n + 2 * g)
    init = task.get("arr")
    for k in range(n):
        big[g + k] = None if init is None or init[k] is None else list(init[k])
    view = big[g:g + n]
    exc = None
    ret = None
    try:
        if task["mode"] == "one":
            ret = _call(view, task["pages"][0], task["null"], task["max_defi"], task["prev_i"])
        elif task["mode"] == "v1":
            row_idx = 0
            for p in task["pages"]:
                row_idx = 1 + _call(view, p, task["null"], task["max_defi"], row_idx)
            ret = row_idx
        else:
            idx = 0
            for p in task["pages"]:
                # read_data_page_v2 / _v2_page_starts_row: an empty page is skipped, a page starting inside a row refused
                if len(p["rep"]) and p["rep"][0] != 0:
                    raise ValueError("does not start at a row boundary")
                if len(p["rep"]):
                    _call(view[idx:idx + p["num_rows"]], p, task["null"], task["max_defi"], 0)
                idx += p["num_rows"]
            ret = idx
    except Exception as e:      # noqa
        exc = _classify_exc(e)
    written = [k - g for k in range(n + 2 * g) if (k < g or k >= g + n) and big[k] is not GUARD]
    arr = [None if x is None else ([canon_scalar(e) for e in x] if isinstance(x, list) else {"other": repr(x)})
           for x in big[g:g + n]]
    return {"arr": arr, "ret": ret, "exc": exc, "oob_written": written}


def do_schema(task):
    """schema.py on the schema elements the spec-level writer produces for a column description."""
    from harness import nestedfile as NF
    from fastparquet import parquet_thrift
    from fastparquet.schema import SchemaHelper, _is_list_like, _is_map_like
    from fastparquet.cencoding import ThriftObject
    ses = NF.schema_elements(task["cols"])
    for extra in task.get("mutate", []):
        # shape perturbations for the negative cases: [index, field, value]
        setattr(ses[extra[0]], extra[1], extra[2])
    h = SchemaHelper(ses)
    out = []
    for path in task["paths"]:
        cmd = ThriftObject.from_fields("ColumnMetaData", path_in_schema=list(path))
        col = parquet_thrift.ColumnChunk(meta_data=cmd)
        out.append({"path": path, "max_rep": h.max_repetition_level(path), "max_def": h.max_definition_level(path),
                    "is_required": bool(h.is_required(path)), "null": bool(not h.is_required(path[0])),
                    "is_list_like": bool(_is_list_like(h, col)), "is_map_like": bool(_is_map_like(h, col))})
    return {"ok": out}


def do_nested_levels(task):
    """core._nested_levels on the schema the spec-level writer produces for a column description and a
    definition-level array holding every level 0..max_def"""
    import numpy as np
    from harness import nestedfile as NF
    from fastparquet import core
    from fastparquet.schema import SchemaHelper
    h = SchemaHelper(NF.schema_elements(task["cols"]))
    out = []
    for path in task["paths"]:
        md = h.max_definition_level(path)
        defi = np.array(list(range(md + 1)) + [md, 0], dtype="uint8")
        null, d2, md2 = core._nested_levels(h, path, defi, md)
        none_case = core._nested_levels(h, path, None, md)
        out.append({"path": path, "max_def": md, "defi": [int(x) for x in defi], "null": bool(null),
                    "defi_out": [int(x) for x in d2], "dtype": str(d2.dtype), "max_def_out": int(md2),
                    "none_passthrough": none_case[1] is None and bool(none_case[0]) == bool(null) and int(none_case[2]) == int(md2),
                    "path_types": [h.schema_element(path[:k + 1]).repetition_type for k in range(len(path))]})
    return {"ok": out}


def do_fixture(task):
    """A nested file written by someone else (repository test data): for every LIST/MAP leaf chunk made of v1 pages
    return the decoded page streams (levels and dereferenced values, decoded by fastparquet's own page reader) and
    what to_pandas() gives for the column."""
    import numpy as np
    from fastparquet import ParquetFile, core, parquet_thrift
    from fastparquet import cencoding as encoding
    from fastparquet.cencoding import ThriftObject
    from fastparquet.converted_types import convert
    from fastparquet.schema import _is_list_like, _is_map_like
    pf = ParquetFile(task["path"])
    h = pf.schema
    out = []
    with open(task["path"], "rb") as f:
        for gi, rg in enumerate(pf.row_groups):
            for col in rg.columns:
                cmd = col.meta_data
                path = list(cmd.path_in_schema)
                islist, ismap = bool(_is_list_like(h, col)), bool(_is_map_like(h, col))
                if not (islist or ismap):
                    continue
                name = ".".join(path[:-2])
                se = h.schema_element(path)
                rec = {"rg": gi, "name": name, "path": path, "kind": "list" if islist else "map", "leaf": path[-1],
                       "max_rep": h.max_repetition_level(path), "max_def": h.max_definition_level(path),
                       "row_opt": bool(not h.is_required(path[0])),
                       "path_types": [h.schema_element(path[:k + 1]).repetition_type for k in range(len(path))],
                       "num_rows": rg.num_rows, "pages": [], "skipped": None}
                off = min(cmd.dictionary_page_offset or cmd.data_page_offset, cmd.data_page_offset)
                f.seek(off)
                buf = encoding.NumpyIO(f.read(cmd.total_compressed_size))
                dic = None
                num = 0
                while num < cmd.num_values:
                    ph = ThriftObject.from_buffer(buf, "PageHeader")
                    if ph.type == parquet_thrift.PageType.DICTIONARY_PAGE:
                        dic = convert(core.read_dictionary_page(buf, h, ph, cmd, utf=se.converted_type == 0), se)
                        continue
                    if ph.type == parquet_thrift.PageType.DATA_PAGE_V2:
                        # decoded here with fastparquet's primitives (level / value decoders), not with read_data_page_v2
                        from fastparquet.compression import decompress_data
                        from fastparquet.encoding import read_plain
                        h2 = ph.data_page_header_v2
                        raw = bytes(buf.read(ph.compressed_page_size))
                        rl, dl = h2.repetition_levels_byte_length, h2.definition_levels_byte_length
                        nv = h2.num_values
                        rep = np.zeros(nv, dtype="uint8")
                        if rec["max_rep"]:
                            encoding.read_rle_bit_packed_hybrid(encoding.NumpyIO(np.frombuffer(raw[:rl], "uint8")),
                                                                encoding.width_from_max_int(rec["max_rep"]), rl,
                                                                encoding.NumpyIO(rep), itemsize=1)
                        defi = np.full(nv, rec["max_def"], dtype="uint8")
                        if rec["max_def"] and dl:
                            encoding.read_rle_bit_packed_hybrid(encoding.NumpyIO(np.frombuffer(raw[rl:rl + dl], "uint8")),
                                                                encoding.width_from_max_int(rec["max_def"]), dl,
                                                                encoding.NumpyIO(defi), itemsize=1)
                        nval = int((defi == rec["max_def"]).sum())
                        vb = np.frombuffer(raw[rl + dl:], "uint8")
                        if h2.is_compressed is None or h2.is_compressed:
                            vb = decompress_data(vb, ph.uncompressed_page_size - rl - dl, cmd.codec)
                        vb = np.frombuffer(bytes(vb), "uint8")
                        if h2.encoding == parquet_thrift.Encoding.PLAIN:
                            val = read_plain(vb, cmd.type, nval, width=se.type_length, utf=se.converted_type == 0)
                        elif h2.encoding in (parquet_thrift.Encoding.PLAIN_DICTIONARY, parquet_thrift.Encoding.RLE_DICTIONARY):
                            io = encoding.NumpyIO(vb)
                            bw = io.read_byte()
                            idx = np.zeros(nval, dtype="uint32")
                            if bw:
                                encoding.read_rle_bit_packed_hybrid(io, bw, len(vb) - 1, encoding.NumpyIO(idx.view("uint8")), itemsize=4)
                            val = dic[idx]
                        else:
                            rec["skipped"] = "v2 value encoding %r" % h2.encoding
                            break
                        rec["pages"].append({"rep": [int(x) for x in rep], "def": [int(x) for x in defi],
                                             "vals": [canon_scalar(x) for x in list(val)], "num_rows": h2.num_rows, "v2": True})
                        num += nv
                        continue
                    if ph.type != parquet_thrift.PageType.DATA_PAGE:
                        rec["skipped"] = "page type %r" % ph.type
                        break
                    defi, rep, val = core.read_data_page(buf, h, ph, cmd, False, selfmade=False)
                    d = ph.data_page_header.encoding in [parquet_thrift.Encoding.PLAIN_DICTIONARY,
                                                         parquet_thrift.Encoding.RLE_DICTIONARY]
                    if d:
                        val = dic[val]
                    n = len(rep) if rep is not None else (len(defi) if defi is not None else len(val))
                    rec["pages"].append({"rep": None if rep is None else [int(x) for x in rep],
                                         "def": None if defi is None else [int(x) for x in defi],
                                         "vals": [canon_scalar(x) for x in list(val)]})
                    num += n
                out.append(rec)
    df = pf.to_pandas()
    cells = {}
    for rec in out:
        if rec["name"] not in cells:
            cells[rec["name"]] = [canon_cell(x) for x in df[rec["name"]].tolist()] if rec["name"] in df.columns else "missing column"
    return {"ok": out, "cells": cells, "row_groups": [rg.num_rows for rg in pf.row_groups]}


def main():
    from harness import common as C
    C.use_shadow()
    import fastparquet  # noqa
    sys.stdout.write(json.dumps({"ready": os.path.dirname(fastparquet.__file__)}) + "\n")
    sys.stdout.flush()
    for line in sys.stdin:
        line = line.strip()
        if not line:
            continue
        task = json.loads(line)
        try:
            if task["op"] == "read":
                res = do_read(task)
            elif task["op"] == "seq":
                res = do_seq(task)
            elif task["op"] == "schema":
                res = do_schema(task)
            elif task["op"] == "fixture":
                res = do_fixture(task)
            elif task["op"] == "nested_levels":
                res = do_nested_levels(task)
            else:
                res = {"exc": "unknown op"}
        except BaseException as e:      # noqa
            import traceback
            res = {"exc": "%s: %s" % (type(e).__name__, e), "tb": traceback.format_exc()[-1500:]}
        sys.stdout.write(json.dumps(res) + "\n")
        sys.stdout.flush()


if __name__ == "__main__":
    main()
