"""C20 machinery shared by the check and its replay: operations as data, canonical results,
fingerprint of the state reachable from a handle, line tracer, deterministic line-level scheduler.

Nothing here imports fastparquet at module import time (C.use_shadow() must come first)."""
import hashlib
import os
import pickle
import sys
import threading


def sha(b):
    if isinstance(b, str):
        b = b.encode()
    return hashlib.sha256(b).hexdigest()


# ---------------------------------------------------------------------------------------------
# canonical results
# ---------------------------------------------------------------------------------------------

def digest_df(df):
    import pandas as pd
    h = hashlib.sha256()
    h.update(repr([str(c) for c in df.columns]).encode())
    h.update(repr([str(t) for t in df.dtypes]).encode())
    h.update(repr(list(df.index.names)).encode())
    for c in df.columns:
        dt = df[c].dtype
        if str(dt) == "category":
            h.update(repr((str(c), [repr(x) for x in dt.categories], bool(dt.ordered))).encode())
    if len(df.columns) or len(df):
        try:
            h.update(pd.util.hash_pandas_object(df, index=True).values.tobytes())
        except TypeError:               # cells holding lists / dicts (LIST, MAP columns)
            h.update(repr(df.index.tolist()).encode())
            h.update(repr(df.values.tolist()).encode())
    return ["df", int(len(df)), int(len(df.columns)), h.hexdigest()[:16]]


def canon(x):
    """JSON-able canonical form of anything an operation returns."""
    import numpy as np
    import pandas as pd
    if isinstance(x, pd.DataFrame):
        return digest_df(x)
    if isinstance(x, dict):
        return {str(k): canon(v) for k, v in sorted(x.items(), key=lambda kv: str(kv[0]))}
    if isinstance(x, (list, tuple)):
        return [canon(v) for v in x]
    if isinstance(x, (np.generic, np.ndarray)):
        return repr(x.tolist()) if isinstance(x, np.ndarray) else repr(x.item() if not isinstance(x, (np.datetime64, np.timedelta64)) else str(x))
    if isinstance(x, bytes):
        return "b:" + x.hex()[:80]
    if x is None or isinstance(x, (bool, int, float, str)):
        return x
    return repr(x)[:120]


def exc_form(e):
    return ["EXC", type(e).__name__, str(e)[:100]]


# ---------------------------------------------------------------------------------------------
# operations (plain data; the replay does not depend on generator code)
# ---------------------------------------------------------------------------------------------

def _filters(f):
    if not f:
        return []
    out = []
    for t in f:
        if isinstance(t[0], str):
            out.append((t[0], t[1], _fval(t[2])))
        else:
            out.append([(u[0], u[1], _fval(u[2])) for u in t])
    return out


def _fval(v):
    import numpy as np
    if isinstance(v, dict) and "dt" in v:
        return np.datetime64(v["dt"])
    if isinstance(v, list):
        return [_fval(x) for x in v]
    return v


def _kw(op):
    kw = {}
    if op.get("columns") is not None:
        kw["columns"] = list(op["columns"])
    if op.get("filters"):
        kw["filters"] = _filters(op["filters"])
    if "categories" in op:
        kw["categories"] = op["categories"]
    if "index" in op:
        kw["index"] = op["index"]
    if op.get("row_filter"):
        kw["row_filter"] = True
    return kw


def run_op(pf, op, shared=None):
    """Execute one operation of the quantifier on the (shared) handle pf; returns the RAW result
    (DataFrames are kept as objects: canon() is applied by the caller, a second time after all
    threads have finished, so that results that alias storage reused by later calls are seen).
    `shared`: for part-file writers {"fmd","frames","paths","compression"}."""
    k = op["op"]
    if k == "seq":                   # several operations one after the other in ONE thread (the later ones meet what the earlier cached)
        return [run_op(pf, o, shared) for o in op["ops"]]
    if k == "to_pandas":
        return pf.to_pandas(**_kw(op))
    if k == "slice":
        sub = pf[slice(op.get("i"), op.get("j"), op.get("step"))]
        return [len(sub.row_groups), sub.to_pandas(**_kw(op)), sub.count()]
    if k == "index":
        sub = pf[op["i"]]
        return [len(sub.row_groups), sub.to_pandas(**_kw(op))]
    if k == "slice_only":            # derive a handle, do not read through it
        sub = pf[slice(op.get("i"), op.get("j"), op.get("step"))]
        return [len(sub.row_groups), [int(rg.num_rows) for rg in sub.row_groups]]
    if k == "slice_stats":           # metadata-only answers through a derived handle
        sub = pf[slice(op.get("i"), op.get("j"), op.get("step"))]
        return [len(sub.row_groups), canon(sub.statistics), sub.count(), canon(sub.info)]
    if k == "iter":
        return [df for df in pf.iter_row_groups(**_kw(op))]
    if k == "head":
        return pf.head(op["n"], **_kw(op))
    if k == "statistics":
        return canon(pf.statistics)
    if k == "count":
        return pf.count(filters=_filters(op.get("filters")))
    if k == "columns":
        return [list(pf.columns), list(pf.cats), pf.info["rows"], {str(a): str(b) for a, b in pf._base_dtype.items()}]
    if k == "pickle":
        b = pickle.dumps(pf)
        pf2 = pickle.loads(b)
        return [pf2.to_pandas(**_kw(op)), pf2.count(), canon(pf2.statistics), len(pf2.row_groups)]
    if k in ("copy", "deepcopy"):    # a handle derived through the copy protocol (__copy__ / __getstate__ + __setstate__)
        import copy
        pf2 = copy.copy(pf) if k == "copy" else copy.deepcopy(pf)
        return [len(pf2.row_groups), pf2.to_pandas(**_kw(op)), pf2.count(), canon(pf2.statistics)]
    if k == "stats_fn":              # the module-level functions that take the handle are part of "statistics" use
        from fastparquet import api
        return canon(api.statistics(pf))
    if k == "sorted_cols":
        from fastparquet import api
        return canon(api.sorted_partitioned_columns(pf, filters=_filters(op.get("filters")) or None))
    if k == "filter_rgs":
        from fastparquet import api
        return [int(i) for i in api.filter_row_groups(pf, _filters(op.get("filters")), as_idx=True)]
    if k == "meta":                  # the memoised metadata views of the handle
        return [sha(repr(sorted((str(a), str(b)[:200]) for a, b in pf.key_value_metadata.items())))[:16],
                sha(repr(canon(pf.pandas_metadata)))[:16], canon(pf.categories), bool(pf.has_pandas_metadata), str(pf)[:200],
                canon(pf.info)]         # (pf.dtypes is a per-call output attribute of to_pandas: not part of any result)
    if k == "schema_text":           # the rendering of the schema (memoised on the helper shared with derived handles)
        return [pf.schema.text, str(pf[0:1].schema) if len(pf.row_groups) else ""]
    if k == "rebuild":               # what ParquetFile.__getitem__ did on the pinned tree for every derived handle
        from fastparquet import schema
        schema.SchemaHelper(pf._schema)
        return "rebuilt"
    if k == "lookup":                # SchemaHelper.schema_element through the parent handle
        try:
            se = pf.schema.schema_element(list(op["path"]))
            return ["found", se.name]
        except KeyError:
            return ["KeyError"]
        except TypeError:
            return ["TypeError"]
    if k == "part":                  # writer.make_part_file with the shared schema / file metadata
        from fastparquet import writer
        i = op["i"]
        f = open(shared["paths"][i], "wb")
        rg = writer.make_part_file(f, shared["frames"][i], shared["fmd"].schema,
                                   compression=shared.get("compression"), fmd=shared["fmd"])
        return [int(rg.num_rows), sha(open(shared["paths"][i], "rb").read())[:20]]
    raise ValueError("unknown op %r" % (op,))


def run_op_safe(pf, op, shared=None):
    """raw result, or the canonical form of the exception"""
    try:
        return run_op(pf, op, shared)
    except BaseException as e:      # noqa
        if isinstance(e, SchedTimeout):
            raise
        return exc_form(e)


def is_exc(r):
    return isinstance(r, list) and len(r) == 3 and isinstance(r[0], str) and r[0] == "EXC"


# ---------------------------------------------------------------------------------------------
# fingerprint of the state reachable from a handle
# ---------------------------------------------------------------------------------------------

SCRATCH_PREFIXES = ("dtypes/",)     # per-call output attribute: values are overwritten by every to_pandas, read by none


OPAQUE = {}          # type name -> a path it was met at (objects the fingerprint cannot look into)
TRUSTED_TYPES = {"_lru_cache_wrapper": "functools.lru_cache: documented thread-safe, value a function of the key",
                 "Logger": "logging.Logger: thread-safe by documentation",
                 "_local": "threading.local: per-thread storage, not shared between threads by construction",
                 "LocalFileSystem": "fsspec filesystem object: used for open() only, not inspected",
                 "ModuleSpec": "import machinery", "SourceFileLoader": "import machinery", "ExtensionFileLoader": "import machinery",
                 "_SpecialForm": "typing", "ABCMeta": "class object"}


def _leaf(v, path=None):
    import numpy as np
    import types
    if v is None or isinstance(v, (bool, int, float, complex)):
        return repr(v)
    if isinstance(v, (types.FunctionType, types.BuiltinFunctionType, types.MethodType, types.MethodDescriptorType,
                      types.WrapperDescriptorType, staticmethod, classmethod, property)) or type(v).__name__ in (
                          "cython_function_or_method", "method-wrapper", "getset_descriptor", "member_descriptor"):
        return "fn:" + getattr(v, "__qualname__", getattr(v, "__name__", type(v).__name__))
    if isinstance(v, type):
        return "type:" + v.__name__
    if isinstance(v, types.ModuleType):
        return "mod:" + v.__name__
    if type(v) is _Probe:
        return "probe:%s" % (v.value(),)
    if hasattr(v, "so_far") and hasattr(v, "tell"):       # cencoding.NumpyIO: position AND content are state
        try:
            return "nio@%d:%s" % (v.tell(), sha(bytes(v.so_far()))[:12])
        except Exception:           # noqa
            return "nio:?"
    if type(v).__name__ == "Pattern":
        return "re:" + sha(repr(v.pattern))[:12]
    if type(v).__name__ == "Version":
        return "ver:" + str(v)
    if isinstance(v, (str, bytes)):
        r = repr(v)
        return r if len(r) <= 48 else "h:" + sha(r)[:12]
    if isinstance(v, np.ndarray):
        if v.dtype == object:
            return "nd:" + sha(repr(v.tolist()))[:12]
        return "nd:%s%s:%s" % (v.dtype, v.shape, sha(v.tobytes())[:12])
    if isinstance(v, (np.generic, np.dtype)):
        return repr(v)
    if hasattr(v, "tell") and hasattr(v, "read"):      # an open file kept in shared state: its position is state
        try:
            return "file@%d" % v.tell()
        except Exception:           # noqa
            return "file:closed"
    if isinstance(v, bytearray):
        return "ba%d:%s" % (len(v), sha(bytes(v))[:12])
    mod = type(v).__module__ or ""
    if mod.startswith("pandas"):
        import pandas as pd
        if isinstance(v, (pd.DataFrame, pd.Series, pd.Index)):
            try:
                return "pd:" + sha(pd.util.hash_pandas_object(v).values.tobytes())[:12]
            except Exception:           # noqa
                return "pd:" + sha(repr(v))[:12]
        return repr(v)[:60]
    tn = type(v).__name__
    if isinstance(v, (memoryview,)):
        return "mv%d:%s" % (v.nbytes, sha(v.tobytes())[:12])
    if tn not in TRUSTED_TYPES and not tn.endswith("FileSystem"):
        OPAQUE.setdefault(tn, path or "?")
    return "t:" + tn


def state_modules():
    """the imported modules of the package whose globals can hold state (thrift tables and tests excluded)"""
    out = []
    for name, mod in sorted(sys.modules.items()):
        if mod is None or not (name == "fastparquet" or name.startswith("fastparquet.")):
            continue
        if ".parquet_thrift" in name or ".test" in name:
            continue
        out.append((name[len("fastparquet"):].lstrip(".") or "__init__", mod))
    return out


def state_classes():
    from fastparquet import api, schema
    return [("ParquetFile", api.ParquetFile), ("SchemaHelper", schema.SchemaHelper)]


_SCALARS = (bool, int, float, str, bytes, type(None))


_MR_CACHE = [None, None]


def module_roots():
    """cached by the identity of every global of every package module"""
    key = hash(tuple(tuple(map(id, vars(m).values())) for _, m in state_modules()) +
               tuple(tuple(map(id, vars(c).values())) for _, c in package_classes()))
    if _MR_CACHE[0] != key:
        _MR_CACHE[0] = key
        _MR_CACHE[1] = _module_roots()
    return _MR_CACHE[1]


def package_classes():
    """every class defined in a module of the package: [(module short name, class)]"""
    out = []
    seen = set()
    for name, mod in state_modules():
        for k, v in list(vars(mod).items()):
            if isinstance(v, type) and (getattr(v, "__module__", "") or "").startswith("fastparquet") and id(v) not in seen:
                seen.add(id(v))
                out.append((name, v))
    return out


def package_functions():
    """every Python function defined at module or class level of the package: [(module short name, qualname, function)]"""
    import types
    out = []
    seen = set()

    def add(mname, qual, f):
        f = getattr(f, "__func__", f)
        if isinstance(f, property):
            f = f.fget
        f = getattr(f, "__wrapped__", f) if type(f).__name__ == "_lru_cache_wrapper" else f
        if isinstance(f, types.FunctionType) and (f.__module__ or "").startswith("fastparquet") and id(f) not in seen:
            seen.add(id(f))
            out.append(((f.__module__[len("fastparquet"):].lstrip(".") or "__init__"), qual, f))
    for name, mod in state_modules():
        for k, v in list(vars(mod).items()):
            if isinstance(v, type) and (getattr(v, "__module__", "") or "").startswith("fastparquet"):
                for kk, vv in list(vars(v).items()):
                    add(name, "%s.%s" % (v.__name__, kk), vv)
            else:
                add(name, k, v)
    return out


def function_defaults(f):
    """{parameter name: default object}"""
    code = f.__code__
    names = code.co_varnames[:code.co_argcount + code.co_kwonlyargcount]
    out = {}
    d = f.__defaults__ or ()
    pos = names[:code.co_argcount]
    for n_, v in zip(pos[len(pos) - len(d):], d):
        out[n_] = v
    out.update(f.__kwdefaults__ or {})
    return out


def _is_state(v):
    """could this object hold state? (functions, classes, modules and immutable scalars cannot)"""
    import types
    if v is None or isinstance(v, (bool, int, float, complex, str, bytes, type, types.ModuleType, types.FunctionType,
                                   types.BuiltinFunctionType, types.MethodType, staticmethod, classmethod, property)):
        return False
    if type(v).__name__ in ("cython_function_or_method", "_lru_cache_wrapper", "Pattern", "Version", "Logger", "_SpecialForm", "_local",
                            "ModuleSpec", "SourceFileLoader", "ExtensionFileLoader", "ABCMeta", "dtype", "method_descriptor",
                            "_Feature", "_abc_data",
                            "getset_descriptor", "member_descriptor", "wrapper_descriptor"):
        return False
    import numpy as np
    if isinstance(v, (np.generic, np.dtype)):
        return False
    if isinstance(v, (tuple, frozenset)):
        return any(_is_state(x) for x in v)
    return True


def _module_roots():
    """{path: object} of ALL module-level, class-level and function-level state of the package: every global of every
    module (of any type - a scratch buffer object is state as much as a dict), every attribute of every class defined in
    the package, every default value of every function / method, every attribute stored on a function object, the
    cells of closures of module-level functions.  functools.lru_cache contents cannot be inspected (trusted)."""
    out = {}
    seen_ids = {}
    for name, mod in state_modules():
        for k, v in list(vars(mod).items()):
            if k.startswith("__"):
                continue
            if isinstance(v, _SCALARS) or _is_state(v):
                if _is_state(v) and id(v) in seen_ids:
                    continue            # the same object imported into another module
                seen_ids[id(v)] = "%s/%s" % (name, k)
                out["%s/%s" % (name, k)] = v
    for name, cls in package_classes():
        for k, v in list(vars(cls).items()):
            if k.startswith("__") and k not in ("__defaults__",):
                continue
            if isinstance(v, _SCALARS) or _is_state(v):
                out["class:%s/%s" % (cls.__name__, k)] = v
    for mname, qual, f in package_functions():
        for pn, dv in function_defaults(f).items():
            if _is_state(dv):
                out["default:%s/%s.%s" % (mname, qual, pn)] = dv
        for k, v in list(vars(f).items()):
            if not k.startswith("__") and (isinstance(v, _SCALARS) or _is_state(v)):
                out["fattr:%s/%s.%s" % (mname, qual, k)] = v
        for i, cell in enumerate(f.__closure__ or ()):
            try:
                cv = cell.cell_contents
            except ValueError:
                continue
            if _is_state(cv):
                out["cell:%s/%s.%s" % (mname, qual, f.__code__.co_freevars[i])] = cv
    out.update(process_roots())
    return out


class _Probe:
    """process-global interpreter state that is not an object one can hold (working directory, environment, locale): its
    current value is taken whenever the fingerprint / signature is"""
    __slots__ = ("name", "fn")

    def __init__(self, name, fn):
        self.name, self.fn = name, fn

    def value(self):
        try:
            return self.fn()
        except Exception as e:      # noqa
            return "?%s" % type(e).__name__


def process_roots():
    """State of the PROCESS outside the package that package code could change and that every thread sees: the warnings filters
    (warnings.catch_warnings / simplefilter save, change and restore a process-wide list), the working directory, the environment,
    the locale, numpy's print / error settings are per thread or context and are not included"""
    import warnings
    import locale
    # (catch_warnings REBINDS warnings.filters to a copy: the list object held at one time says nothing - probe the module attribute)
    return {"process:warnings/filters": _Probe("filters", lambda: "%d:%s" % (len(warnings.filters), sha(repr(warnings.filters))[:12])),
            "process:os/cwd": _Probe("cwd", os.getcwd),
            "process:os/environ": _Probe("environ", lambda: sha(repr(sorted(os.environ.items())))[:12]),
            "process:locale": _Probe("locale", lambda: repr(locale.setlocale(locale.LC_ALL)))}


def inventory_coverage(inv):
    """two-way tie between the static inventory (translators/sharedstate.py) and the state found in the live modules:
    every static location must resolve to a live object (or be explained), every live state-holding object must have
    a static location; every object must be inspectable by the fingerprint (or of a trusted thread-safe type)."""
    import types
    mods = dict(state_modules())
    static = {}
    for l in inv["locations"]:
        static.setdefault((l["kind"], l["module"]), set()).add(l["name"])
    unresolved, resolved = [], 0
    native_invisible = []
    by_kind = {}

    def resolve_qual(mod, qual):
        obj = mod
        for part in qual.split("."):
            if part == "<locals>":
                return "local"
            obj = vars(obj).get(part) if isinstance(obj, type) else getattr(obj, part, None)
            obj = getattr(obj, "__func__", obj)
            if isinstance(obj, property):
                obj = obj.fget
            if obj is None:
                return None
        return obj
    for l in inv["locations"]:
        mod = mods.get(l["module"] if l["module"] != "__init__" else "__init__")
        by_kind[l["kind"]] = by_kind.get(l["kind"], 0) + 1
        if mod is None:
            if l["module"] in ("evolve",) or ("fastparquet." + l["module"]) not in sys.modules:
                continue                # a module nobody imports holds no state
            unresolved.append("%s/%s (module not loaded)" % (l["module"], l["name"]))
            continue
        nm = l["name"]
        ok = None
        if l["kind"] == "module_global":
            ok = hasattr(mod, nm) or any(x["name"] == nm and x is not l for x in inv["locations"] if x["module"] == l["module"])
        elif l["kind"] == "class_attr":
            cq, an = nm.rsplit(".", 1)
            c = resolve_qual(mod, cq)
            ok = c is not None and (c == "local" or an in vars(c) or hasattr(c, an))
        elif l["kind"] == "default_arg":
            fq, an = nm.rsplit(".", 1)
            f = resolve_qual(mod, fq)
            f = getattr(f, "__wrapped__", f)
            ok = f == "local" or (isinstance(f, types.FunctionType) and an in function_defaults(f))
        elif l["kind"] == "global_stmt":
            ok = True                   # bound when the function runs: the globals dict of the module is watched
        elif l["kind"] == "memo_decorator":
            f = resolve_qual(mod, nm)
            ok = f is not None
        elif l["kind"] == "func_attr":
            on, an = nm.rsplit(".", 1)
            o = resolve_qual(mod, on)
            ok = o is not None and (o == "local" or hasattr(o, an))
        elif l["kind"] == "closure_cell":
            ok = True                   # cells of nested functions live as long as the call (or are reached from state)
        if ok:
            resolved += 1
        elif l.get("valkind") == "pyx":
            native_invisible.append("%s/%s" % (l["module"], nm))     # cdef global: not a Python attribute
        else:
            unresolved.append("%s %s/%s" % (l["kind"], l["module"], nm))
    # live -> static
    dynamic_only = []
    roots = _module_roots()
    for path, v in roots.items():
        if not _is_state(v):
            continue
        if path.startswith("class:"):
            cn, an = path[6:].split("/", 1)
            if not any(n.endswith("%s.%s" % (cn, an)) for (k, m), ns in static.items() if k == "class_attr" for n in ns):
                dynamic_only.append(path)
        elif path.startswith("default:"):
            m, rest = path[8:].split("/", 1)
            if rest not in static.get(("default_arg", m), ()):
                dynamic_only.append(path)
        elif path.startswith("fattr:"):
            m, rest = path[6:].split("/", 1)
            if rest not in static.get(("func_attr", m), ()):
                dynamic_only.append(path)
        elif path.startswith("cell:") or path.startswith("process:"):
            pass
        else:
            m, n_ = path.split("/", 1)
            # the same object may be bound in several modules (from .util import ops): any statically known binding counts
            binds = [(m2, n2) for m2, mod2 in mods.items() for n2, v2 in list(vars(mod2).items()) if v2 is v]
            if not any(n2 in static.get(("module_global", m2), ()) or any(
                    x.startswith(n2 + "@") for x in static.get(("global_stmt", m2), ())) for m2, n2 in binds + [(m, n_)]):
                dynamic_only.append(path)
    OPAQUE.clear()
    fp = {}
    seen = {}
    for k, v in roots.items():
        _walk("/@module/" + k, v, fp, seen, None)
    opaque = ["%s at %s" % (t, p_) for t, p_ in sorted(OPAQUE.items())]
    types_seen = {}
    for v in roots.values():
        types_seen[type(v).__name__] = types_seen.get(type(v).__name__, 0) + 1
    return {"static_locations": len(inv["locations"]), "by_kind": by_kind, "resolved": resolved, "unresolved": unresolved,
            "live_roots": len(roots), "live_state_roots": sum(1 for v in roots.values() if _is_state(v)),
            "dynamic_only": dynamic_only, "opaque": opaque, "native_cdef_globals_invisible": native_invisible, "root_types": types_seen, "fingerprint_leaves": len(fp)}


def fingerprint(root, scratch_values=None):
    """{path: leaf} of everything reachable from `root` (a ParquetFile, or any dict / thrift object).
    Dicts, lists, thrift objects and fastparquet objects are walked; an object reached through a
    second path is recorded as a reference to its canonical path (schema elements: /fmd/2/i, row
    groups: /fmd/4/i, otherwise the path it is first met on; fmd is walked first).  Paths under
    SCRATCH_PREFIXES are recorded by presence only (their values go to scratch_values when given)."""
    out = {}
    seen = {}
    if type(root).__name__ == "ParquetFile":
        fmd = root.__dict__.get("fmd")
        if fmd is not None:
            c = fmd.contents
            for fld in (2, 4):
                for i, d in enumerate(c.get(fld) or []):
                    seen[id(d)] = "/fmd/%d/%d" % (fld, i)
            _walk("/fmd", fmd, out, seen, scratch_values)
        for k in sorted(root.__dict__):
            if k != "fmd":
                _walk("/" + k, root.__dict__[k], out, seen, scratch_values)
    else:
        _walk("", root, out, seen, scratch_values)
    for k, v in module_roots().items():
        _walk("/@module/" + k, v, out, seen, scratch_values)
    return out


def containers(root):
    """every dict / list / tuple / set reachable from root by the fingerprint's traversal rules, plus the
    module-level state: the globals dict of every package module and the class dicts of ParquetFile /
    SchemaHelper are watched as containers (any rebinding or new global moves the signature)"""
    out = []
    seen = set()
    stack = [root]
    for _, mod in state_modules():
        out.append(vars(mod))
    for _, cls in package_classes():
        out.append(dict(vars(cls)))             # mappingproxy: a copy is enough for keys + value ids
    stack.extend(module_roots().values())
    while stack:
        v = stack.pop()
        tn = type(v).__name__
        if tn == "ThriftObject":
            v = v.contents
        elif _pkg_instance(v):
            v = v.__dict__
        if isinstance(v, dict):
            if id(v) in seen:
                continue
            seen.add(id(v))
            out.append(v)
            stack.extend(v.values())
        elif isinstance(v, (list, tuple, set, frozenset)):
            if id(v) in seen:
                continue
            seen.add(id(v))
            out.append(v)
            stack.extend(v)
        elif _volatile(v) and id(v) not in seen:
            seen.add(id(v))
            out.append(_Vol(v))
        elif _callable_with_state(v) and id(v) not in seen:
            seen.add(id(v))
            stack.extend(x for _, x in _callable_state(v))
    return out


def _callable_with_state(v):
    import types
    import functools
    if isinstance(v, types.FunctionType):
        return bool(v.__closure__)
    if isinstance(v, types.MethodType):
        s_ = v.__self__
        return _pkg_instance(s_) or _volatile(s_) or isinstance(s_, (dict, list))
    return isinstance(v, functools.partial)


def _callable_state(v):
    import types
    import functools
    out = []
    if isinstance(v, types.FunctionType):
        for nm, cell in zip(v.__code__.co_freevars, v.__closure__ or ()):
            try:
                out.append((nm, cell.cell_contents))
            except ValueError:
                pass
    elif isinstance(v, types.MethodType):
        out.append(("self", v.__self__))
    elif isinstance(v, functools.partial):
        out += [("arg%d" % i, a) for i, a in enumerate(v.args)] + [(k, a) for k, a in (v.keywords or {}).items()]
        out.append(("func", v.func))
    return out


class _Vol:
    """a leaf object with internal mutable state (file position, scratch buffer): its cheap state is part of the
    identity signature, so that an in-place change is attributed to the line that made it"""
    __slots__ = ("o",)

    def __init__(self, o):
        self.o = o

    def sig(self):
        o = self.o
        try:
            if type(o) is _Probe:
                return o.value()
            if hasattr(o, "so_far"):
                return (o.tell(), hash(bytes(o.so_far())))
            if hasattr(o, "tell"):
                return o.tell() if not getattr(o, "closed", False) else -1
            if isinstance(o, bytearray):
                return hash(bytes(o))
            return hash(o.tobytes())
        except Exception:           # noqa
            return None


def _volatile(v):
    if isinstance(v, bytearray) or type(v) is _Probe:
        return True
    if hasattr(v, "tell") and (hasattr(v, "read") or hasattr(v, "so_far")):
        return True
    return type(v).__name__ == "ndarray" and v.nbytes <= 16384 and v.dtype != object


def _pkg_instance(v):
    """an instance (not a class, not a function) of a class defined in the package that keeps its state in __dict__"""
    t = type(v)
    return (getattr(t, "__module__", "") or "").startswith("fastparquet") and not isinstance(v, type) \
        and isinstance(getattr(v, "__dict__", None), dict) and t.__name__ != "ThriftObject"


def fast_sig(conts):
    """Cheap identity-based signature of the state held by the containers found at the last full walk:
    per container its keys and the ids of its values (C-speed tuples).  A container that becomes
    reachable later is reachable only through a change of one of these, which moves the signature.
    Equal signatures => equal fingerprints as far as immutable leaves (int, str, bytes, None) go;
    in-place mutation of a numpy/pandas leaf is NOT seen by the signature (the tracer therefore also
    takes the full fingerprint every FULL_EVERY lines)."""
    acc = []
    for c in conts:
        if type(c) is _Vol:
            acc.append(c.sig())
            continue
        if isinstance(c, dict):
            acc.append(tuple(c))
            acc.append(tuple(map(id, c.values())))
        else:
            acc.append(tuple(map(id, c)))
    return hash(tuple(acc))


def _walk(path0, v0, out, seen, scratch_values):
    stack = [(path0, v0)]
    while stack:
        path, v = stack.pop()
        tn = type(v).__name__
        if tn == "ThriftObject":
            v = v.contents
        elif _pkg_instance(v):
            v = v.__dict__
        if isinstance(v, (set, frozenset)):
            out[path] = "set%d:%s" % (len(v), sha(repr(sorted(repr(x) for x in v)))[:12])
        elif isinstance(v, dict):
            if seen.setdefault(id(v), path) != path:
                out[path + "/@"] = seen[id(v)]
                continue
            out[path + "/#"] = "dict"
            for k, x in list(v.items()):
                stack.append((path + "/" + str(k), x))
        elif isinstance(v, list):
            if seen.setdefault(id(v), path) != path:
                out[path + "/@"] = seen[id(v)]
                continue
            out[path + "/#"] = "list%d" % len(v)
            for i, x in enumerate(v):
                stack.append((path + "/" + str(i), x))
        elif isinstance(v, tuple):
            out[path + "/#"] = "tuple%d" % len(v)
            for i, x in enumerate(v):
                stack.append((path + "/" + str(i), x))
        elif v is None:
            pass            # None is the "not computed yet" marker of every memo attribute: absent
        elif _callable_with_state(v) and id(v) not in seen:
            seen[id(v)] = path          # a callable kept in state: what it closes over / is bound to is state too
            out[path] = _leaf(v, path)
            for nm, x in _callable_state(v):
                stack.append((path + "/<" + nm + ">", x))
        else:
            p = path[1:]
            if p.startswith(SCRATCH_PREFIXES):
                if scratch_values is not None:
                    scratch_values[p] = _leaf(v)
                out[path] = "present"
            else:
                out[path] = _leaf(v, path)


class Interner:
    def __init__(self):
        self.k = {}
        self.v = {}

    def snap(self, fp):
        ks, vs = self.k, self.v
        return sorted((ks.setdefault(a, len(ks)), vs.setdefault(b, len(vs))) for a, b in fp.items())

    def key_name(self, n):
        for a, b in self.k.items():
            if b == n:
                return a
        return "?"


# ---------------------------------------------------------------------------------------------
# line tracer
# ---------------------------------------------------------------------------------------------

def pkg_prefix():
    import fastparquet
    return os.path.dirname(fastparquet.__file__) + os.sep


def make_tracer(prefix, on_line, opcodes=False):
    """A sys.settrace function that calls on_line(frame) at every line event (opcodes=False) or at every
    bytecode instruction (opcodes=True: CPython's own preemption points are a subset of these) of frames
    whose code lives under `prefix` (the fastparquet package actually imported)."""
    if opcodes:
        def local(frame, event, arg):
            if event == "opcode":
                on_line(frame)
            return local

        def glob(frame, event, arg):
            if frame.f_code.co_filename.startswith(prefix):
                frame.f_trace_opcodes = True
                return local
            return None
        return glob

    def local(frame, event, arg):
        if event == "line":
            on_line(frame)
        return local

    def glob(frame, event, arg):
        if frame.f_code.co_filename.startswith(prefix):
            return local
        return None
    return glob


FULL_EVERY = 64
STRESS_DEADLINE = 90.0
_OPC_WARM = [False]


def warm_opcodes():
    """CPython 3.12: the first settrace run that asks for opcode events in a process delivers none
    (the instrumentation is switched on for later code objects only) - do a throw-away run first."""
    if _OPC_WARM[0]:
        return True
    from fastparquet import util
    for _ in range(4):
        n = [0]

        def on(frame):
            n[0] += 1
        sys.settrace(make_tracer(pkg_prefix(), on, True))
        try:
            util.ensure_bytes("x")
            util.norm_col_name("a", None)
        finally:
            sys.settrace(None)
        if n[0] > 0:
            _OPC_WARM[0] = True
            return True
    return False




_LOAD_ATTR = [None]
_CODE_BYTES = {}


def loaded_attr(frame):
    """the attribute name a LOAD_ATTR instruction about to execute loads, else None"""
    if _LOAD_ATTR[0] is None:
        import dis
        _LOAD_ATTR[0] = (dis.opmap.get("LOAD_ATTR"), dis.opmap.get("EXTENDED_ARG"))
    code = frame.f_code
    b = _CODE_BYTES.get(id(code))
    if b is None or b[0] is not code:
        b = _CODE_BYTES[id(code)] = (code, code.co_code)
    bc, i = b[1], frame.f_lasti
    if i < 0 or i + 1 >= len(bc) or bc[i] != _LOAD_ATTR[0][0]:
        return None
    arg = bc[i + 1]
    if i >= 2 and bc[i - 2] == _LOAD_ATTR[0][1]:
        arg |= bc[i - 1] << 8
    try:
        return code.co_names[arg >> 1]          # (the low bit only says "method-style call follows")
    except IndexError:
        return None


def trace_footprint(pf, op, shared=None, root=None, full_every=FULL_EVERY, opcodes=False, cover=None, attr_reads=None):
    """Run `op` alone under the tracer; returns (raw result, changes, number of line events, scratch
    overwrites) where changes = [(tag, fingerprint), ...] with one entry per CHANGE of the fingerprint
    (first entry = state before the operation).  At every line event the cheap signature is taken;
    the full fingerprint is taken whenever the signature moved, every `full_every` lines, and at the end."""
    prefix = pkg_prefix()
    target = pf if root is None else root
    scratch = {}
    fp0 = fingerprint(target, scratch)
    last_scr = [dict(scratch)]
    changes = [("start", fp0)]
    n = [0]
    scr_over = [0]
    conts = [containers(target)]
    last_sig = [fast_sig(conts[0])]

    def full(tag):
        sc = {}
        fp = fingerprint(target, sc)
        conts[0] = containers(target)
        last_sig[0] = fast_sig(conts[0])
        if fp != changes[-1][1]:
            changes.append((tag, fp))
        if sc != last_scr[0]:
            for k_, v_ in sc.items():
                if k_ in last_scr[0] and last_scr[0][k_] != v_:
                    scr_over[0] += 1
            last_scr[0] = sc

    prev = ["?", 0]           # the line event before this one: the statement that performed a write seen now ...
    frame_last = {}           # ... or, when a callee has just returned, the pending statement of the frame returned into

    def on_line(frame):
        n[0] += 1
        sg = fast_sig(conts[0])
        fid = id(frame)
        if sg != last_sig[0] or n[0] % full_every == 0:
            pend = frame_last.get(fid)
            full("%s:%d@%d|%s:%d|%s:%d" % (os.path.basename(frame.f_code.co_filename), frame.f_lineno or 0, n[0], prev[0], prev[1],
                                           os.path.basename(frame.f_code.co_filename), pend if pend is not None else 0))
        prev[0], prev[1] = os.path.basename(frame.f_code.co_filename), frame.f_lineno or 0
        frame_last[fid] = prev[1]
        if len(frame_last) > 4000:
            frame_last.clear()
        if cover is not None:
            cover.add((prev[0], prev[1]))
        if attr_reads is not None and opcodes:
            a_ = loaded_attr(frame)
            if a_ is not None:
                attr_reads.add(a_)
    tr = make_tracer(prefix, on_line, opcodes)
    sys.settrace(tr)
    try:
        res = run_op_safe(pf, op, shared)
    finally:
        sys.settrace(None)
    full("end@%d|%s:%d" % (n[0], prev[0], prev[1]))
    return res, changes, n[0], scr_over[0]


def classify_trace(changes):
    """[(tag, kind, keys)] per transition: kind = memo-add | destructive (a key vanished or changed)."""
    out = []
    for (t0, a), (t1, b) in zip(changes, changes[1:]):
        gone = sorted(k for k in a if k not in b)
        chg = sorted(k for k in a if k in b and a[k] != b[k])
        add = sorted(k for k in b if k not in a)
        out.append((t1, "destructive" if (gone or chg) else "memo-add", {"gone": gone[:6], "changed": chg[:6], "added": add[:6]}))
    return out


PATTERN_CODE = {"check_then_act": 0, "idem_store": 1, "augmented": 2, "rmw": 3, "set_restore": 4, "multi_store": 5, "delete": 6,
                "mutcall": 7, "plain": 8}


def tag_prev(tag):
    """candidate statements for a change seen at an event: [(file, line)] = the line event executed right before it, and
    the pending statement of the frame the event belongs to (a store performed after a callee returned)"""
    out = []
    for part in tag.split("|")[1:]:
        f, _, ln = part.rpartition(":")
        try:
            if int(ln) > 0:
                out.append((f, int(ln)))
        except ValueError:
            pass
    return out


def site_index(inv):
    idx = {}
    for s_ in inv["sites"]:
        idx.setdefault(s_["file"], []).append(s_)
    return idx


def site_for(idx, loc):
    """the write site a (file, line) belongs to: narrowest statement range containing the line; stores before calls"""
    if not loc:
        return None
    best = None
    for ci, (f, ln) in enumerate(loc if isinstance(loc, list) else [loc]):
        for s_ in idx.get(f, ()):
            if s_["line"] <= ln <= s_["end_line"]:
                # a store statement before a mutating call; the narrowest statement; the earlier candidate
                key = (0 if s_["pattern"] != "mutcall" else 1, ci, s_["end_line"] - s_["line"])
                if best is None or key < best[0]:
                    best = (key, s_)
    return best[1] if best else None


def trace_events(changes, idx):
    """write events of one trace for the extracted footprint check: [(key, old leaf | None, new leaf | None, pattern, site)]"""
    out = []
    for (t0, a), (t1, b) in zip(changes, changes[1:]):
        site = site_for(idx, tag_prev(t1))
        pat = site["pattern"] if site else "plain"
        for k in a:
            if k not in b:
                out.append((k, a[k], None, pat, site))
            elif a[k] != b[k]:
                out.append((k, a[k], b[k], pat, site))
        for k in b:
            if k not in a:
                out.append((k, None, b[k], pat, site))
    return out


# ---------------------------------------------------------------------------------------------
# deterministic line-level scheduler (schedules of the Coq model replayed on the real code)
# ---------------------------------------------------------------------------------------------

class SchedTimeout(BaseException):
    pass


def kill_threads(ts):
    """threads of the real code that never came back (a spin, a scheduler time-out): raise SystemExit inside them
    so that they do not keep burning the interpreter for everything that follows in this worker process"""
    import ctypes
    import time
    alive = [t for t in ts if t.is_alive()]
    for t in alive:
        try:
            ctypes.pythonapi.PyThreadState_SetAsyncExc(ctypes.c_ulong(t.ident), ctypes.py_object(SystemExit))
        except Exception:           # noqa
            pass
    if alive:
        end = time.time() + 3.0
        for t in alive:
            t.join(max(0.0, end - time.time()))


class Sched:
    """Threads stop at every line event of fastparquet code and run only while they hold the baton.
    plan = [[tid, n, unit], ...]: thread tid runs until it has met n line events (unit "lines", the
    default) or until n changes of the shared-state fingerprint have been seen at its line events
    (unit "writes": the thread is preempted right after its n-th shared write), then the next entry;
    when the plan is exhausted the unfinished threads run to completion in tid order."""

    def __init__(self, n, plan, timeout=60.0):
        self.sems = [threading.Semaphore(0) for _ in range(n)]
        self.done = [False] * n
        self.plan = [list(p) for p in plan]
        self.pos = 0
        self.steps = [0] * n
        self.timeout = timeout
        self.dead = False
        self.last = {}

    def _next(self):
        while self.pos < len(self.plan):
            tid, k = self.plan[self.pos][:2]
            if tid >= len(self.done) or self.done[tid] or k <= 0:
                self.pos += 1
                continue
            return tid
        for tid in range(len(self.done)):
            if not self.done[tid]:
                return tid
        return None

    def start(self):
        nxt = self._next()
        if nxt is not None:
            self.sems[nxt].release()

    def wait_turn(self, tid):
        if not self.sems[tid].acquire(timeout=self.timeout):
            self.dead = True
            raise SchedTimeout("thread %d never got its turn" % tid)

    def on_line(self, tid, wrote=None, frame=None):
        self.steps[tid] += 1
        if self.dead:
            raise SchedTimeout("schedule abandoned")
        here = (os.path.basename(frame.f_code.co_filename), frame.f_lineno or 0) if frame is not None else None
        was = self.last.get(tid)
        self.last[tid] = here
        if self.pos >= len(self.plan):
            return
        e = self.plan[self.pos]
        if e[0] == tid:
            if len(e) > 2 and e[2] == "writes" and not (wrote is not None and wrote()):
                return
            if len(e) > 4 and e[2] == "left":       # the thread has just left the statement at (file, line)
                site = (e[3], e[4])
                if not (was == site and here != site):
                    return
            if len(e) > 4 and e[2] == "in":         # an event inside the statement at (file, line) (opcode granularity)
                if here != (e[3], e[4]):
                    return
            e[1] -= 1
            if e[1] > 0:
                return
            self.pos += 1
        nxt = self._next()
        if nxt is None or nxt == tid:
            return
        self.sems[nxt].release()
        self.wait_turn(tid)

    def finish(self, tid):
        self.done[tid] = True
        nxt = self._next()
        if nxt is not None:
            self.sems[nxt].release()


def iteration_prefixes():
    """the package plus the pure-Python library code that ITERATES over containers it is handed (copy.deepcopy walks every nested
    dict with `for k, v in x.items()`; pickle's Python fallback and json's encoder likewise): a thread can be preempted there too"""
    import copy
    import json as _json
    import pickle as _pickle
    return (pkg_prefix(), copy.__file__, _pickle.__file__, os.path.dirname(_json.__file__) + os.sep)


def forced_run(pf, ops, plan, shared=None, timeout=30.0, root=None, opcodes=False, deep=False):
    """Run ops[i] in thread i on the shared handle under the deterministic scheduler.
    Returns (raw results, steps per thread, deadlocked?).  deep: line events of copy / pickle / json frames count too."""
    prefix = iteration_prefixes() if deep else pkg_prefix()
    n = len(ops)
    sch = Sched(n, plan, timeout)
    res = [None] * n
    target = pf if root is None else root
    need_w = any(len(e) > 2 and e[2] == "writes" for e in plan)
    state = {"conts": containers(target) if need_w else None, "fp": fingerprint(target) if need_w else None}
    state["sig"] = fast_sig(state["conts"]) if need_w else None

    def wrote():
        sg = fast_sig(state["conts"])
        if sg == state["sig"]:
            return False
        state["conts"] = containers(target)
        state["sig"] = fast_sig(state["conts"])
        fp = fingerprint(target)
        if fp == state["fp"]:
            return False
        state["fp"] = fp
        return True

    def body(tid):
        try:
            sch.wait_turn(tid)
            sys.settrace(make_tracer(prefix, lambda frame: sch.on_line(tid, wrote, frame), opcodes[tid] if isinstance(opcodes, (list, tuple)) else opcodes))
            try:
                res[tid] = run_op_safe(pf, ops[tid], shared)
            finally:
                sys.settrace(None)
        except SchedTimeout as e:
            res[tid] = ["SCHED-TIMEOUT", str(e)]
        finally:
            sch.finish(tid)
    ts = [threading.Thread(target=body, args=(i,), daemon=True) for i in range(n)]
    for t in ts:
        t.start()
    sch.start()
    import time
    deadline = time.time() + timeout + 5
    for t in ts:
        t.join(max(0.0, deadline - time.time()))
    dead = sch.dead or any(t.is_alive() for t in ts)
    if dead:
        sch.dead = True
        kill_threads(ts)
    return res, list(sch.steps), dead


def count_steps(pf, op, shared=None, opcodes=False, deep=False):
    """number of line (or opcode) events of op run alone (on this handle)"""
    n = [0]

    def on_line(frame):
        n[0] += 1
    sys.settrace(make_tracer(iteration_prefixes() if deep else pkg_prefix(), on_line, opcodes))
    try:
        run_op_safe(pf, op, shared)
    finally:
        sys.settrace(None)
    return n[0]


# ---------------------------------------------------------------------------------------------
# free-running threads (the exploration the property's quantifier names)
# ---------------------------------------------------------------------------------------------

def stress_run(pf, op_lists, rng, shared=None, switch=1e-6, deadline_s=None):
    """Thread i runs op_lists[i] in order on the shared handle; randomised start barriers; minimal
    interpreter switch interval.  Returns (early, late): canonical results taken right after each
    call, and again after every thread has finished (aliasing with later calls shows up there)."""
    import time
    n = len(op_lists)
    raw = [[None] * len(l) for l in op_lists]
    early = [[None] * len(l) for l in op_lists]
    groups = [rng.randrange(0, 3) for _ in range(n)]          # randomised barriers: 3 start waves
    delays = [rng.random() * 0.002 for _ in range(n)]
    barrier = threading.Barrier(n)
    old = sys.getswitchinterval()

    def body(i):
        barrier.wait()
        if groups[i]:
            time.sleep(delays[i] * groups[i])
        for j, op in enumerate(op_lists[i]):
            r = run_op_safe(pf, op, shared)
            raw[i][j] = r
            try:
                early[i][j] = canon(r)
            except BaseException as e:      # noqa
                early[i][j] = ["CANON-EXC", type(e).__name__, str(e)[:80]]
    ts = [threading.Thread(target=body, args=(i,), daemon=True) for i in range(n)]
    sys.setswitchinterval(switch)
    try:
        for t in ts:
            t.start()
        deadline = time.time() + (deadline_s or STRESS_DEADLINE)       # one deadline for the whole round, not per thread
        for t in ts:
            t.join(max(0.0, deadline - time.time()))
    finally:
        sys.setswitchinterval(old)
    hung = any(t.is_alive() for t in ts)
    if hung:
        kill_threads(ts)
    late = [[canon(r) for r in l] for l in raw]
    return early, late, hung


# ---------------------------------------------------------------------------------------------
# datasets (as data: the replay rebuilds them from the spec)
# ---------------------------------------------------------------------------------------------

ALL_COLS = ["i", "f", "s", "c", "t", "o", "b"]


def build_frame(spec):
    import numpy as np
    import pandas as pd
    n = spec["n"]
    rs = np.random.RandomState(spec["seed"])
    cols = {}
    want = spec["cols"]
    if "i" in want:
        cols["i"] = np.arange(n, dtype="int64")
    if "f" in want:
        cols["f"] = np.round(rs.rand(n) * 100, 3) + np.arange(n)
    if "s" in want:
        cols["s"] = ["r%d" % (x % 7) for x in rs.randint(0, 1000, n)]
    if "c" in want:
        cols["c"] = pd.Categorical([["a", "b", "c"][x] for x in rs.randint(0, 3, n)])
    if "t" in want:
        cols["t"] = pd.date_range("2020-01-01", periods=n, freq="h")
    if "o" in want:
        a = pd.array(rs.randint(-50, 50, n), dtype="Int64")
        a[rs.rand(n) < 0.2] = pd.NA
        cols["o"] = a
    if "b" in want:                 # booleans: bit-packed pages (their own decode path and scratch arrays)
        cols["b"] = rs.rand(n) < 0.4
    if spec["kind"] == "hive":
        cols["p"] = np.arange(n) % spec.get("nparts", 2)
    return pd.DataFrame(cols)


def build_dataset(spec, root):
    """writes the dataset described by spec under root; returns the path to open"""
    if spec["kind"] == "file":          # a foreign file of the repository's test-data (read-only use)
        from harness import common as C
        return os.path.join(C.REPO, "test-data", spec["name"])
    from fastparquet import write
    df = build_frame(spec)
    offs = list(spec["offsets"])
    if spec["kind"] == "single":
        path = os.path.join(root, "d.parquet")
        write(path, df, row_group_offsets=offs, compression=spec.get("compression"))
    elif spec["kind"] == "hive":
        path = os.path.join(root, "d_hive")
        write(path, df, file_scheme="hive", partition_on=["p"], row_group_offsets=offs, compression=spec.get("compression"))
    else:
        path = os.path.join(root, "d_multi")
        write(path, df, file_scheme="hive", row_group_offsets=offs, compression=spec.get("compression"))
    return path


def solo_result(path, op, shared=None):
    """the result the operation gives alone, on a handle of its own"""
    from fastparquet import ParquetFile
    return canon(run_op_safe(ParquetFile(path), op, shared))


# ---------------------------------------------------------------------------------------------
# the schema tree as the model sees it
# ---------------------------------------------------------------------------------------------

def make_elements(tree):
    """tree = [[name id, num_children], ...] in depth-first order -> list of SchemaElement"""
    from fastparquet import parquet_thrift
    return [parquet_thrift.SchemaElement(name="n%d" % nm, num_children=(nc if nc else (None if nm % 2 else 0)))
            for nm, nc in tree]


def children_state(elements):
    out = []
    for e in elements:
        ch = e["children"]
        out.append(None if ch is None else tuple(int(k[1:]) for k in ch.keys()))
    return out


def tree_write_log(elements):
    """run schema.schema_tree(elements) alone under the line tracer; returns the list of writes
    [[element index, [child name ids]], ...] it performs on the elements' children, in order"""
    from fastparquet import schema
    log = []
    last = [children_state(elements)]

    def on_line(frame):
        cur = children_state(elements)
        if cur != last[0]:
            for i, (a, b) in enumerate(zip(last[0], cur)):
                if a != b:
                    log.append([i, list(b) if b is not None else None])
            last[0] = cur
    sys.settrace(make_tracer(pkg_prefix(), on_line))
    try:
        schema.schema_tree(elements)
    finally:
        sys.settrace(None)
    cur = children_state(elements)
    if cur != last[0]:
        for i, (a, b) in enumerate(zip(last[0], cur)):
            if a != b:
                log.append([i, list(b) if b is not None else None])
    return log


def tree_forced(tree, name, k):
    """real code, real threads: thread 0 re-runs schema_tree on the SHARED built elements and is
    preempted after its k-th write; thread 1 then looks `name` up in the root's children.
    -> 0 found | 1 KeyError | 2 no children"""
    from fastparquet import schema
    els = make_elements(tree)
    schema.schema_tree(els)
    prefix = pkg_prefix()
    sch = Sched(2, [[0, k, "writes"], [1, 10 ** 9, "lines"]], 30.0)
    last = [children_state(els)]
    res = [None, None]

    def wrote():
        cur = children_state(els)
        if cur != last[0]:
            last[0] = cur
            return True
        return False

    def t0():
        try:
            sch.wait_turn(0)
            sys.settrace(make_tracer(prefix, lambda frame: sch.on_line(0, wrote)))
            try:
                schema.schema_tree(els)
            finally:
                sys.settrace(None)
            res[0] = 0
        finally:
            sch.finish(0)

    def t1():
        try:
            sch.wait_turn(1)
            try:
                ch = els[0]["children"]
                if ch is None:
                    res[1] = 2
                else:
                    ch["n%d" % name]
                    res[1] = 0
            except KeyError:
                res[1] = 1
        finally:
            sch.finish(1)
    ts = [threading.Thread(target=t0, daemon=True), threading.Thread(target=t1, daemon=True)]
    for t in ts:
        t.start()
    sch.start()
    for t in ts:
        t.join(40)
    return res[1]


def storm_run(pf, op_a, op_b, shared=None, every=1, phase=0, timeout=40.0, max_calls=100000, opcodes=False):
    """Two real threads: thread 1 runs op_b and is preempted at every `every`-th line event of
    fastparquet code; at each preemption thread 0 runs op_a once, to completion (a thread issuing the
    same operation again and again).  Deterministic.  Returns (distinct raw results of op_a as a list,
    raw result of op_b, number of op_a calls, deadlocked?)."""
    prefix = pkg_prefix()
    sem_a = threading.Semaphore(0)
    sem_b = threading.Semaphore(0)
    stop = [False]
    a_results = []
    a_seen = set()
    res_b = [None]
    calls = [0]
    dead = [False]
    n = [0]

    def body_a():
        while True:
            if not sem_a.acquire(timeout=timeout):
                dead[0] = True
                return
            if stop[0]:
                return
            r = run_op_safe(pf, op_a, shared)
            calls[0] += 1
            try:
                c = canon(r)
            except BaseException as e:      # noqa
                c = ["CANON-EXC", type(e).__name__, str(e)[:80]]
            k = repr(c)
            if k not in a_seen:
                a_seen.add(k)
                a_results.append(c)
            sem_b.release()

    def on_line(frame):
        n[0] += 1
        if (n[0] + phase) % every or calls[0] >= max_calls or dead[0]:
            return
        sem_a.release()
        if not sem_b.acquire(timeout=timeout):
            dead[0] = True

    def body_b():
        sys.settrace(make_tracer(prefix, on_line, opcodes))
        try:
            res_b[0] = run_op_safe(pf, op_b, shared)
        finally:
            sys.settrace(None)
            stop[0] = True
            sem_a.release()
    ta = threading.Thread(target=body_a, daemon=True)
    tb = threading.Thread(target=body_b, daemon=True)
    ta.start()
    tb.start()
    tb.join(timeout * 2)
    ta.join(5.0 if not tb.is_alive() else 0.1)
    isdead = dead[0] or ta.is_alive() or tb.is_alive()
    if isdead:
        dead[0] = True
        stop[0] = True
        kill_threads([ta, tb])
    return a_results, res_b[0], calls[0], isdead


# ---------------------------------------------------------------------------------------------
# solo results from a pristine process
# ---------------------------------------------------------------------------------------------

class SoloServer:
    """A process forked from this one BEFORE it has executed any operation (pristine module- and class-level
    state of the package); for every request it forks a throw-away child that runs the operation alone on a
    handle of its own.  So "the result the operation gives alone" cannot be contaminated by caches that
    earlier operations of the same process left at module or class level."""

    def __init__(self):
        import pickle as pk
        self.pk = pk
        r1, w1 = os.pipe()          # requests
        r2, w2 = os.pipe()          # answers
        pid = os.fork()
        if pid == 0:
            try:
                os.close(w1)
                os.close(r2)
                # drop every other descriptor inherited from the worker (its pipe to the parent above all: the parent
                # must see end-of-file when the worker dies)
                for name in os.listdir("/proc/self/fd"):
                    fd = int(name)
                    if fd > 2 and fd not in (r1, w2):
                        try:
                            os.close(fd)
                        except OSError:
                            pass
                self._loop(r1, w2)
            finally:
                os._exit(0)
        os.close(r1)
        os.close(w2)
        self.pid, self.w, self.r = pid, w1, r2

    @staticmethod
    def _send(fd, obj):
        import pickle as pk
        import struct
        b = pk.dumps(obj)
        os.write(fd, struct.pack("<I", len(b)) + b)

    @staticmethod
    def _recv(fd, timeout):
        import pickle as pk
        import select
        import struct
        import time
        end = time.time() + timeout
        buf = b""
        need = None
        while True:
            left = end - time.time()
            if left <= 0:
                return None, "timeout"
            rl, _, _ = select.select([fd], [], [], left)
            if not rl:
                return None, "timeout"
            chunk = os.read(fd, 65536)
            if not chunk:
                return None, "eof"
            buf += chunk
            if need is None and len(buf) >= 4:
                need = struct.unpack("<I", buf[:4])[0]
            if need is not None and len(buf) >= 4 + need:
                return pk.loads(buf[4:4 + need]), None

    def _loop(self, rfd, wfd):
        import signal
        while True:
            msg, err = self._recv(rfd, 10 ** 7)
            if err:
                return
            path, op, shared, timeout = msg
            r, w = os.pipe()
            pid = os.fork()
            if pid == 0:
                try:
                    os.close(r)
                    self._send(w, solo_result(path, op, shared))
                finally:
                    os._exit(0)
            os.close(w)
            res, err = self._recv(r, timeout)
            os.close(r)
            if err == "timeout":
                try:
                    os.kill(pid, signal.SIGKILL)
                except OSError:
                    pass
                res = ["EXC", "TimeoutError", "alone: operation did not return within %ds" % timeout]
            elif err:
                res = ["EXC", "Crash", "alone: the process running the operation died"]
            try:
                os.waitpid(pid, 0)
            except OSError:
                pass
            self._send(wfd, res)

    def ask(self, path, op, shared=None, timeout=60):
        self._send(self.w, (path, op, shared, timeout))
        res, err = self._recv(self.r, timeout + 30)
        if err:
            return ["EXC", "SoloServer", err]
        return res

    def close(self):
        for fd in (self.w, self.r):
            try:
                os.close(fd)
            except OSError:
                pass
        try:
            os.waitpid(self.pid, 0)
        except OSError:
            pass


SOLO_SERVER = [None]


def start_solo_server():
    """call in a process that has not executed any operation yet"""
    if SOLO_SERVER[0] is None:
        SOLO_SERVER[0] = SoloServer()
    return SOLO_SERVER[0]


def solo_pristine(path, op, timeout=60):
    if SOLO_SERVER[0] is None:
        return solo_result(path, op)
    return SOLO_SERVER[0].ask(path, op, None, timeout)


# ---------------------------------------------------------------------------------------------
# native codec stream: the same functions of cencoding / speedups from N threads = the bytes of one thread
# ---------------------------------------------------------------------------------------------

def codec_stream(seed, n=120):
    """A deterministic stream of calls of the compiled codec functions (varint, bit packing, RLE/bit-packed hybrid read-back,
    NumpyIO, thrift write/read of a metadata object through the cdef tables specs/children, utf8 array codecs, byte-array
    packing) on inputs derived from `seed`, inside the regions the codecs handle correctly (widths <= 8, groups of 8).
    -> hex digest of everything the calls produced."""
    import random
    import numpy as np
    from fastparquet import cencoding, speedups, parquet_thrift
    from fastparquet.cencoding import NumpyIO
    rng = random.Random("codec/%d" % seed)
    h = hashlib.sha256()
    bad = 0
    for it in range(n):
        kind = it % 6
        if kind == 0:                                   # varint round trip
            xs = [rng.randrange(0, 1 << rng.choice([7, 14, 21, 35, 56])) for _ in range(20)]
            o = NumpyIO(np.zeros(400, dtype=np.uint8))
            for x in xs:
                cencoding.encode_unsigned_varint(x, o)
            b = bytes(o.so_far())
            i = NumpyIO(np.frombuffer(b, dtype=np.uint8).copy())
            back = [int(cencoding.read_unsigned_var_int(i)) for _ in xs]
            bad += back != xs
            h.update(b + repr(back == xs).encode())
        elif kind == 1:                                 # bit-packed run written, hybrid reader reads it back
            w = rng.choice([1, 2, 3, 4, 5, 7, 8])
            cnt = 8 * rng.randrange(1, 12)
            vals = np.array([rng.randrange(0, 1 << w) for _ in range(cnt)], dtype=np.int32)
            o = NumpyIO(np.zeros(cnt * 2 + 32, dtype=np.uint8))
            cencoding.encode_rle_bp(vals, w, o, 0)
            b = bytes(o.so_far())
            src = NumpyIO(np.frombuffer(b + b"\x00" * 8, dtype=np.uint8).copy())
            out = np.zeros(cnt, dtype=np.uint8)
            cencoding.read_rle_bit_packed_hybrid(src, w, len(b), NumpyIO(out), 1)
            bad += not bool((out == vals).all())
            h.update(b + out.tobytes() + repr(bool((out == vals).all())).encode())
        elif kind == 2:                                 # thrift object through the cdef tables
            kv = [parquet_thrift.KeyValue(key=("k%d" % rng.randrange(100)).encode(), value=("v" * rng.randrange(0, 30)).encode())
                  for _ in range(rng.randrange(1, 5))]
            se = [parquet_thrift.SchemaElement(name="c%d" % j, type=rng.choice([1, 2, 4, 5, 6]), num_children=None,
                                               repetition_type=rng.choice([0, 1])) for j in range(rng.randrange(1, 6))]
            fmd = parquet_thrift.FileMetaData(version=1, schema=se, num_rows=rng.randrange(0, 10 ** 6), row_groups=[],
                                              key_value_metadata=kv, created_by=b"stream")
            b = bytes(fmd.to_bytes())
            back = cencoding.from_buffer(b, "FileMetaData")
            bad += bytes(back.to_bytes()) != b
            h.update(b + bytes(back.to_bytes()) + repr(int(back.num_rows)).encode())
        elif kind == 3:                                 # utf8 array codecs
            strs = np.array(["".join(rng.choice("abcxyzé中") for _ in range(rng.randrange(0, 12))) for _ in range(30)], dtype=object)
            enc = speedups.array_encode_utf8(strs)
            packed = speedups.pack_byte_array(list(enc))
            back = speedups.unpack_byte_array(np.frombuffer(bytes(packed), dtype=np.uint8).copy(), len(strs), True)
            bad += list(back) != list(strs)
            h.update(bytes(packed) + repr(list(back) == list(strs)).encode())
        elif kind == 5:                                 # widths 9..24 (C11: impl = spec for 0 < w <= 24), 4-byte items
            w = rng.choice([9, 10, 12, 13, 16, 17, 20, 23, 24])
            cnt = 8 * rng.randrange(1, 10)
            vals = np.array([rng.randrange(0, 1 << w) for _ in range(cnt)], dtype=np.int32)
            o = NumpyIO(np.zeros(cnt * 4 + 32, dtype=np.uint8))
            cencoding.encode_rle_bp(vals, w, o, 0)
            b = bytes(o.so_far())
            src = NumpyIO(np.frombuffer(b + b"\x00" * 16, dtype=np.uint8).copy())
            out = np.zeros(cnt, dtype=np.int32)
            cencoding.read_rle_bit_packed_hybrid(src, w, len(b), NumpyIO(out.view(np.uint8)), 4)
            bad += not bool((out == vals).all())
            h.update(b + out.tobytes() + repr(bool((out == vals).all())).encode())
        else:                                           # boolean bit packing (read_bitpacked1 / write_bitpacked1; not an inverse pair: digest only)
            cnt = 8 * rng.randrange(1, 20)
            bits = np.array([rng.randrange(2) for _ in range(cnt)], dtype=np.uint8)
            o = NumpyIO(np.zeros(cnt // 8 + 8, dtype=np.uint8))
            cencoding.write_bitpacked1(NumpyIO(bits), cnt, o)
            b = bytes(o.so_far())
            out = np.zeros(cnt, dtype=np.uint8)
            cencoding.read_bitpacked1(NumpyIO(np.frombuffer(b + b"\x00" * 8, dtype=np.uint8).copy()), cnt, NumpyIO(out))
            h.update(b + out.tobytes() + repr(bool((out == bits).all())).encode())
    return "%s:%d" % (h.hexdigest()[:24], bad)        # digest : number of round trips that did not give the input back


def codec_threads(nthreads, n=120, switch=1e-6):
    """sequential digests of streams 0..nthreads-1, then the same streams from nthreads real threads behind a barrier
    -> (sequential, threaded)"""
    seq = [codec_stream(i, n) for i in range(nthreads)]
    thr = [None] * nthreads
    barrier = threading.Barrier(nthreads)

    def body(i):
        barrier.wait()
        try:
            thr[i] = codec_stream(i, n)
        except BaseException as e:      # noqa
            thr[i] = "EXC:%s:%s" % (type(e).__name__, str(e)[:80])
    old = sys.getswitchinterval()
    ts = [threading.Thread(target=body, args=(i,), daemon=True) for i in range(nthreads)]
    sys.setswitchinterval(switch)
    try:
        for t in ts:
            t.start()
        for t in ts:
            t.join(120)
    finally:
        sys.setswitchinterval(old)
    return seq, thr
