"""C20 machinery shared by the check and its replay: operations as data, canonical results,
fingerprint of the state reachable from a handle, line tracer, deterministic line-level scheduler.

Nothing here imports fastparquet at module import time (C.use_shadow() must come first)."""
import hashlib
import os
import pickle
import sys
import threading


def sha(b):
    if isinstance(b, str):
        b = b.encode()
    return hashlib.sha256(b).hexdigest()


# ---------------------------------------------------------------------------------------------
# canonical results
# ---------------------------------------------------------------------------------------------

def digest_df(df):
    import pandas as pd
    h = hashlib.sha256()
    h.update(repr([str(c) for c in df.columns]).encode())
    h.update(repr([str(t) for t in df.dtypes]).encode())
    h.update(repr(list(df.index.names)).encode())
    if len(df.columns) or len(df):
        h.update(pd.util.hash_pandas_object(df, index=True).values.tobytes())
    return ["df", int(len(df)), int(len(df.columns)), h.hexdigest()[:16]]


def canon(x):
    """JSON-able canonical form of anything an operation returns."""
    import numpy as np
    import pandas as pd
    if isinstance(x, pd.DataFrame):
        return digest_df(x)
    if isinstance(x, dict):
        return {str(k): canon(v) for k, v in sorted(x.items(), key=lambda kv: str(kv[0]))}
    if isinstance(x, (list, tuple)):
        return [canon(v) for v in x]
    if isinstance(x, (np.generic, np.ndarray)):
        return repr(x.tolist()) if isinstance(x, np.ndarray) else repr(x.item() if not isinstance(x, (np.datetime64, np.timedelta64)) else str(x))
    if isinstance(x, bytes):
        return "b:" + x.hex()[:80]
    if x is None or isinstance(x, (bool, int, float, str)):
        return x
    return repr(x)[:120]


def exc_form(e):
    return ["EXC", type(e).__name__, str(e)[:100]]


# ---------------------------------------------------------------------------------------------
# operations (plain data; the replay does not depend on generator code)
# ---------------------------------------------------------------------------------------------

def _filters(f):
    if not f:
        return []
    out = []
    for t in f:
        if isinstance(t[0], str):
            out.append((t[0], t[1], _fval(t[2])))
        else:
            out.append([(u[0], u[1], _fval(u[2])) for u in t])
    return out


def _fval(v):
    import numpy as np
    if isinstance(v, dict) and "dt" in v:
        return np.datetime64(v["dt"])
    if isinstance(v, list):
        return [_fval(x) for x in v]
    return v


def _kw(op):
    kw = {}
    if op.get("columns") is not None:
        kw["columns"] = list(op["columns"])
    if op.get("filters"):
        kw["filters"] = _filters(op["filters"])
    if "categories" in op:
        kw["categories"] = op["categories"]
    if "index" in op:
        kw["index"] = op["index"]
    return kw


def run_op(pf, op, shared=None):
    """Execute one operation of the quantifier on the (shared) handle pf; returns the canonical result.
    `shared`: for part-file writers {"fmd","frames","paths","compression"}."""
    k = op["op"]
    if k == "to_pandas":
        return canon(pf.to_pandas(**_kw(op)))
    if k == "slice":
        sub = pf[slice(op.get("i"), op.get("j"), op.get("step"))]
        return [len(sub.row_groups), canon(sub.to_pandas(**_kw(op))), canon(sub.count())]
    if k == "index":
        sub = pf[op["i"]]
        return [len(sub.row_groups), canon(sub.to_pandas(**_kw(op)))]
    if k == "slice_only":            # derive a handle, do not read through it
        sub = pf[slice(op.get("i"), op.get("j"), op.get("step"))]
        return [len(sub.row_groups), [int(rg.num_rows) for rg in sub.row_groups]]
    if k == "iter":
        return [canon(df) for df in pf.iter_row_groups(**_kw(op))]
    if k == "head":
        return canon(pf.head(op["n"], **_kw(op)))
    if k == "statistics":
        return canon(pf.statistics)
    if k == "count":
        return canon(pf.count(filters=_filters(op.get("filters"))))
    if k == "columns":
        return [canon(pf.columns), canon(list(pf.cats)), canon(pf.info["rows"])]
    if k == "pickle":
        b = pickle.dumps(pf)
        pf2 = pickle.loads(b)
        return [sha(b)[:16], len(b), canon(pf2.to_pandas(**_kw(op))), canon(pf2.count())]
    if k == "rebuild":               # what ParquetFile.__getitem__ did on the pinned tree for every derived handle
        from fastparquet import schema
        schema.SchemaHelper(pf._schema)
        return "rebuilt"
    if k == "lookup":                # SchemaHelper.schema_element through the parent handle
        try:
            se = pf.schema.schema_element(list(op["path"]))
            return ["found", se.name]
        except KeyError:
            return ["KeyError"]
        except TypeError:
            return ["TypeError"]
    if k == "part":                  # writer.make_part_file with the shared schema / file metadata
        from fastparquet import writer
        i = op["i"]
        f = open(shared["paths"][i], "wb")
        rg = writer.make_part_file(f, shared["frames"][i], shared["fmd"].schema,
                                   compression=shared.get("compression"), fmd=shared["fmd"])
        return [int(rg.num_rows), sha(open(shared["paths"][i], "rb").read())[:20]]
    raise ValueError("unknown op %r" % (op,))


def run_op_safe(pf, op, shared=None):
    try:
        return run_op(pf, op, shared)
    except BaseException as e:      # noqa
        if isinstance(e, SchedTimeout):
            raise
        return exc_form(e)


# ---------------------------------------------------------------------------------------------
# fingerprint of the state reachable from a handle
# ---------------------------------------------------------------------------------------------

SCRATCH_PREFIXES = ("dtypes/",)     # per-call output attribute: values are overwritten by every to_pandas, read by none


def _leaf(v):
    import numpy as np
    if v is None or isinstance(v, (bool, int, float)):
        return repr(v)
    if isinstance(v, (str, bytes)):
        r = repr(v)
        return r if len(r) <= 48 else "h:" + sha(r)[:12]
    if isinstance(v, np.ndarray):
        if v.dtype == object:
            return "nd:" + sha(repr(v.tolist()))[:12]
        return "nd:%s%s:%s" % (v.dtype, v.shape, sha(v.tobytes())[:12])
    if isinstance(v, (np.generic, np.dtype)):
        return repr(v)
    mod = type(v).__module__ or ""
    if mod.startswith("pandas"):
        import pandas as pd
        if isinstance(v, (pd.DataFrame, pd.Series, pd.Index)):
            try:
                return "pd:" + sha(pd.util.hash_pandas_object(v).values.tobytes())[:12]
            except Exception:           # noqa
                return "pd:" + sha(repr(v))[:12]
        return repr(v)[:60]
    return "t:" + type(v).__name__


def fingerprint(root, scratch_values=None):
    """{path: leaf} of everything reachable from `root` (a ParquetFile, or any dict / thrift object).
    Dicts, lists, thrift objects and fastparquet objects are walked; an object reached through a
    second path is recorded as a reference to its canonical path (schema elements: /fmd/2/i, row
    groups: /fmd/4/i, otherwise the path it is first met on; fmd is walked first).  Paths under
    SCRATCH_PREFIXES are recorded by presence only (their values go to scratch_values when given)."""
    out = {}
    seen = {}
    if type(root).__name__ == "ParquetFile":
        fmd = root.__dict__.get("fmd")
        if fmd is not None:
            c = fmd.contents
            for fld in (2, 4):
                for i, d in enumerate(c.get(fld) or []):
                    seen[id(d)] = "/fmd/%d/%d" % (fld, i)
            _walk("/fmd", fmd, out, seen, scratch_values)
        for k in sorted(root.__dict__):
            if k != "fmd":
                _walk("/" + k, root.__dict__[k], out, seen, scratch_values)
    else:
        _walk("", root, out, seen, scratch_values)
    return out


def _walk(path0, v0, out, seen, scratch_values):
    stack = [(path0, v0)]
    while stack:
        path, v = stack.pop()
        tn = type(v).__name__
        if tn == "ThriftObject":
            v = v.contents
        elif tn in ("ParquetFile", "SchemaHelper"):
            v = v.__dict__
        if isinstance(v, dict):
            if seen.setdefault(id(v), path) != path:
                out[path + "/@"] = seen[id(v)]
                continue
            out[path + "/#"] = "dict"
            for k, x in list(v.items()):
                stack.append((path + "/" + str(k), x))
        elif isinstance(v, list):
            if seen.setdefault(id(v), path) != path:
                out[path + "/@"] = seen[id(v)]
                continue
            out[path + "/#"] = "list%d" % len(v)
            for i, x in enumerate(v):
                stack.append((path + "/" + str(i), x))
        elif isinstance(v, tuple):
            out[path + "/#"] = "tuple%d" % len(v)
            for i, x in enumerate(v):
                stack.append((path + "/" + str(i), x))
        elif v is None:
            pass            # None is the "not computed yet" marker of every memo attribute: absent
        else:
            p = path[1:]
            if p.startswith(SCRATCH_PREFIXES):
                if scratch_values is not None:
                    scratch_values[p] = _leaf(v)
                out[path] = "present"
            else:
                out[path] = _leaf(v)


class Interner:
    def __init__(self):
        self.k = {}
        self.v = {}

    def snap(self, fp):
        ks, vs = self.k, self.v
        return sorted((ks.setdefault(a, len(ks)), vs.setdefault(b, len(vs))) for a, b in fp.items())

    def key_name(self, n):
        for a, b in self.k.items():
            if b == n:
                return a
        return "?"


# ---------------------------------------------------------------------------------------------
# line tracer
# ---------------------------------------------------------------------------------------------

def pkg_prefix():
    import fastparquet
    return os.path.dirname(fastparquet.__file__) + os.sep


def make_tracer(prefix, on_line):
    """A sys.settrace function that calls on_line(frame) at every line event of frames whose code
    lives under `prefix` (the fastparquet package actually imported)."""
    def local(frame, event, arg):
        if event == "line":
            on_line(frame)
        return local

    def glob(frame, event, arg):
        if frame.f_code.co_filename.startswith(prefix):
            return local
        return None
    return glob


def trace_footprint(pf, op, shared=None, root=None):
    """Run `op` alone under the tracer; returns (result, [(lineno-tag, fingerprint), ...]) with one
    entry per CHANGE of the fingerprint (first entry = state before the operation), and the number of
    line events, and the scratch overwrites seen."""
    prefix = pkg_prefix()
    target = pf if root is None else root
    scratch = {}
    last_scr = [dict()]
    fp0 = fingerprint(target, scratch)
    last_scr[0] = dict(scratch)
    changes = [("start", fp0)]
    n = [0]
    scr_over = [0]

    def on_line(frame):
        n[0] += 1
        sc = {}
        fp = fingerprint(target, sc)
        if fp != changes[-1][1]:
            changes.append(("%s:%d@%d" % (os.path.basename(frame.f_code.co_filename), frame.f_lineno, n[0]), fp))
        if sc != last_scr[0]:
            for k_, v_ in sc.items():
                if k_ in last_scr[0] and last_scr[0][k_] != v_:
                    scr_over[0] += 1
            last_scr[0] = sc
    tr = make_tracer(prefix, on_line)
    sys.settrace(tr)
    try:
        res = run_op_safe(pf, op, shared)
    finally:
        sys.settrace(None)
    fp = fingerprint(target)
    if fp != changes[-1][1]:
        changes.append(("end", fp))
    return res, changes, n[0], scr_over[0]


# ---------------------------------------------------------------------------------------------
# deterministic line-level scheduler (schedules of the Coq model replayed on the real code)
# ---------------------------------------------------------------------------------------------

class SchedTimeout(BaseException):
    pass


class Sched:
    """Threads stop at every line event of fastparquet code and run only while they hold the baton.
    plan = [[tid, nsteps], ...]: thread tid runs until it has met nsteps line events, then the next
    entry; when the plan is exhausted the unfinished threads run to completion in tid order."""

    def __init__(self, n, plan, timeout=60.0):
        self.sems = [threading.Semaphore(0) for _ in range(n)]
        self.done = [False] * n
        self.plan = [list(p) for p in plan]
        self.pos = 0
        self.steps = [0] * n
        self.timeout = timeout
        self.dead = False

    def _next(self):
        while self.pos < len(self.plan):
            tid, k = self.plan[self.pos]
            if tid >= len(self.done) or self.done[tid] or k <= 0:
                self.pos += 1
                continue
            return tid
        for tid in range(len(self.done)):
            if not self.done[tid]:
                return tid
        return None

    def start(self):
        nxt = self._next()
        if nxt is not None:
            self.sems[nxt].release()

    def wait_turn(self, tid):
        if not self.sems[tid].acquire(timeout=self.timeout):
            self.dead = True
            raise SchedTimeout("thread %d never got its turn" % tid)

    def on_line(self, tid):
        self.steps[tid] += 1
        if self.pos >= len(self.plan):
            return
        if self.plan[self.pos][0] == tid:
            self.plan[self.pos][1] -= 1
            if self.plan[self.pos][1] > 0:
                return
            self.pos += 1
        nxt = self._next()
        if nxt is None or nxt == tid:
            return
        self.sems[nxt].release()
        self.wait_turn(tid)

    def finish(self, tid):
        self.done[tid] = True
        nxt = self._next()
        if nxt is not None:
            self.sems[nxt].release()


def forced_run(pf, ops, plan, shared=None, timeout=60.0):
    """Run ops[i] in thread i on the shared handle under the deterministic scheduler.
    Returns (results, steps per thread, deadlocked?)."""
    prefix = pkg_prefix()
    n = len(ops)
    sch = Sched(n, plan, timeout)
    res = [None] * n

    def body(tid):
        try:
            sch.wait_turn(tid)
            sys.settrace(make_tracer(prefix, lambda frame: sch.on_line(tid)))
            try:
                res[tid] = run_op_safe(pf, ops[tid], shared)
            finally:
                sys.settrace(None)
        except SchedTimeout as e:
            res[tid] = ["SCHED-TIMEOUT", str(e)]
        finally:
            sch.finish(tid)
    ts = [threading.Thread(target=body, args=(i,), daemon=True) for i in range(n)]
    for t in ts:
        t.start()
    sch.start()
    for t in ts:
        t.join(timeout + 5)
    return res, list(sch.steps), sch.dead or any(t.is_alive() for t in ts)


def count_steps(pf, op, shared=None):
    """number of line events of op run alone (on this handle)"""
    n = [0]

    def on_line(frame):
        n[0] += 1
    sys.settrace(make_tracer(pkg_prefix(), on_line))
    try:
        run_op_safe(pf, op, shared)
    finally:
        sys.settrace(None)
    return n[0]


# ---------------------------------------------------------------------------------------------
# free-running threads (the exploration the property's quantifier names)
# ---------------------------------------------------------------------------------------------

def stress_run(pf, op_lists, rng, shared=None, switch=1e-6):
    """Thread i runs op_lists[i] in order on the shared handle; randomised start barriers; minimal
    interpreter switch interval.  Returns list of lists of results."""
    import time
    n = len(op_lists)
    res = [[None] * len(l) for l in op_lists]
    groups = [rng.randrange(0, 3) for _ in range(n)]          # randomised barriers: 3 start waves
    delays = [rng.random() * 0.002 for _ in range(n)]
    barrier = threading.Barrier(n)
    old = sys.getswitchinterval()

    def body(i):
        barrier.wait()
        if groups[i]:
            time.sleep(delays[i] * groups[i])
        for j, op in enumerate(op_lists[i]):
            res[i][j] = run_op_safe(pf, op, shared)
    ts = [threading.Thread(target=body, args=(i,), daemon=True) for i in range(n)]
    sys.setswitchinterval(switch)
    try:
        for t in ts:
            t.start()
        for t in ts:
            t.join(120)
    finally:
        sys.setswitchinterval(old)
    return res
