"""Seeded changes for the C09 self-test: name -> (file, old text, new text, kind)."""
M = {}
M["M1_num_rows_not_decremented"] = ("fastparquet/api.py", '''                rg_new.remove(rg)
                self.fmd.num_rows -= rg.num_rows
''', '''                rg_new.remove(rg)
''', "M")
M["M2a_overwrite_first_value_only"] = ("fastparquet/writer.py", '''    rgs_to_remove = filter(lambda rg : (partitions(rg, True)
                                        in partition_values_in_new),
''', '''    rgs_to_remove = filter(lambda rg : (partitions(rg, True)
                                        in partition_values_in_new[:1]),
''', "M")
M["M2b_overwrite_not_in"] = ("fastparquet/writer.py", '''    rgs_to_remove = filter(lambda rg : (partitions(rg, True)
                                        in partition_values_in_new),
''', '''    rgs_to_remove = filter(lambda rg : (partitions(rg, True)
                                        not in partition_values_in_new),
''', "M")
M["M3_rename_fix_reverted"] = ("fastparquet/api.py", '''        files = {}
        for rgid, rg in enumerate(self.fmd.row_groups):
            files.setdefault(rg.columns[0].file_path, (rgid, []))[1].append(rg)
''', '''        files = {}
        for rgid, rg in enumerate(self.fmd.row_groups):
            # pinned behaviour: one entry per part NUMBER
            key = int(PART_ID.match(rg.columns[0].file_path)['i'])
            if not any(int(PART_ID.match(k)['i']) == key for k in files):
                files[rg.columns[0].file_path] = (rgid, [rg])
''', "M")
M["M4_single_pass_rename"] = ("fastparquet/api.py", '''            dst = join_path(basepath, parts, f'part.{rgid}.parquet.tmp')
            rename(src, dst)
        # Give definitive names in a 2nd pass.
        for rgid, fname, rgs in renames:
            parts = partitions(fname)
            src = join_path(basepath, parts, f'part.{rgid}.parquet.tmp')
            dst_part''', '''            dst = join_path(basepath, parts, f'part.{rgid}.parquet')
            rename(src, dst)
        # Give definitive names in a 2nd pass.
        for rgid, fname, rgs in renames:
            parts = partitions(fname)
            src = join_path(basepath, parts, f'part.{rgid}.parquet')
            dst_part''', "M")
M["M5_files_not_deleted"] = ("fastparquet/api.py", '''                remove_with([f'{basepath}/{file}' for file in rgs_to_remove])
''', '''                pass
''', "M")
M["M6_offset_is_row_group_count"] = ("fastparquet/writer.py", '''        i_offset = find_max_part(fmd.row_groups)
''', '''        i_offset = len(fmd.row_groups)
''', "M")
M["M7_new_partitions_first"] = ("fastparquet/writer.py", '''                if (rg_partition in partitions_starts) else n_rgs)
''', '''                if (rg_partition in partitions_starts) else -1)
''', "M")
M["M8_sort_reversed"] = ("fastparquet/api.py", '''                self.fmd.row_groups = sorted(self.fmd.row_groups, key=sort_key)
''', '''                self.fmd.row_groups = sorted(self.fmd.row_groups, key=sort_key, reverse=True)
''', "M")
M["M9_paths_not_updated_after_rename"] = ("fastparquet/api.py", '''            for rg in rgs:
                for col in rg.columns:
                    col.file_path = dst_part
''', '''            pass
''', "M")
M["M10_remove_keeps_wrong_row_group"] = ("fastparquet/api.py", '''            for rg in rgs:
                rg_new.remove(rg)
''', '''            for rg in rgs:
                rg_new.pop(0)
''', "M")
M["N1_renames_in_reverse_order"] = ("fastparquet/api.py", '''        renames = [(rgid, fname, rgs) for fname, (rgid, rgs) in files.items()
                   if int(PART_ID.match(fname)['i']) != rgid]
''', '''        renames = [(rgid, fname, rgs) for fname, (rgid, rgs) in files.items()
                   if int(PART_ID.match(fname)['i']) != rgid][::-1]
''', "N")
M["N2_partition_starts_forward_loop"] = ("fastparquet/writer.py", '''    partitions_starts = {partitions(rg): (max_idx-i)
                         for i, rg in enumerate(reversed(pf.row_groups))}
''', '''    partitions_starts = {}
    for idx_rg, rg in enumerate(pf.row_groups):
        partitions_starts.setdefault(partitions(rg), idx_rg)
''', "N")
M["N3_num_rows_recomputed"] = ("fastparquet/api.py", '''            self.fmd.row_groups = rg_new
''', '''            self.fmd.row_groups = rg_new
            self.fmd.num_rows = sum(rg.num_rows for rg in rg_new)
''', "N")
M["M11_overwrite_selects_by_path_prefix"] = ("fastparquet/writer.py", '''    rgs_to_remove = filter(lambda rg : (partitions(rg, True)
                                        in partition_values_in_new),
                           pf.row_groups)
''', '''    new_dirs = ['/'.join('%s=%s' % (n, v) for n, v in zip(defined_partitions, val.split('/')))
                for val in partition_values_in_new]
    rgs_to_remove = filter(lambda rg : any(rg.columns[0].file_path.startswith(d) for d in new_dirs),
                           pf.row_groups)
''', "M")
M["M12_path_string_whole_floats_as_int"] = ("fastparquet/util.py", '''    if isinstance(o, pd.Timestamp):
        return o.isoformat()
    return str(o)
''', '''    if isinstance(o, pd.Timestamp):
        return o.isoformat()
    if isinstance(o, float) and o.is_integer():
        return str(int(o))
    return str(o)
''', "M")
M["M13_overwrite_compares_astype_str"] = ("fastparquet/writer.py", '''    partition_values_in_new = {
        '/'.join(path_string(val) for val in values)
        for values in new_partitions.itertuples(index=False, name=None)}
''', '''    partition_values_in_new = set(new_partitions.astype(str).agg('/'.join, axis=1))
''', "M")
M["M14_partition_names_from_paths_only"] = ("fastparquet/api.py", '''        return list(self.partition_meta)
''', '''        return list(self.cats)
''', "M")
M["M15_emptied_dataset_written_drill_style"] = ("fastparquet/api.py", '''                        file_scheme=('hive' if self.file_scheme == 'empty'
                                     else self.file_scheme),
''', '''                        file_scheme=self.file_scheme,
''', "M")
M["M16_rename_needs_fs_object"] = ("fastparquet/api.py", '''        rename = self.fs.rename if hasattr(self, 'fs') else os.rename
''', '''        rename = self.fs.rename
''', "M")
