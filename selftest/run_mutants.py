"""usage: VERIF_REPO=... python selftest/run_mutants.py Cxx [name ...]  -- applies each seeded change of selftest/mutants_Cxx.py to
$VERIF_REPO (working tree only), runs ./check Cxx (quick), prints one table row, restores the tree (git checkout -- .)."""
import importlib.util, os, subprocess, sys, time
here = os.path.dirname(os.path.abspath(__file__))
verif = os.path.dirname(here)
repo = os.environ["VERIF_REPO"]
assert repo not in ("/repo", "/repo/"), "never mutate /repo"
pid = sys.argv[1]
spec = importlib.util.spec_from_file_location("m", os.path.join(here, "mutants_%s.py" % pid))
m = importlib.util.module_from_spec(spec); spec.loader.exec_module(m)
names = sys.argv[2:] or list(m.M)
for name in names:
    f, old, new, kind = m.M[name]
    p = os.path.join(repo, f)
    src = open(p).read()
    if src.count(old) != 1:
        print("%-40s  CANNOT APPLY (%d matches)" % (name, src.count(old))); continue
    open(p, "w").write(src.replace(old, new))
    t = time.time()
    try:
        r = subprocess.run(["./check", pid], cwd=verif, stdout=subprocess.PIPE, stderr=subprocess.STDOUT, timeout=1500)
        out = r.stdout.decode("utf-8", "replace")
    finally:
        subprocess.run(["git", "checkout", "--", "."], cwd=repo)
    viol = [l for l in out.split("\n") if l.startswith("VIOLATION")]
    last = [l for l in out.split("\n") if l.startswith(pid + " ")]
    concrete = [l for l in viol if "no-failing-input-found" not in l]
    verdict = "silent" if r.returncode == 0 else ("VIOLATION concrete x%d" % len(concrete) if concrete else "VIOLATION no-failing-input-found")
    print("%-40s %s  rc=%d  %-32s %.0fs" % (name, kind, r.returncode, verdict, time.time() - t))
    for l in viol[:2]:
        print("      " + l)
    if not last:
        print(out[-1500:])
    sys.stdout.flush()
