#!/bin/bash
# Wave 3 self-test of C07 / C09 / C18 / C19 (what notes/C07.md, C09.md, C18.md, C19.md "Wave 3" report).
# usage: VERIF=<verif worktree> SEEDREPO=<scratch worktree of the repo with the generated .c files> selftest/w3_dsedit_selftest.sh
# Every entry applies one change to $SEEDREPO, runs the property's own quick check with VERIF_REPO=$SEEDREPO, undoes it.
VERIF=${VERIF:-/work/w3-dsedit/verif}
SEEDREPO=${SEEDREPO:-/work/w3-dsedit/repo-seed}

run() {   # name  property  expectation(M|N)
  out=$(cd $VERIF && VERIF_REPO=$SEEDREPO ./check $2 --tier quick 2>&1 | grep -v "^WARN\|KNOWN")
  v=$(echo "$out" | grep -c "^VIOLATION"); nf=$(echo "$out" | grep -c "no-failing-input-found")
  echo "$1 [$3] $2: violations=$v of which no-failing-input-found=$nf"
  git -C $SEEDREPO checkout -q -- .
}
edit() {  # file  old  new   (exactly one occurrence)
  python3 - "$SEEDREPO/fastparquet/$1" "$2" "$3" <<'P'
import sys
p, a, b = sys.argv[1:4]
s = open(p).read()
assert s.count(a) == 1, (p, s.count(a))
open(p, "w").write(s.replace(a, b))
P
}
# --- seeded changes (round 1-3) ---
for sd in C07-7 C07-8 C09-7 C09-8 C18-7 C18-8 C19-7 C19-8 C07-1 C07-2 C07-3 C07-4 C07-5 C07-6 C09-1 C09-2 C09-3 C09-4 C09-5 C09-6 C18-1 C18-2 C18-3 C18-4 C18-5 C18-6 C19-1 C19-2 C19-3 C19-4 C19-5 C19-6; do
  git -C $SEEDREPO apply /verif/seeded/$sd/patch.diff && run "seed $sd" ${sd%%-*} M
done
# --- translator (partnames2coq) ---
edit writer.py "return max(pids) + 1" "return max(pids)";                 run "T1 find_max_part without +1" C19 M
edit writer.py "% (i + i_offset)" "% i";                                  run "T3 part name without the offset" C19 M
edit writer.py "return max(pids) + 1" "return 1 + max(pids)";             run "T2 1 + max(pids)" C19 N
edit writer.py "% (i + i_offset)" "% (i_offset + i)";                     run "T5 (i_offset + i)" C19 N
# --- general commit-point relation: _metadata through a temporary file + os.replace (neutral) ---
edit writer.py "    with open_with(fn, 'wb') as f:
        f.write(MARKER)
        if no_row_groups:" "    import os
    with open_with(fn + '.tmp', 'wb') as f:
        f.write(MARKER)
        if no_row_groups:"
edit writer.py "        f.write(struct.pack(b\"<I\", foot_size))
        f.write(MARKER)


def consolidate_categories" "        f.write(struct.pack(b\"<I\", foot_size))
        f.write(MARKER)
    os.replace(fn + '.tmp', fn)


def consolidate_categories"
run "N tmp+rename of the summary files" C19 N
# --- handles ---
git -C $SEEDREPO revert -n 8453df6 >/dev/null 2>&1; run "fix 8453df6 reverted (failed operation stays in the handle)" C07 M; git -C $SEEDREPO revert --abort 2>/dev/null; git -C $SEEDREPO reset -q --hard
edit api.py "        self._base_dtype = getattr(self, \"_given_dtypes\", None)
        self._set_attrs()

    def _sort_part_names" "        self._base_dtype = getattr(self, \"_given_dtypes\", None)

    def _sort_part_names"
run "handle attributes not refreshed after write_row_groups" C09 M

# --- wave 4 ---
git -C $SEEDREPO revert -n 8453df6 >/dev/null 2>&1; run "fix 8453df6 reverted: failed write_row_groups inside one-handle histories" C09 M; git -C $SEEDREPO revert --abort 2>/dev/null; git -C $SEEDREPO reset -q --hard
# the ns -> TIMESTAMP_MICROS append fix (branch fix-w3-dsedit) absent: run C07 against plain /repo main
# (VERIF_REPO=<worktree of /repo main without the fix> ./check C07 --tier quick  -> values-differ on a mixed-unit batch)
